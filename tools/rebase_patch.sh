#!/bin/bash
# usage: tools/rebase_patch.sh <dir with patch.diff + meta.json> <base commit the patch was written against>
# Re-writes <dir>/patch.diff on top of /repo HEAD: base file + patch, then every later /repo change of the same file applied on top
# (patch -F3); the original is kept as patch_as_written.diff.  Fails (exit 1, nothing changed) if a later change does not apply.
set -e
d=$(readlink -f "$1"); base=$2
work=$(mktemp -d /tmp/rebase.XXXXXX)
trap 'rm -rf "$work"' EXIT
files=$(grep '^+++ b/' "$d/patch.diff" | sed 's#^+++ b/##')
mkdir -p "$work/new" "$work/head"
for f in $files; do git -C /repo archive "$base" "$f" | tar -x -C "$work/new"; git -C /repo archive HEAD "$f" | tar -x -C "$work/head"; done
(cd "$work/new" && patch -p1 -s --no-backup-if-mismatch -i "$d/patch.diff")
for f in $files; do
  git -C /repo diff "$base"..HEAD -- "$f" > "$work/fix.diff"
  if [ -s "$work/fix.diff" ]; then (cd "$work/new" && patch -p1 -s -F3 --no-backup-if-mismatch -i "$work/fix.diff") || { echo "later repairs do not apply on top of $f"; exit 1; }; fi
done
(cd "$work" && rm -rf a b && mv head a && mv new b && (diff -ruN a b || true) | grep -v '^Only in' | grep -v '^diff -ruN' > "$work/rebased.diff")
[ -f "$d/patch_as_written.diff" ] || cp "$d/patch.diff" "$d/patch_as_written.diff"
cp "$work/rebased.diff" "$d/patch.diff"
/venv/bin/python - "$d" "$base" <<'PY'
import json, sys, subprocess
d, base = sys.argv[1], sys.argv[2]
p = d + '/meta.json'; m = json.load(open(p))
m['base_commit_as_written'] = base
m['base_commit'] = subprocess.run(['git', '-C', '/repo', 'rev-parse', '--short', 'HEAD'], capture_output=True, text=True).stdout.strip()
m['rebased'] = 'patch.diff is the change as written (patch_as_written.diff) with the later repairs of /repo to the same file applied on top of it'
json.dump(m, open(p, 'w'), indent=1)
PY
echo "rebased $(basename $d)"
