#!/venv/bin/python
"""False-alarm control: run the checks against an independently produced behaviour-preserving refactoring.

  tools/benigncheck.py /tmp/seed_out/B_sdof_1 [--tier quick] [--props C01,C02]

Copies /repo to a scratch dir, applies <dir>/patch.diff, runs the repository's test suite, then every check
whose property is anchored in one of the touched files (or --props).  Every check must exit 0 (KNOWN-FINDING
lines allowed).  Files the refactoring under /verif/benign/<id>/ with the outcome.
"""
import argparse
import json
import os
import shutil
import subprocess
import sys

HERE = os.path.dirname(os.path.dirname(os.path.abspath(__file__)))
MAP = {
    'eqsig/sdof.py': 'C01 C02 C03 C05',
    'eqsig/single.py': 'C01 C03 C04 C05 C06 C07 C08 C14 C17',
    'eqsig/im.py': 'C05 C06 C07 C08 C09 C10 C13',
    'eqsig/fns/frequency.py': 'C04 C05 C06 C07',
    'eqsig/fns/peaks_and_crossings.py': 'C05 C11 C12 C13',
    'eqsig/fns/time_step.py': 'C02 C03 C05 C14',
    'eqsig/fns/average.py': 'C05 C18 C20',
    'eqsig/fns/generic.py': 'C05 C17 C20',
    'eqsig/fns/time_shift.py': 'C05 C18 C19',
    'eqsig/displacements.py': 'C04 C05 C08 C09',
    'eqsig/stockwell.py': 'C05 C15',
    'eqsig/surface.py': 'C05 C19',
    'eqsig/multiple.py': 'C05 C18',
    'eqsig/loader.py': 'C16',
    'eqsig/design_spectra.py': 'C20',
}


def sh(cmd, **kw):
    return subprocess.run(cmd, capture_output=True, text=True, **kw)


def main():
    ap = argparse.ArgumentParser()
    ap.add_argument('dir')
    ap.add_argument('--tier', default='quick')
    ap.add_argument('--props', default='')
    a = ap.parse_args()
    src = a.dir.rstrip('/')
    meta = json.load(open(os.path.join(src, 'meta.json')))
    bid = meta.get('id') or os.path.basename(src)
    scratch = '/tmp/benignchk_%s' % bid
    out = {'id': bid}
    sys.path.insert(0, os.path.dirname(os.path.abspath(__file__)))
    from seedcheck import apply_change
    if not apply_change(src, scratch, meta, out):
        print(json.dumps(out, indent=1))
        shutil.rmtree(scratch, ignore_errors=True)
        return 2
    files = [l[6:].strip() for l in open(os.path.join(src, 'patch.diff')) if l.startswith('+++ b/')]
    env = dict(os.environ, PYTHONPATH=scratch, PYTHONDONTWRITEBYTECODE='1')
    r = sh(['/venv/bin/python', '-m', 'pytest', '-q', '-p', 'no:cacheprovider', '--timeout=900', 'tests'], cwd=scratch, env=env)
    out['suite'] = (r.stdout.strip().splitlines() or ['?'])[-1]
    out['suite_passes'] = r.returncode == 0
    props = sorted(set(a.props.split(',')) - {''}) or sorted(set(p for f in files for p in MAP.get(f, '').split()))
    out['files'] = files
    res = {}
    for p in props:
        env2 = dict(os.environ, EQSIG_SRC=scratch, MC_REPLAY_DIR=scratch + '/_replays')
        env2.pop('PYTHONPATH', None)
        r = sh([os.path.join(HERE, 'mc'), p, a.tier, '--evidence', scratch + '/_ev_%s.json' % p], env=env2)
        lines = r.stdout.strip().splitlines()
        claims = [l.strip() for l in lines if l.strip().startswith('claim=')]
        cases = [l.strip() for l in lines if l.strip().startswith('case=')]
        res[p] = {'rc': r.returncode, 'first_claim': claims[0][:300] if claims else '', 'first_case': cases[0][:300] if cases else '',
                  'summary': (lines[-1] if lines else r.stderr[-200:])[-140:]}
    out['checks'] = res
    out['silent'] = all(v['rc'] == 0 for v in res.values())
    print(json.dumps(out, indent=1))
    dst = os.path.join(HERE, 'benign', bid)
    os.makedirs(dst, exist_ok=True)
    shutil.copy(os.path.join(src, 'patch.diff'), dst)
    m2 = dict(meta)
    m2.setdefault('base_commit', sh(['git', '-C', '/repo', 'rev-parse', '--short', 'HEAD']).stdout.strip())
    m2['result'] = {'suite': out['suite'], 'suite_passes': out['suite_passes'], 'checks': {k: v['rc'] for k, v in res.items()}, 'silent': out['silent'],
                    'first_alarm': next(({'check': k, 'claim': v['first_claim'], 'case': v['first_case']} for k, v in res.items() if v['rc'] != 0), None)}
    json.dump(m2, open(os.path.join(dst, 'meta.json'), 'w'), indent=1)
    shutil.rmtree(scratch, ignore_errors=True)
    return 0 if out['silent'] and out['suite_passes'] else 3


if __name__ == '__main__':
    sys.exit(main())
