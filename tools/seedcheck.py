#!/venv/bin/python
"""Confirm and file a seeded property-breaking change produced by an independent sub-agent.

  tools/seedcheck.py /tmp/seed_out/C09_1 [--tier quick] [--also C05,C04]

For the change in <dir> (patch.diff, demo.py, meta.json):
  1. copy /repo (working tree, no .git) to a scratch dir under /tmp, apply patch.diff there;
  2. run the repository's own test suite against the copy           -> must pass;
  3. run demo.py against the copy (must exit 1) and against /repo    -> must exit 0;
  4. run ./mc <property> quick against the copy (EQSIG_SRC)           -> detected iff exit 1;
  5. write /verif/seeded/<id>/{patch.diff, demo.py, meta.json} (only if 1-3 hold), remove the scratch copy.
"""
import argparse
import json
import os
import shutil
import subprocess
import sys

HERE = os.path.dirname(os.path.dirname(os.path.abspath(__file__)))


def sh(cmd, **kw):
    return subprocess.run(cmd, capture_output=True, text=True, **kw)


def apply_change(src, scratch, meta, out):
    """copy /repo to scratch and apply <src>/patch.diff (plain patch; if that fails and meta has base_commit: three-way merge per file)"""
    shutil.rmtree(scratch, ignore_errors=True)
    shutil.copytree('/repo', scratch, ignore=shutil.ignore_patterns('.git', '__pycache__', '*.egg-info', 'docs', 'examples'))
    r = sh(['patch', '-p1', '--no-backup-if-mismatch', '-i', os.path.join(os.path.abspath(src), 'patch.diff')], cwd=scratch)
    out['applies'] = r.returncode == 0
    if not out['applies'] and meta.get('base_commit'):
        shutil.rmtree(scratch, ignore_errors=True)
        shutil.copytree('/repo', scratch, ignore=shutil.ignore_patterns('.git', '__pycache__', '*.egg-info', 'docs', 'examples'))
        tmpb = scratch + '_base'
        tmpp = scratch + '_patched'
        for d in (tmpb, tmpp):
            shutil.rmtree(d, ignore_errors=True)
            os.makedirs(d)
            subprocess.run('git -C /repo archive %s | tar -x -C %s' % (meta['base_commit'], d), shell=True)
        r = sh(['patch', '-p1', '--no-backup-if-mismatch', '-i', os.path.join(os.path.abspath(src), 'patch.diff')], cwd=tmpp)
        ok = r.returncode == 0
        files = [l[6:].strip() for l in open(os.path.join(src, 'patch.diff')) if l.startswith('+++ b/')]
        for f in files:
            if not ok:
                break
            cur = os.path.join(scratch, f)
            if not os.path.exists(cur):
                shutil.copy(os.path.join(tmpp, f), cur)
                continue
            keep = open(cur).read()
            m = sh(['git', 'merge-file', cur, os.path.join(tmpb, f), os.path.join(tmpp, f)])
            if m.returncode != 0:       # both sides add lines at the same place: keep both (union)
                open(cur, 'w').write(keep)
                m = sh(['git', 'merge-file', '--union', cur, os.path.join(tmpb, f), os.path.join(tmpp, f)])
                out['merged_with_union'] = True
            ok = ok and m.returncode == 0
            r = m if m.returncode != 0 else r
        for d in (tmpb, tmpp):
            shutil.rmtree(d, ignore_errors=True)
        out['applies'] = ok
        out['rebased_onto_head'] = ok
    if not out['applies']:
        out['apply_output'] = (r.stdout + r.stderr)[-400:]
    return out['applies']


def main():
    ap = argparse.ArgumentParser()
    ap.add_argument('dir')
    ap.add_argument('--tier', default='quick')
    ap.add_argument('--also', default='')
    ap.add_argument('--nofile', action='store_true')
    a = ap.parse_args()
    src = a.dir.rstrip('/')
    meta = json.load(open(os.path.join(src, 'meta.json')))
    sid = meta.get('id') or os.path.basename(src)
    prop = meta.get('property') or sid.split('_')[0]
    scratch = '/tmp/seedchk_%s' % sid
    out = {'id': sid, 'property': prop}
    if not apply_change(src, scratch, meta, out):
        print(json.dumps(out, indent=1))
        shutil.rmtree(scratch, ignore_errors=True)
        return 2
    env = dict(os.environ, PYTHONPATH=scratch, PYTHONDONTWRITEBYTECODE='1')
    r = sh(['/venv/bin/python', '-m', 'pytest', '-q', '-p', 'no:cacheprovider', '--timeout=900', 'tests'], cwd=scratch, env=env)
    out['suite'] = (r.stdout.strip().splitlines() or ['?'])[-1]
    out['suite_passes'] = r.returncode == 0
    chk = sh(['/venv/bin/python', '-c', 'import eqsig; print(eqsig.__file__)'], cwd='/tmp', env=env).stdout.strip()
    out['imports_from_copy'] = chk.startswith(scratch)
    r1 = sh(['/venv/bin/python', '-B', os.path.join(os.path.abspath(src), 'demo.py')], cwd='/tmp', env=env)
    out['demo_with_change_rc'] = r1.returncode
    out['demo_with_change_tail'] = (r1.stdout + r1.stderr).strip()[-300:]
    env0 = dict(os.environ, PYTHONPATH='/repo', PYTHONDONTWRITEBYTECODE='1')
    r0 = sh(['/venv/bin/python', '-B', os.path.join(os.path.abspath(src), 'demo.py')], cwd='/tmp', env=env0)
    out['demo_without_change_rc'] = r0.returncode
    out['confirmed'] = bool(out['suite_passes'] and out['imports_from_copy'] and r1.returncode == 1 and r0.returncode == 0)
    det = {}
    for p in [prop] + [x for x in a.also.split(',') if x]:
        env2 = dict(os.environ, EQSIG_SRC=scratch, MC_REPLAY_DIR=scratch + '/_replays')
        env2.pop('PYTHONPATH', None)
        r = sh([os.path.join(HERE, 'mc'), p, a.tier, '--evidence', scratch + '/_ev_%s.json' % p], env=env2)
        lines = r.stdout.strip().splitlines()
        claims = [l.strip() for l in lines if l.strip().startswith('claim=')]
        det[p] = {'rc': r.returncode, 'first_claim': claims[0][:220] if claims else '', 'summary': (lines[-1] if lines else r.stderr[-200:])[-160:]}
    out['checks'] = det
    out['detected'] = any(v['rc'] == 1 for v in det.values())
    print(json.dumps(out, indent=1))
    if out['confirmed'] and not a.nofile:
        dst = os.path.join(HERE, 'seeded', sid)
        os.makedirs(dst, exist_ok=True)
        shutil.copy(os.path.join(src, 'patch.diff'), dst)
        shutil.copy(os.path.join(src, 'demo.py'), dst)
        m2 = dict(meta)
        m2.setdefault('base_commit', subprocess.run(['git', '-C', '/repo', 'rev-parse', '--short', 'HEAD'], capture_output=True, text=True).stdout.strip())
        m2['verified'] = {k: out[k] for k in ('suite', 'suite_passes', 'demo_with_change_rc', 'demo_without_change_rc', 'confirmed')}
        m2['verified']['how'] = ('scratch copy of /repo + patch.diff; repository test suite; demo.py against the copy and against /repo; '
                                 './mc <property> %s with EQSIG_SRC=<copy>' % a.tier)
        m2['checks'] = det
        m2['detected_by'] = sorted(k for k, v in det.items() if v['rc'] == 1)
        json.dump(m2, open(os.path.join(dst, 'meta.json'), 'w'), indent=1)
    shutil.rmtree(scratch, ignore_errors=True)
    return 0 if out['confirmed'] else 3


if __name__ == '__main__':
    sys.exit(main())
