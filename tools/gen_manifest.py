#!/usr/bin/env python3
"""Regenerates /verif/MANIFEST.json from the table below; a property is claimed as soon as
mcheck/props/<id>.py exists, otherwise it is listed under not_applicable (not yet built)."""
import json
import os
import sys

HERE = os.path.dirname(os.path.dirname(os.path.abspath(__file__)))

T = {
 'C01': ('T x G', 'input-history tree x configuration grid against a 40-digit closed-form ODE solution (mpmath)',
         'Every record over {-1,0,1} up to the length bound plus named long families, crossed with finite menus of dt, T/dt (both sides of every branch, 0.2..2e4), damping and period-list shape, is run through all three entry points and compared sample by sample with an independently derived 40-digit exact solution, using exactly the tolerance the property states.',
         'mpmath closed-form per-step solution is the trusted reference (cross-checked by a longdouble witness); dt, T/dt and xi only on finite menus; peak normalisation uses the continuous-time exact peak where the sampled exact series vanishes'),
 'C02': ('T x G', 'exhaustive enumeration of record pairs / split points / shifts / refinements / period permutations and partitions; relational oracle between executions of the real code',
         'All ordered pairs of small records, all split points, shifts, refinement factors 2..8 and all permutations and set partitions of short period lists are enumerated and the stated relations (linearity, causality, shift, batching, refinement) are checked between executions of the implementation.',
         'relations are checked between runs of the implementation itself; values on finite menus'),
 'C03': ('T x G', 'input-history tree x period-list/container/min_dt_ratio grid against reference peaks and sums',
         'Every small record crossed with period lists on both sides of 6*dt (with and without leading 0), three containers, dampings and min_dt_ratio values; spectra compared with peaks of a reference response and exact-rational refinement factor.',
         'reference response = independent float64 closed-form propagator validated by C01; finite menus'),
 'C04': ('S', 'explicit-state BFS over real method calls: abstract cache-state graph to closure + exact depth-bounded enumeration of all operation sequences; fresh-object differential invariant on every transition',
         'Every interleaving of mutators, settings changes and reads is explored on the real objects: breadth-first to closure over the cache-control state (unbounded history length modulo the abstraction) and exhaustively without abstraction up to the depth bound; after every transition every public read must equal the read on a freshly constructed object.',
         'abstraction argument in DESIGN.md 2.1 (cache flags are not control-dependent on sample values); finite operation menu with fixed effective arguments'),
 'C05': ('S + T', 'explicit-state enumeration of mutator sequences with byte snapshots (ownership) + exhaustive registry x record x container sweep (purity, repeatability)',
         'All mutator sequences up to the depth bound after construction/reset for every container type, with caller-side byte snapshots in both directions; every registered public analysis function on every small record in three containers with before/after snapshots and a repeated call.',
         'purity is decided for the functions in the explicit registry (uncovered public callables are listed in the evidence); finite record alphabet'),
 'C06': ('T x G', 'input-history tree x padding-mode grid against a naive O(N^2) DFT',
         'Every small record crossed with every padding mode (default, p2_plus, explicit n incl. odd, unpadded) and every entry point, compared with a direct DFT sum on the stated grid; linearity, trailing zeros, Parseval and inverse reconstruction as relations.',
         'naive DFT in complex128 is the reference; lengths up to the bound'),
 'C07': ('T x G', 'exhaustive amplitude words x frequency grids x target sets x bandwidths against a scalar double-loop window',
         'All amplitude words over {0,1,3} on small Fourier grids, with all target-set shapes (on-grid, off-grid, outside) and bandwidths, compared with a scalar Konno-Ohmachi reference; weights, bounds, scaling, matrix form and bandwidth ordering.',
         'scalar double loop reference; grids up to the bound'),
 'C09': ('T', 'input-history tree against exact-rational quadrature; exhaustive window words for standardised CAV',
         'Every word over {-2..2} up to the bound for all quadrature measures against exact rational integrals (final value and every running value), scaling/sign/zero-padding relations, and every level word over whole-second windows for CAV_dp against window bounds.',
         'exact rationals; dt on menu; CAV_dp levels never placed on the 0.025 g gate'),
 'C08': ('T', 'input-history tree (all words over a 5-level alphabet up to the length bound) against an exact-rational reference; tree edges as causal-prefix oracle',
         'Every word over {-2..2} up to the length bound x dt x trap x entry point (array function with float and integer input, alias, object lazy and explicit paths) is compared with exact rational cumulative sums; peaks, sign/scale relations, closed forms and the prefix relation along every tree edge.',
         'exact rationals; dt on a 4-value menu'),
 'C10': ('T', 'input-history tree against exact-rational cumulative sums with explicit tie classification',
         'Every word over {-2..2} up to the bound x fraction pairs x se x measure variant; reference decides each threshold comparison exactly and classifies ties, implementation must agree on decided comparisons and exact ties; relations (scaling, zero prefix, nesting, threshold monotonicity).',
         'exact rationals; tie semantics of DESIGN.md section 3'),
 'C11': ('T', 'input-history tree (every rise/fall/flat pattern over a 5-level alphabet up to the bound) against a scanning state machine',
         'Every non-constant word over 5 levels up to the bound (plus 7-level and 3-level extensions) for ptype all/max/min and the cycle counter, compared exactly with a run-compression reference scanner.',
         'index-valued outputs compared exactly; plateau-rich long words in thorough are seeded (oracle exact)'),
 'C12': ('T', 'input-history tree over {-2..2} and {-3..3} against scanning references for crossings and excursions',
         'Every non-constant word over the two alphabets up to the bounds x keep_adj_zeros x tol; crossings compared exactly, switched peaks checked against the excursion structure (set-valued on ties).',
         'index-valued outputs compared exactly'),
 'C13': ('T x G', 'input-history tree against conservation identities and inverse relations',
         'Every non-constant word over 4 levels up to the bound (float, int, offsets) for the peaks-only series; 7-level words x b x cut_off x a_ref for the power-law measures; identities and scaling relations.',
         'relations and closed-form identities; finite menus for b, cut_off, a_ref'),
 'C14': ('G x T', 'complete (dt,target) grid x length x even x record words against the step rule and explicit interpolation',
         'All (dt, target_dt) pairs of an 18-value menu incl. non-commensurate and rounding-adjacent quotients x lengths x even x all words of length 4-5: step rule, retained samples (bit-exact), subsequence, range, duration, parity; on-grid harmonics for Fourier resampling.',
         'finite menus; harmonic exactness only where the resampled grid tiles the record'),
 'C15': ('T x G', 'input-history tree and complete on-grid sinusoid family against a triple-loop discrete S-transform',
         'Every word over {-1,0,2} of length 4..bound (odd and even) and every on-grid sinusoid for n=8..64: definition, two implementations, linearity, row marginals, inverse, dominant-frequency trace.',
         'triple-loop reference in complex128'),
 'C16': ('G', 'complete grid of value words x dt x label x loader x m on real files in a private temporary directory',
         'Every value word of length 1..bound over a 7-value alphabet x 11 time steps (incl. >= 1 s) x labels x all six loader entry points x load factors, round-tripped through real files.',
         'format arithmetic as stated in the property'),
 'C17': ('G + T + S', 'filter-setting grid x on-grid sinusoids against the analytic digital Butterworth gain; word enumeration for detrending/adding/running average',
         'All cut-off/order/Gibbs/container settings x sinusoids across pass, transition and stop bands against |H|^2 from the bilinear transform; all impulse pairs for linearity; all small words x degrees for detrending identities; adding with rejections; running average against window means for widths 1..25.',
         'analytic gain (no scipy); tolerances per conditioning class (DESIGN.md C17)'),
 'C18': ('T x G + S', 'exhaustive component pairs x angles; lag x steps x cluster size x master grid with post-conditions',
         'All pairs of small components x 8 angles for the combination and the rotated scan; every lag in the window x steps x 2-4 signals x every master for time_match; all small clusters x masters x windows for same_start.',
         'masters restricted to records whose true lag is the unique minimiser (verified by the reference)'),
 'C19': ('T x G', 'input-history tree x travel-time/option grid against an explicit shifted-wave model',
         'Every word over {-1,0,2} up to the bound x travel times (zero, half-sample, fractional, integer) x nodal x reductions x trim x start x stt, compared with a sample-by-sample reference; shifting helpers over all shift vectors and clip modes.',
         'explicit reference for (trim,start)=(F,F),(T,F); relations for the other option combinations'),
 'C20': ('T x G', 'exhaustive node sets x column words x query points; words x windows x modes; split enumeration; period grid with every segment boundary',
         'All table columns over {-1,0,4} on several node sets x query points at nodes/midpoints/outside; all words over {-2,0,1,3} x windows x modes; all splits x powers; design-spectrum functions on a grid containing every boundary +-1e-12.',
         'explicit bracketing / index clamping references; finite menus'),
}


def main():
    # a property is claimed only when listed in mcheck/READY (one id per line) - a module file that is
    # still being written must not be registered by accident
    READY = set(open(os.path.join(HERE, 'mcheck', 'READY')).read().split())
    checks = []
    na = []
    for pid in sorted(T):
        eng, tech, text, note = T[pid]
        if pid in READY:
            checks.append({
                'property_id': pid,
                'quick_cmd': './mc %s quick' % pid,
                'thorough_cmd': './mc %s thorough' % pid,
                'evidence_file': '/verif/evidence/%s.json' % pid,
                'replay_cmd_template': './mc %s --replay {path}' % pid,
                'engine': 'engine ' + eng,
                'level_claimed': {'category': 'model_checking', 'text': text,
                                  'design_ref': 'DESIGN.md section 4, %s' % pid},
                'level_note': note,
                'technique': 'bounded-exhaustive model checking of the implementation: ' + tech,
            })
        else:
            na.append({'property_id': pid,
                       'reason': 'check not built yet in this revision (bounded-exhaustive design in DESIGN.md section 4, %s); not claimed until it runs' % pid})
    man = {
        'version': 1,
        'setup_cmd': './setup.sh',
        'hooks': {'guard': 'EQSIG_VERIF', 'enable': 'none needed: the checks drive the public API of the unmodified sources (EQSIG_SRC, default /repo, first on sys.path)',
                  'baseline_off_cmd': 'cd /repo && /venv/bin/python -m pytest -ra -q -p no:cacheprovider --timeout=900 --continue-on-collection-errors',
                  'source_commits': [], 'add_only': True},
        'engines': [
            {'name': 'engine T', 'path': 'mcheck/cli.py + mcheck/props/*.py', 'kind_free_text': 'input-history tree explorer: all words over a finite sample alphabet up to a length bound, every node run through the real code under a finite configuration menu against a reference model',
             'serves_properties': [p for p in sorted(T) if 'T' in T[p][0]]},
            {'name': 'engine G', 'path': 'mcheck/cli.py + mcheck/props/*.py', 'kind_free_text': 'configuration-lattice enumerator: complete Cartesian product of finite menus',
             'serves_properties': [p for p in sorted(T) if 'G' in T[p][0]]},
            {'name': 'engine S', 'path': 'mcheck/osm.py', 'kind_free_text': 'explicit-state breadth-first search over sequences of real public method calls, abstract-to-closure and exact depth-bounded',
             'serves_properties': [p for p in sorted(T) if 'S' in T[p][0]]},
        ],
        'checks': checks,
        'not_applicable': na,
        'notes': 'All checks run the real eqsig sources from /repo (EQSIG_SRC) with fresh byte-code; nothing is sampled in the deciding step. Known findings: known_findings.txt. Exit 2 = check could not do its job (never 0).',
    }
    with open(os.path.join(HERE, 'MANIFEST.json'), 'w') as f:
        json.dump(man, f, indent=1)
    try:
        sys.path.insert(0, os.path.join(HERE, '.deps'))
        import jsonschema
        jsonschema.validate(man, json.load(open('/root/.vp/MANIFEST.schema.json')))
        print('MANIFEST.json valid; claimed:', [c['property_id'] for c in checks])
    except ImportError:
        print('written (jsonschema not importable here)')


if __name__ == '__main__':
    main()
