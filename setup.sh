#!/bin/bash
# Offline setup: install the two pure-python helper packages (mpmath for the 40-digit SDOF
# oracle, jsonschema for evidence validation) from the local wheelhouse into /verif/.deps.
set -e
cd "$(dirname "$0")"
export PIP_NO_INDEX=1 PIP_DISABLE_PIP_VERSION_CHECK=1
if ! PYTHONPATH=/verif/.deps /venv/bin/python -c "import mpmath, jsonschema" 2>/dev/null; then
  rm -rf .deps
  /venv/bin/python -m pip install --quiet --no-index --find-links /opt/veriftools/wheels \
      --target /verif/.deps mpmath jsonschema
fi
mkdir -p evidence replays
PYTHONPATH=/verif/.deps /venv/bin/python -B -c "import mpmath, jsonschema; print('deps ok', mpmath.__version__, jsonschema.__version__)"
./mc selfimport
