import numpy as np
bad=[n for n in range(2,5000,2) if int(2 ** (np.log(n) / np.log(2)))!=n]
print(len(bad),bad[:30])
badp=[n for n in [2**k for k in range(1,20)] if int(2 ** (np.log(n) / np.log(2)))!=n]
print(badp)
