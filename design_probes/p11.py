import sys; sys.path.insert(0,'/tmp/probe/deps')
import numpy as np, itertools, warnings, time
import mpmath as mp
mp.mp.dps=40
warnings.simplefilter('ignore')
from eqsig import sdof
from orc import oracle
worst={}
t0=time.time()
recs=[r for L in (2,3,4) for r in itertools.product((-1,0,1),repeat=L) if any(r)]
recs+= [tuple([0,1]+[0]*n) for n in (50,500,3000)]
recs+= [tuple([1]*n) for n in (50,3000)]
for dt in (0.005,0.01,1.0):
  for ratio in (0.2,0.5,1,2,5.9,6,10,20,100,1000,2e4):
    T=ratio*dt
    for xi in (0,0.01,0.05,0.5,0.9,0.99,0.999):
      for rec in recs:
        if len(rec)>10 and dt!=0.01: continue
        u,v,a=sdof.response_series(np.array(rec,float),dt,np.array([T]),xi)
        U,V=oracle(rec,dt,T,xi)
        dur=(len(rec)-1)*dt
        w=2*np.pi/T
        wdt=2*np.pi/ratio
        tol=1e-6+5e-8*dur/T+2.2e-16/wdt**3
        amax=max(abs(x) for x in rec)
        nat={'u':amax*min(1/w**2,dur**2/2),'v':amax*min(1/w,dur)}
        for name,got,ref in (('u',u[0],U),('v',v[0],V)):
            pk=max(float(max(abs(x) for x in ref)),nat[name])
            err=float(max(abs(mp.mpf(float(g))-r) for g,r in zip(got,ref)))/pk
            k=(name,ratio,xi)
            r_=float(err/tol)
            if r_>worst.get(k,(0,))[0]: worst[k]=(r_,float(err),tol,len(rec),dt)
        wi=6.2831853/T
        t1=np.abs(2*xi*w*v[0]); t2=np.abs(w**2*u[0])
        err=np.max(np.abs(a[0]+(2*xi*w*v[0]+w**2*u[0]))/np.maximum(np.maximum(t1,t2),1e-300))
        k=('a',ratio,xi)
        if err>worst.get(k,(0,))[0]: worst[k]=(float(err),)
print(time.time()-t0)
for k,v in sorted(worst.items(), key=lambda kv:-kv[1][0])[:16]: print(k,v)
