import sys; sys.path.insert(0,'/tmp/probe/deps')
import numpy as np, itertools, warnings
import mpmath as mp
warnings.simplefilter('ignore')
from eqsig import sdof
from orc2 import oracle2
recs=[r for L in (2,3,4) for r in itertools.product((-1,0,1),repeat=L) if any(r)]
for ratio in (1000,2000,3000):
  w_=0
  for dt in (0.005,0.01,1.0):
    for xi in (0,0.01,0.05,0.2,0.5,0.9,0.99,0.999):
      T=ratio*dt
      for rec in recs:
        U,V,pu,pv=oracle2(rec,dt,T,xi)
        u,v,a=sdof.response_series(np.array(rec,float),dt,np.array([T]),xi)
        dur=(len(rec)-1)*dt; wdt=2*np.pi/ratio
        tol=1e-6+5e-8*dur/T+2.2e-16/wdt**3
        for got,ref,pc in ((u[0],U,pu),(v[0],V,pv)):
            err=float(max(abs(mp.mpf(float(g))-r) for g,r in zip(got,ref)))/float(pc)
            w_=max(w_,err/tol)
  print(ratio,round(w_,4))
