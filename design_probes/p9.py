import numpy as np, warnings, itertools, collections
warnings.simplefilter('ignore')
import eqsig
from eqsig import stockwell as st
def ref_st(h):
    N=len(h)//2*2; h=np.asarray(h[:N],float)
    H=np.array([sum(h[t]*np.exp(-2j*np.pi*m*t/N) for t in range(N)) for m in range(N)])/N
    S=np.zeros((N//2,N),complex)
    for k in range(1,N//2+1):
        for j in range(N):
            s=0
            for m in range(N):
                ms=m if m<=N//2 else m-N
                s+=H[(m+k)%N]*np.exp(-2*np.pi**2*ms**2/k**2)*np.exp(2j*np.pi*m*j/N)
            S[N//2-k,j]=s
    return np.conj(S)
bad=collections.Counter()
for n in range(4,13):
    for x in itertools.product((-1,0,2),repeat=n):
        if n>7 and hash(x)%50: continue
        xa=np.array(x,float); x0=xa.copy()
        a=st.transform(xa); b=st.transform_w_scipy_fft(xa)
        if not np.array_equal(xa,x0): bad['mut']+=1
        r=ref_st(x)
        if a.shape!=(n//2,n//2*2): bad['shape']+=1
        if not np.allclose(a,r,atol=1e-12): bad['def']+=1
        if not np.allclose(a,b,atol=1e-12): bad['agree']+=1
        N=n//2*2
        F=np.fft.fft(xa[:N])
        rs=a.sum(axis=1)
        want=np.conj(F[1:N//2+1])[::-1]
        if not np.allclose(rs,want,atol=1e-10): bad['marg']+=1
        inv=st.itransform(a)
        G=F.copy(); G[0]=0; G[N//2]=0
        if len(inv)!=N or not np.allclose(inv,np.fft.ifft(G).real,atol=1e-12): bad['inv']+=1
print(bad)
# sinusoid
cnt=0
for n in list(range(8,65))+[128,256]:
    N=n//2*2
    for k0 in range(2,N//2+1):
        if k0>0.75*N/2: continue
        for ph in (0,0.5,1.0,2.0):
            for dt in (0.01,0.5):
                t=np.arange(n)
                x=np.sin(2*np.pi*k0*t/N+ph)
                s=eqsig.AccSignal(x,dt)
                mf=st.get_max_stockwell_freq(s)
                f0=k0/(N*dt)
                mid=mf[N//4:3*N//4]
                cnt+=1
                if not np.allclose(mid,f0,rtol=1e-12): bad['sin']+=1; print(n,k0,ph,mid/f0)
print(cnt,bad)
