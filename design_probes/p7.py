import numpy as np, warnings
warnings.simplefilter('ignore')
import eqsig
from eqsig.fns import time_step as ts
x=np.arange(12.)**2
for dt,tg,even in [(0.01,0.01,True),(0.01,0.01,False),(0.01,0.03,False),(0.01,0.03,True),(0.01,0.025,False),(0.03,0.01,False),(0.1,0.3,False),(0.1,0.7,False),(0.01,0.07,False)]:
    try:
        v,ndt=ts.interp_array_to_approx_dt(x,dt,tg,even=even)
        print('interp',dt,tg,even,len(v),ndt,v[:5])
    except Exception as e: print('interp',dt,tg,even,'ERR',repr(e))
    try:
        a=ts.resample_to_approx_dt(eqsig.AccSignal(x,dt),tg,even=even)
        print('  resamp',a.npts,a.dt)
    except Exception as e: print('  resamp ERR',repr(e))
for m in range(2,40):
    f=1/np.floor(1/(1/m))
    t=np.arange(10)/f
    if not np.all(t==np.round(t)): print('nonint m',m,t[:4]-np.round(t[:4]))
