import numpy as np, itertools, warnings, collections, math
warnings.simplefilter('ignore')
import eqsig
from eqsig import sdof
bad=collections.Counter(); ex={}
recs=[np.array(r,float) for L in (2,3,4,5) for r in itertools.product((-1,0,2),repeat=L) if any(r)]
N_=0
for dt in (0.01,0.5):
  for plist in ([0,2,5.9,6,20],[2,5.9,6,20],[0.0,100.0],[3.0],[6.0,6.000001,5.999999]):
    P=np.array(plist)*dt
    for xi in (0,0.05,0.7):
      for a in recs:
        N_+=1
        u,v,ac=sdof.response_series(a,dt,P,xi)
        w=np.where(P>0,2*np.pi/np.where(P>0,P,1),0)
        for cont in (np.array,list,tuple):
            try:
                sd,sv,sa=sdof.pseudo_response_spectra(a,dt,cont(P),xi)
            except Exception as e: bad['pseudo_exc_'+cont.__name__]+=1; continue
            pk=np.abs(u).max(axis=1)
            if not np.allclose(sd,pk,rtol=1e-12,atol=0): bad['sd']+=1
            if not np.allclose(sv[P>0],(w*pk)[P>0],rtol=1e-12): bad['sv']+=1
            want=np.where(P<6*dt,np.abs(a).max(),w**2*pk)
            if not np.allclose(sa,want,rtol=1e-12): bad['sa']+=1; ex.setdefault('sa',(a,P/dt,sa,want))
            if P[0]==0 and (sd[0]!=0 or sa[0]!=np.abs(a).max()): bad['T0']+=1
            if not (np.all(np.isfinite(sd))&np.all(np.isfinite(sv))&np.all(np.isfinite(sa))): bad['finite']+=1; ex.setdefault('finite',(a,P,sd,sv,sa))
            if sd.shape!=(len(P),): bad['shape']+=1
            try:
                td,tv,ta=sdof.true_response_spectra(a,dt,cont(P),xi)
            except Exception as e: bad['true_exc_'+cont.__name__]+=1; continue
            if not np.allclose(tv,np.abs(v).max(axis=1),rtol=1e-12): bad['tv']+=1
            want=np.where(P<6*dt,np.abs(a).max(),np.abs(ac).max(axis=1))
            if not np.allclose(ta,want,rtol=1e-12): bad['ta']+=1
            if xi==0 and not np.allclose(ta,sa,rtol=1e-7): bad['ta_eq_sa_xi0']+=1; ex.setdefault('taeq',(a,P/dt,ta,sa))
        # energies
        s=eqsig.AccSignal(a,dt)
        if P[0]>0:
            e=sdof.calc_input_energy_spectrum(s,periods=P,xi=xi)
            if not np.allclose(e,np.sum(a*v*dt,axis=1)): bad['ein_def']+=1
            if np.any(e< -1e-12*np.abs(a).max()**2): bad['ein_neg']+=1; ex.setdefault('ein_neg',(a,P/dt,xi,e))
            es=sdof.calc_input_energy_spectrum(s,periods=P,xi=xi,series=True)
            if not np.allclose(es[:,-1],e): bad['ein_series']+=1
            k=sdof.calc_resp_uke_spectrum(s,periods=P,xi=xi)
            if not np.allclose(k,np.sum(np.abs(np.diff(0.5*v**2,axis=1)),axis=1)): bad['uke']+=1
print(N_,bad)
for k,v in ex.items(): print(k,v)
