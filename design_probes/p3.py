import numpy as np, itertools, warnings, collections
warnings.simplefilter('ignore')
from eqsig.fns import peaks_and_crossings as pc

def ref_peaks(x):
    # turning points: first sample of plateau that is local extremum; plus 0 and first sample of final constant run
    n=len(x)
    # compress runs
    runs=[]  # (start, value)
    for i,v in enumerate(x):
        if not runs or runs[-1][1]!=v: runs.append((i,v))
    idx=[runs[0][0]]
    for k in range(1,len(runs)-1):
        a,b,c=runs[k-1][1],runs[k][1],runs[k+1][1]
        if (b>a and b>c) or (b<a and b<c): idx.append(runs[k][0])
    idx.append(runs[-1][0])
    kinds=[]
    for j,i in enumerate(idx):
        # local max or min?
        k=[r[0] for r in runs].index(i)
        if k==0: kinds.append('max' if runs[1][1]<runs[0][1] else 'min')
        else: kinds.append('max' if runs[k-1][1]<runs[k][1] else 'min')
    return idx,kinds

def ref_zc(x,keep):
    out=[0]
    for i in range(len(x)):
        if x[i]==0:
            if keep or i==0 or x[i-1]!=0: out.append(i)
        elif i>0 and x[i]*x[i-1]<0: out.append(i)
    return sorted(set(out))

bad=collections.Counter(); ex={}
for L in range(2,8):
    for x in itertools.product(range(-2,3),repeat=L):
        if len(set(x))==1: continue
        xa=np.array(x,float)
        idx,kinds=ref_peaks(x)
        got=list(pc.get_peak_array_indices(xa))
        if got!=idx: bad['all']+=1; ex.setdefault('all',(x,got,idx))
        for pt in ('max','min'):
            g=list(pc.get_peak_array_indices(xa,pt)); want=[i for i,k in zip(idx,kinds) if k==pt]
            if g!=want:
                bad[pt]+=1; ex.setdefault(pt,(x,g,want))
                if x[0]!=x[1]: bad[pt+'_nonflat']+=1; ex.setdefault(pt+'_nonflat',(x,g,want))
        for keep in (False,True):
            g=list(pc.get_zero_crossings_array_indices(xa,keep_adj_zeros=keep)); want=ref_zc(x,keep)
            if g!=want: bad['zc%s'%keep]+=1; ex.setdefault('zc%s'%keep,(x,g,want))
print(bad); print(ex)
