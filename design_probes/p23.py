import numpy as np, itertools, warnings, collections
warnings.simplefilter('ignore')
import eqsig
from eqsig import im
from fractions import Fraction as F
bad=collections.Counter(); ex={}
fr=[0.05,0.25,0.5,0.75,0.95]
N_=0
def ref(cum,tot,s,e):
    # returns (lo_set, hi_set) indices decided strictly, ambiguous ones flagged
    idx=[];amb=[]
    for i,c in enumerate(cum):
        a=c-F(s)*tot; b=F(e)*tot-c
        tie=(a==0 or b==0)
        if a>0 and b>0: idx.append(i)
        elif tie: amb.append(i)
    return idx,amb
for L in range(2,7):
  for x in itertools.product(range(-2,3),repeat=L):
    if not any(x): continue
    a=np.array(x,float)
    for dt in (0.5,0.01):
      s_=eqsig.AccSignal(a,dt)
      cum=list(itertools.accumulate(v*v for v in x)); tot=cum[-1]
      cumt=[F(0)]
      for i in range(1,L): cumt.append(cumt[-1]+F(x[i]**2+x[i-1]**2,2))
      for s,e in itertools.combinations(fr,2):
        N_+=1
        idx,amb=ref(cum,tot,s,e)
        dy=all(F(q).denominator<=4 for q in (s,e))
        try: st,en=im.calc_sig_dur_vals(a,dt,start=s,end=e,se=True)
        except IndexError:
            if idx: bad['vals_idxerr']+=1; ex.setdefault('vals_idxerr',(x,s,e,idx))
            continue
        if not idx and not amb: bad['vals_noerr']+=1; continue
        i0=round(st/dt); i1=round(en/dt)
        if dy:
            if not idx: bad['vals_dy_shoulderr']+=1; ex.setdefault('vdse',(x,s,e,i0,i1,amb)); continue
            if (i0,i1)!=(idx[0],idx[-1]): bad['vals_dy']+=1; ex.setdefault('vals_dy',(x,s,e,i0,i1,idx))
        else:
            cand=sorted(idx+amb)
            if not(i0 in cand and i1 in cand and (not idx or (i0<=idx[0] and i1>=idx[-1]))): bad['vals']+=1; ex.setdefault('vals',(x,s,e,i0,i1,idx,amb))
        # arias version
        if cumt[-1]>0:
            idx2,amb2=ref(cumt,cumt[-1],s,e)
            try: st,en=im.calc_sig_dur(s_,start=s,end=e,se=True)
            except IndexError:
                if idx2: bad['ar_idxerr']+=1
                continue
            i0=round(st/dt); i1=round(en/dt)
            if dy and dt==0.5:
                if not idx2: bad['ar_dy_shoulderr']+=1; continue
                if (i0,i1)!=(idx2[0],idx2[-1]): bad['ar_dy']+=1; ex.setdefault('ar_dy',(x,s,e,i0,i1,idx2,amb2))
            else:
                cand=sorted(idx2+amb2)
                if not(i0 in cand and i1 in cand and (not idx2 or (i0<=idx2[0] and i1>=idx2[-1]))): bad['ar']+=1; ex.setdefault('ar',(x,s,e,i0,i1,idx2,amb2))
print(N_,bad)
for k,v in ex.items(): print(k,v)
