import numpy as np, itertools, warnings, collections
warnings.simplefilter('ignore')
from eqsig.fns import peaks_and_crossings as pc
from p3 import ref_peaks

def excursions(x):
    ex=[];cur=None
    for i,v in enumerate(x):
        s=(v>0)-(v<0)
        if s==0: cur=None; continue
        if cur is None or cur[0]!=s: cur=[s,[i]]; ex.append(cur)
        else: cur[1].append(i)
    return ex
def check(x,got):
    errs=[]
    if any(b<=a for a,b in zip(got,got[1:])): errs.append('notasc')
    exs=excursions(x)
    gs=set(got)
    tp,_=ref_peaks(x)
    for s,idxs in exs:
        inside=[i for i in got if i in idxs]
        if len(inside)!=1: errs.append('count%d'%len(inside) + ('_first' if idxs[0]==0 else ''))
        else:
            m=max(abs(x[i]) for i in idxs)
            if abs(x[inside[0]])!=m: errs.append('notmax' + ('_first' if idxs[0]==0 else ''))
    for i in got:
        if x[i]==0 and i not in tp: errs.append('zero_nonturning')
    for a,b in zip(got,got[1:]):
        if x[a]*x[b]>0: errs.append('samesign')
    M=max(abs(v) for v in x)
    if not any(abs(x[i])==M for i in got): errs.append('globalmax')
    return errs
if __name__=='__main__':
  bad=collections.Counter(); ex={}
  N=0
  for L in range(2,8):
    for x in itertools.product(range(-2,3),repeat=L):
        if len(set(x))==1: continue
        N+=1
        xa=np.array(x,float)
        got=[int(i) for i in pc.get_switched_peak_array_indices(xa)]
        for e in set(check(x,got)):
            bad[e]+=1; ex.setdefault(e,(x,got))
        # tol subsequence
        for tol in (0.5,1.5):
            g2=[int(i) for i in pc.get_switched_peak_array_indices(xa,tol=tol)]
            if not set(g2)<=set(got): bad['tolsub%s'%tol]+=1; ex.setdefault('tolsub%s'%tol,(x,got,g2))
            z0=[int(i) for i in pc.get_zero_crossings_array_indices(xa)]
            z2=[int(i) for i in pc.get_zero_crossings_array_indices(xa,tol=tol)]
            if not set(z2)<=set(z0): bad['zctolsub%s'%tol]+=1; ex.setdefault('zctolsub',(x,z0,z2))
  print(N,bad)
  for k,v in ex.items(): print(k,v)
