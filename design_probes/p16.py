import numpy as np, itertools, warnings, collections
warnings.simplefilter('ignore')
import eqsig
from eqsig.fns import frequency as fq
bad=collections.Counter(); ex={}
def dft(x,N):
    x=list(x)+[0]*(N-len(x)); x=x[:N]
    return np.array([sum(x[t]*np.exp(-2j*np.pi*k*t/N) for t in range(N)) for k in range(N)])
N_=0
for L in range(2,8):
  for x in itertools.product((-1,0,2),repeat=L):
    if not any(x): continue
    xa=np.array(x,float)
    for dt in (0.01,0.5):
      for cls in (eqsig.Signal,eqsig.AccSignal):
        s=cls(xa,dt)
        # default
        for mode,kw in (('def',{}),('p1',{'p2_plus':1}),('p3',{'p2_plus':3}),('nL',{'n':L}),('nL1',{'n':L+1}),('n2L',{'n':2*L}),('nshort',{'n':max(L-1,2)})):
            N_+=1
            if 'n' in kw: N=kw['n']
            else: N=2**(int(np.ceil(np.log2(L)))+kw.get('p2_plus',0))
            s.gen_fa_spectrum(**kw)
            F=dft(x,N)*dt
            pts=N//2
            if len(s.fa_spectrum)!=pts or not np.allclose(s.fa_spectrum,F[:pts],atol=1e-12): bad['obj_'+mode]+=1; ex.setdefault('obj_'+mode,(x,kw))
            fr=np.arange(pts)/(N*dt)
            if not np.allclose(s.fa_freqs,fr,rtol=1e-12): bad['objfreq_'+mode+('_odd' if N%2 else '_even')]+=1
            if mode!='def':
                a,f=fq.calc_fa_spectrum(s,**kw)
                if not np.allclose(a,F[:pts],atol=1e-12): bad['arr_'+mode]+=1
                if not np.allclose(f,fr,rtol=1e-12): bad['arrfreq_'+mode+('_odd' if N%2 else '_even')]+=1
            if N%2==0:
                v=fq.fas2values(F[:pts],dt)
                G=F/dt; G[0]=0; G[N//2]=0
                want=np.fft.ifft(G)
                if len(v)!=N: bad['inv_len']+=1; ex.setdefault('inv_len',(N,len(v)))
                elif not np.allclose(v,want,atol=1e-12): bad['inv']+=1
        a,f=fq.generate_fa_spectrum(s,n_pad=False); F=dft(x,L)*dt
        if not np.allclose(a,F[:L//2],atol=1e-12): bad['gen_nopad']+=1
        if not np.allclose(f,np.arange(L//2)/(L*dt),rtol=1e-12): bad['gen_nopad_freq'+('_odd' if L%2 else '_even')]+=1
        a,f=fq.calc_fa_spectrum(s); 
        if not np.allclose(a,F[:L//2],atol=1e-12): bad['calc_nopad']+=1
        # max_fa_period
        s2=cls(xa,dt)
        amp=np.abs(s2.fa_spectrum); m=amp.max()
        p=eqsig.im.max_fa_period(s2)
        ok=[1/s2.fa_freqs[i] if s2.fa_freqs[i]>0 else np.inf for i in range(len(amp)) if amp[i]>=m*(1-1e-12)]
        if not any((p==o) or abs(p-o)<1e-12*abs(o) for o in ok): bad['maxper']+=1; ex.setdefault('maxper',(x,p,ok))
print(N_,bad)
for k,v in ex.items(): print(k,v)
