import sys; sys.path.insert(0,'/tmp/probe/deps')
import numpy as np, itertools, warnings, collections
import mpmath as mp
warnings.simplefilter('ignore')
from eqsig import sdof
from orc2 import oracle2
h=collections.Counter(); worst={}
recs=[r for L in (2,3,4) for r in itertools.product((-1,0,1),repeat=L) if any(r)]
recs+= [tuple([0,1]+[0]*n) for n in (50,500)]+[tuple([1]*50)]
for dt in (0.01,1.0):
  for ratio in (0.2,0.5,1,2,5.9,6,10,20,100,1000,5000,1e4,2e4):
    for xi in (0,0.01,0.05,0.5,0.9,0.99,0.999):
      T=ratio*dt; w=2*np.pi/T
      for rec in recs:
        if len(rec)>10 and dt!=0.01: continue
        U,V,pu,pv=oracle2(rec,dt,T,xi)
        u,v,a=sdof.response_series(np.array(rec,float),dt,np.array([T]),xi)
        dur=(len(rec)-1)*dt; wdt=2*np.pi/ratio
        tol=1e-6+5e-8*dur/T+2.2e-16/wdt**3
        for name,got,ref,pc in (('u',u[0],U,pu),('v',v[0],V,pv)):
            ps=float(max(abs(x) for x in ref)); pc=float(pc)
            f=pc/ps if ps>0 else float('inf')
            b='<=1.01' if f<=1.01 else '1-3' if f<=3 else '3-10' if f<=10 else '10-100' if f<=100 else '>100'
            h[b]+=1
            err=float(max(abs(mp.mpf(float(g))-r) for g,r in zip(got,ref)))/pc
            k=(name,ratio,xi); r_=err/tol
            if r_>worst.get(k,(0,))[0]: worst[k]=(round(r_,3),err,len(rec),dt)
print(h)
for k,v in sorted(worst.items(), key=lambda kv:-kv[1][0])[:14]: print(k,v)
