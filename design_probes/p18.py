import numpy as np, itertools, warnings, collections, math
warnings.simplefilter('ignore')
import eqsig
from eqsig.fns import time_step as ts
from fractions import Fraction as F
bad=collections.Counter(); ex={}
dts=[0.005,0.01,0.02,0.025,0.03,0.04,0.05,0.07,0.1,0.2,0.25,0.3,0.5,1.0]
N_=0
for dt in dts:
  for tg in dts+[0.0123,0.0333333,0.29999999999999993,0.30000000000000004]:
    for L in (4,5,9,12,31):
      if (L-1)*dt < 2*max(dt,tg)-1e-12: continue
      for even in (True,False):
        N_+=1
        x=np.cos(np.arange(L)*1.3)*3
        v,ndt=ts.interp_array_to_approx_dt(x,dt,tg,even=even)
        k=('ref' if dt>tg else 'dec' if dt<tg else 'same')
        if ndt>tg*(1+1e-12): bad['exceeds_'+k]+=1; ex.setdefault('exceeds_'+k,(dt,tg,ndt))
        r=dt/ndt
        if abs(r-round(r))>1e-9 and abs(1/r-round(1/r))>1e-9: bad['ratio']+=1
        if v.min()<x.min()-1e-12 or v.max()>x.max()+1e-12: bad['range']+=1
        if even and len(v)%2: bad['even']+=1; ex.setdefault('even',(dt,tg,L,len(v)))
        d0=L*dt; d1=len(v)*ndt
        if abs(d1-d0)>=2*max(dt,ndt): bad['dur_'+k]+=1; ex.setdefault('dur_'+k,(dt,tg,L,even,len(v),ndt))
        if r>=1-1e-9:
            f=int(round(r)); 
            m=min(L,(len(v)+f-1)//f)
            if not np.array_equal(v[::f][:m],x[:m]): bad['retain']+=1; ex.setdefault('retain',(dt,tg,L,even))
        else:
            m=int(round(1/r))
            sub=x[::m][:len(v)]
            if len(sub)<len(v) or not np.allclose(v,sub,atol=1e-12): bad['subseq']+=1; ex.setdefault('subseq',(dt,tg,L,even,v,x))
print(N_,bad)
for k,v in ex.items(): print(k,v)
