import numpy as np, itertools, warnings, collections, math
warnings.simplefilter('ignore')
from eqsig import sdof
worst=collections.defaultdict(float)
recs=[np.array(r,float) for L in (2,3,4) for r in itertools.product((-1,0,1),repeat=L) if any(r)]
dt=0.01
for ratio in (0.2,1,5.9,6,20,100,1000,2e4):
  for xi in (0,0.05,0.5,0.99):
    T=ratio*dt; w=2*np.pi/T
    P=np.array([T,2*T,0.5*T])
    for a in recs:
        u,v,ac=sdof.response_series(a,dt,P,xi)
        n=len(a); dur=(n-1)*dt; amax=np.abs(a).max()
        su=max(np.abs(u[0]).max(), amax*min(1/w**2,dur**2/2)); sv=max(np.abs(v[0]).max(), amax*min(1/w,dur))
        # refinement
        for r in (2,3,8):
            t=np.arange((n-1)*r+1)/r
            ar=np.interp(t,np.arange(n),a)
            u2,v2,_=sdof.response_series(ar,dt/r,P,xi)
            e=max(np.abs(u2[0][::r]-u[0]).max()/su, np.abs(v2[0][::r]-v[0]).max()/sv)
            worst[('ref',ratio,xi)]=max(worst[('ref',ratio,xi)],e)
        # shift
        if a[0]==0:
            for k in (1,3):
                a2=np.concatenate([np.zeros(k),a]); u2,v2,_=sdof.response_series(a2,dt,P,xi)
                e=max(np.abs(u2[0][k:]-u[0]).max()/su, np.abs(v2[0][k:]-v[0]).max()/sv, np.abs(u2[0][:k]).max())
                worst[('shift',ratio,xi)]=max(worst[('shift',ratio,xi)],e)
        # causality
        for i in range(1,n):
            a2=a.copy(); a2[i:]=7.0
            u2,v2,_=sdof.response_series(a2,dt,P,xi)
            e=max(np.abs(u2[:,:i]-u[:,:i]).max(), np.abs(v2[:,:i]-v[:,:i]).max())
            worst[('causal',ratio,xi)]=max(worst[('causal',ratio,xi)],e)
        # period batching
        u1,v1,_=sdof.response_series(a,dt,np.array([T]),xi)
        u3,v3,_=sdof.response_series(a,dt,P[::-1],xi)
        e=max(np.abs(u1[0]-u[0]).max(),np.abs(u3[2]-u[0]).max(),np.abs(v3[2]-v[0]).max())
        worst[('batch',ratio,xi)]=max(worst[('batch',ratio,xi)],e)
        # linearity
        for b in recs[:10]:
            if len(b)!=n: continue
            u2,v2,_=sdof.response_series(b,dt,P,xi)
            u3,v3,_=sdof.response_series(2*a-3*b,dt,P,xi)
            e=np.abs(u3[0]-(2*u[0]-3*u2[0])).max()/max(su,np.abs(u2[0]).max())
            worst[('lin',ratio,xi)]=max(worst[('lin',ratio,xi)],e)
import collections as c2
m=c2.defaultdict(float)
for k,v in worst.items(): m[k[0]]=max(m[k[0]],v)
print(dict(m))
