import numpy as np, itertools, warnings, collections, math
warnings.simplefilter('ignore')
import eqsig
from eqsig import sdof
from fractions import Fraction as F
bad=collections.Counter(); ex={}; cls=collections.Counter()
def refine(a,f,tail):
    n=len(a); m=(n-1)*f+1+(f-1 if tail else 0)
    t=np.arange(m)/f
    return np.interp(t,np.arange(n),a)
N_=0
for L in (2,3,4):
  for x in itertools.product((-1,0,2),repeat=L):
    if not any(x): continue
    a=np.array(x,float)
    for dts in ('0.01','0.5','0.03'):
      dt=float(dts)
      for plist in ([1,3,10],[0,3,10],[10,40,100],[40,100],[0,100],[25,30]):
        rt=np.array(plist,float)*dt
        for mdr in (1,2,4,8):
          for xi in (0.05,):
            N_+=1
            s=eqsig.AccSignal(a,dt,response_times=rt)
            s.gen_response_spectrum(min_dt_ratio=mdr,xi=xi)
            tmin=F(str(plist[0] if plist[0]!=0 else plist[1]))*F(dts)
            target=max(tmin/20,F(dts)/mdr)
            if target<F(dts):
                fe=math.ceil(F(dts)/target)
                cands=[fe,fe+1]
            else: cands=[1]
            ok=False
            for f in cands:
                lo=sdof.pseudo_response_spectra(refine(a,f,False),dt/f,rt,xi)
                hi=sdof.pseudo_response_spectra(refine(a,f,True),dt/f,rt,xi)
                if all(np.all(s_>=l-1e-9*np.abs(h).max()-1e-15) and np.all(s_<=h+1e-9*np.abs(h).max()+1e-15) for s_,l,h in zip((s.s_d,s.s_v,s.s_a),lo,hi)):
                    ok=True; cls['f=%d%s'%(f,'' if f==cands[0] else '(+1)')]+=1
                    if np.allclose(s.s_d,hi[0],rtol=1e-9): cls['eq_tail']+=1
                    elif np.allclose(s.s_d,lo[0],rtol=1e-9): cls['eq_notail']+=1
                    else: cls['between']+=1
                    break
            if not ok: bad['e']+=1; ex.setdefault('e',(x,dts,plist,mdr,cands,s.s_d))
            raw=sdof.pseudo_response_spectra(a,dt,rt,xi)
            if np.any(s.s_d<raw[0]*(1-1e-9)-1e-15): bad['below_raw']+=1; ex.setdefault('below_raw',(x,dts,plist,mdr,s.s_d,raw[0]))
print(N_,bad,cls)
for k,v in ex.items(): print(k,v)
