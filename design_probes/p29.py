import numpy as np, itertools
def fixed(a,width):
    mot=a.copy(); out=a.copy()
    for i in range(len(mot)):
        if i < width / 2:
            cc = i + int(width / 2) + 1; out[i]=np.mean(mot[:cc])
        elif i > len(mot) - width / 2:
            cc = i - int(width / 2); out[i]=np.mean(mot[cc:])
        else:
            out[i]=np.mean(mot[i-int(width/2):i+int(width/2)+1])
    return out
bad=0
for L in range(1,8):
  for x in itertools.product((-1,0,2),repeat=L):
    a=np.array(x,float)
    for w in range(1,26):
        h=w//2
        want=[np.mean(a[max(0,i-h):i+h+1]) for i in range(L)]
        if not np.allclose(fixed(a,w),want): bad+=1
print(bad)
