import numpy as np, warnings, collections, copy
warnings.simplefilter('ignore')
import eqsig
from eqsig import sdof, im, surface, stockwell, displacements
from eqsig.fns import average, frequency, generic, peaks_and_crossings as pc, time_shift, time_step
P=np.array([0.05,0.3]); 
def A(a): return eqsig.AccSignal(a,0.1)
REG={
 'sdof.response_series':lambda a:sdof.response_series(a,0.1,P,0.05),
 'sdof.pseudo':lambda a:sdof.pseudo_response_spectra(a,0.1,P,0.05),
 'sdof.true':lambda a:sdof.true_response_spectra(a,0.1,P,0.05),
 'sdof.absmax':lambda a:sdof.absmax(a),
 'disp.trap':lambda a:displacements.calc_velo_and_disp_from_accel_arr(a,0.1),
 'disp.rect':lambda a:displacements.calc_velo_and_disp_from_accel_arr(a,0.1,trap=False),
 'im.sig_dur_vals':lambda a:im.calc_sig_dur_vals(a,0.1,0.05,0.95,se=True),
 'im.peak':lambda a:im.calc_peak(a),
 'im._raw_arias':lambda a:im._raw_calc_arias_intensity(a,0.1),
 'im.ncyc':lambda a:im.calc_n_cyc_array_w_power_law(a,1.0,0.3),
 'im.cycamp':lambda a:im.calc_cyc_amp_array_w_power_law(a,5,0.3),
 'im.cycamp_gm':lambda a:im.calc_cyc_amp_gm_arrays_w_power_law(a,a,5,0.3),
 'im.cycamp_comb':lambda a:im.calc_cyc_amp_combined_arrays_w_power_law(a,a,5,0.3),
 'pc.peaks':lambda a:pc.get_peak_array_indices(a),
 'pc.zc':lambda a:pc.get_zero_crossings_array_indices(a),
 'pc.zc_tol':lambda a:pc.get_zero_crossings_array_indices(a,tol=0.5),
 'pc.switched':lambda a:pc.get_switched_peak_array_indices(a),
 'pc.delta':lambda a:pc.determine_peaks_only_delta_series(a),
 'pc.pseudo':lambda a:pc.determine_pseudo_cyclic_peak_only_series(a),
 'pc.ncyc':lambda a:pc.get_n_cyc_array(a),
 'pc.clean':lambda a:pc.clean_out_non_changing(a),
 'pc.zero_and_peak':lambda a:pc.get_zero_and_peak_array_indices(a),
 'pc.major':lambda a:pc.get_major_change_indices(a),
 'avg.roll':lambda a:average.calc_roll_av_vals(a,3,'centre'),
 'avg.steperr':lambda a:average.calc_step_fn_vals_error(a),
 'avg.stepvals':lambda a:average.calc_step_fn_steps_vals(a),
 'gen.remove_poly':lambda a:generic.remove_poly(a,1),
 'gen.interp2d':lambda a:generic.interp2d(np.array([0.5,1.5]),np.arange(len(a),dtype=float),np.vstack([a,a]).T),
 'gen.interp_left':lambda a:generic.interp_left(np.array([0.5,1.5]),np.arange(len(a),dtype=float),a),
 'ts.put':lambda a:time_shift.put_array_in_2d_array(a,np.array([-1,0,2])),
 'ts.join':lambda a:time_shift.join_values_w_shifts(a,np.array([0,2])),
 'tstep.interp_up':lambda a:time_step.interp_array_to_approx_dt(a,0.1,0.03),
 'tstep.interp_dn':lambda a:time_step.interp_array_to_approx_dt(a,0.1,0.3),
 'fq.smooth':lambda a:frequency.calc_smooth_fa_spectrum(np.arange(len(a))*0.5,a,np.array([0.5,1.0])),
 'fq.fas2values':lambda a:frequency.fas2values(a.astype(complex),0.1),
 'st.transform':lambda a:stockwell.transform(a),
 'st.transform_scipy':lambda a:stockwell.transform_w_scipy_fft(a),
 'st.roundtrip':lambda a:stockwell.itransform(stockwell.transform(a)),
 'surf.trim':lambda a:surface.trim_to_length(np.vstack([a,a]),len(a),np.array([0.1,0.2]),0.1,trim=True,start=True),
 # object-taking
 'o.arias':lambda a:im.calc_arias_intensity(A(a)),
}
OBJ={
 'im.cav':im.calc_cav,'im.cav_dp':im.calc_cav_dp,'im.isv':im.calc_isv,'im.iav':im.calc_integral_of_abs_velocity,'im.iaa':im.calc_integral_of_abs_acceleration,
 'im.uke':im.calc_unit_kinetic_energy,'im.sig_dur':lambda s:im.calc_sig_dur(s,se=True),'im.brac':lambda s:im.calc_brac_dur(s,0.5,se=True),
 'im.maxfa':im.max_fa_period,'im.bw':im.calc_bandwidth_freqs,'im.asi':lambda s:im.calc_asi(s,periods=P),'im.vsi':lambda s:im.calc_vsi(s,periods=P),
 'sdof.ein':lambda s:sdof.calc_input_energy_spectrum(s,periods=P),'sdof.uke':lambda s:sdof.calc_resp_uke_spectrum(s,periods=P),
 'surf.energy':lambda s:surface.calc_surface_energy(s,np.array([0.05,0.13])),'surf.cum':lambda s:surface.calc_cum_abs_surface_energy(s,np.array([0.05,0.13]),trim=True,start=True,stt=0.2),
 'surf.tsm':lambda s:surface.get_time_shift_motions(s,np.array([0.05,0.13])),
 'fq.gen':frequency.generate_fa_spectrum,'fq.calc':frequency.calc_fa_spectrum,'fq.sigrange':frequency.get_sig_freq_range,
 'tstep.interp':lambda s:time_step.interp_to_approx_dt(s,0.03).values,'tstep.resamp':lambda s:time_step.resample_to_approx_dt(s,0.03).values,
 'ts.joinsig':lambda s:time_shift.join_sig_w_time_shift(s,np.array([0.1,0.2])),
 'st.maxfreq':stockwell.get_max_stockwell_freq,
 'mult.combine':lambda s:eqsig.combine_at_angle(s,s,30).values,'mult.rot':lambda s:eqsig.compute_rotated(s,s,parameter='pga',points=5),
 'avg.section':lambda s:average.get_section_average(s,0,0.3),
 'pc.peak_indices':pc.get_peak_indices,'pc.zc_indices':pc.get_zero_crossings_indices,'pc.switched_indices':pc.get_switched_peak_indices,
}
def eq(a,b):
    if isinstance(a,(tuple,list)): return len(a)==len(b) and all(eq(x,y) for x,y in zip(a,b))
    a=np.asarray(a);b=np.asarray(b)
    return a.shape==b.shape and (np.array_equal(a,b,equal_nan=True) if a.dtype.kind in 'fc' else np.array_equal(a,b))
res=collections.Counter()
for dtype in (float,int):
  for base in ([0,1,3,1,-2,-1,2,0,0,1,4,-3],[2,2,1,3,3,-1,-1,0,1,2,-2,1]):
    a=np.array(base,dtype)
    for n,f in REG.items():
        x=a.copy()
        try: r1=f(x)
        except Exception as e: res[(n,dtype.__name__,'exc',type(e).__name__)]+=1; continue
        if not (x.dtype==a.dtype and np.array_equal(x,a)): res[(n,dtype.__name__,'MUTATED')]+=1
        r2=f(x)
        if not eq(r1,r2): res[(n,dtype.__name__,'NONDET')]+=1
    for n,f in OBJ.items():
        s=eqsig.AccSignal(a,0.1); x0=s.values.copy()
        try: r1=f(s)
        except Exception as e: res[(n,dtype.__name__,'exc',type(e).__name__)]+=1; continue
        if not np.array_equal(s.values,x0): res[(n,dtype.__name__,'MUTATED')]+=1
        r2=f(s)
        if not eq(r1,r2): res[(n,dtype.__name__,'NONDET')]+=1
for k,v in sorted(res.items()): print(k,v)
