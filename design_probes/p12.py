import sys; sys.path.insert(0,'/tmp/probe/deps')
import numpy as np, itertools, warnings, time
import mpmath as mp
mp.mp.dps=40
warnings.simplefilter('ignore')
from eqsig import sdof
from orc import oracle
recs=[r for L in (2,3) for r in itertools.product((-1,0,1),repeat=L) if any(r)]
for ratio in (1000,2000,5000,1e4,1.5e4,2e4):
  for xi in (0,0.05,0.5,0.9,0.99,0.999):
    w_=0
    for dt in (0.005,0.01,0.02,1.0):
      T=ratio*dt
      for rec in recs:
        u,v,a=sdof.response_series(np.array(rec,float),dt,np.array([T]),xi)
        U,V=oracle(rec,dt,T,xi)
        dur=(len(rec)-1)*dt; w=2*np.pi/T; wdt=2*np.pi/ratio
        tol=1e-6+5e-8*dur/T+2.2e-16/wdt**3
        amax=max(abs(x) for x in rec)
        nat={'u':amax*min(1/w**2,dur**2/2),'v':amax*min(1/w,dur)}
        for name,got,ref in (('u',u[0],U),('v',v[0],V)):
            pk=max(float(max(abs(x) for x in ref)),nat[name])
            err=float(max(abs(mp.mpf(float(g))-r) for g,r in zip(got,ref)))/pk
            w_=max(w_,err/tol)
    print(ratio,xi,round(w_,3))
