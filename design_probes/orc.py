import sys; sys.path.insert(0,'/tmp/probe/deps')
import numpy as np, itertools, warnings, time
import mpmath as mp
mp.mp.dps=40
warnings.simplefilter('ignore')
from eqsig import sdof
def oracle(rec, dt, T, xi):
    w=2*mp.pi/mp.mpf(T); dtm=mp.mpf(dt); xi=mp.mpf(xi)
    wd=w*mp.sqrt(1-xi**2); e=mp.exp(-xi*w*dtm); c=mp.cos(wd*dtm); s_=mp.sin(wd*dtm)
    u=mp.mpf(0); v=mp.mpf(0); U=[u]; V=[v]
    a=[mp.mpf(float(x)) for x in rec]
    for i in range(len(a)-1):
        s=(a[i+1]-a[i])/dtm
        up0=a[i]/w**2-2*xi*s/w**3
        C1=u-up0; C2=(v-s/w**2+xi*w*C1)/wd
        u1=a[i+1]/w**2-2*xi*s/w**3+e*(C1*c+C2*s_)
        v1=s/w**2+e*((-xi*w*C1+wd*C2)*c+(-xi*w*C2-wd*C1)*s_)
        u,v=u1,v1; U.append(u); V.append(v)
    return U,V
