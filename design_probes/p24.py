import numpy as np, itertools, warnings, collections
warnings.simplefilter('ignore')
import eqsig
bad=collections.Counter(); ex={}
N_=0
def lagged(m,lag):
    # slave = master delayed by lag (lag>0: slave lags master), padded by edge value
    n=len(m)
    if lag>0: return np.concatenate([[m[0]]*lag, m[:n-lag]])
    if lag<0: return np.concatenate([m[-lag:], [m[-1]]*(-lag)])
    return m.copy()
for n in (10,12):
  for steps in (2,3,5):
    for seed in range(30):
        rng=np.random.RandomState(seed); m=rng.permutation(n).astype(float)
        for lag in range(-steps+1,steps):
          for mi in (0,1):
            for nsig in (2,3):
                N_+=1
                sl=lagged(m,lag)
                vals=[None]*nsig; vals[mi]=m
                others=[i for i in range(nsig) if i!=mi]
                for j,o in enumerate(others): vals[o]=lagged(m,lag if j==0 else -lag)
                c=eqsig.Cluster([v.copy() for v in vals],0.1,master_index=mi)
                try: r=c.time_match(steps=steps)
                except Exception as e: bad['exc']+=1; ex.setdefault('exc',(n,steps,lag,mi,nsig,repr(e))); continue
                for j,o in enumerate(others):
                    lg=lag if j==0 else -lag
                    v=c.values_by_index(o)
                    if not isinstance(v,np.ndarray): bad['notarray']+=1
                    v=np.asarray(v)
                    if len(v)!=n: bad['len']+=1
                    # overlap
                    if lg>=0: ok=np.array_equal(v[:n-lg],m[:n-lg])
                    else: ok=np.array_equal(v[-lg:],m[-lg:])
                    if not ok: bad['overlap']+=1; ex.setdefault('overlap',(n,steps,lg,mi,nsig,m,vals[o],v))
                if not np.array_equal(np.asarray(c.values_by_index(mi)),m): bad['master_changed']+=1
print(N_,bad)
for k,v in ex.items(): print(k,v)
