import numpy as np, itertools, warnings, collections, math
warnings.simplefilter('ignore')
import eqsig
from eqsig import im
from eqsig.fns import time_step as ts, time_shift as tsh, peaks_and_crossings as pc
from fractions import Fraction as F
bad=collections.Counter(); ex={}; cls=collections.Counter()
# C14 resample
for N in (8,9,12,16,20):
  for dt,tg in ((0.1,0.1),(0.1,0.05),(0.1,0.03),(0.1,0.025),(0.1,0.2),(0.1,0.3),(0.1,0.4),(0.02,0.05)):
    for even in (True,False):
      t=np.arange(N)*dt
      x0=np.cos(2*np.pi*t/(N*dt))
      try: r=ts.resample_to_approx_dt(eqsig.AccSignal(x0,dt),tg,even=even)
      except TypeError: cls['typeerr_even%s'%even]+=1; continue
      ndt=r.dt; M=r.npts
      if ndt>tg*(1+1e-12): bad['rs_exceeds']+=1
      tiles=abs(N*dt/ndt-round(N*dt/ndt))<1e-9 and round(N*dt/ndt)==M
      cls['tiles' if tiles else 'notiles']+=1
      if not tiles: continue
      nyq=M//2 if M%2==0 else (M+1)//2
      for k in range(0,min(N//2,nyq)):
        if k>=M/2 or k>=N/2: continue
        for ph in (0,1.0):
          x=np.cos(2*np.pi*k*t/(N*dt)+ph)
          r=ts.resample_to_approx_dt(eqsig.AccSignal(x,dt),tg,even=even)
          tt=np.arange(M)*ndt
          want=np.cos(2*np.pi*k*tt/(N*dt)+ph)
          if not np.allclose(r.values,want,atol=1e-9): bad['rs_repro']+=1; ex.setdefault('rs_repro',(N,dt,tg,even,k,ph,M,ndt))
          else: cls['repro_ok']+=1
# C19 helpers
for L in (2,3,4):
  for v in itertools.product((-1,0,2),repeat=L):
    a=np.array(v,float)
    for ns in (1,2,3):
      for sh in itertools.product(range(-2,3),repeat=ns):
        for clip in ('none','start','end','both'):
            out=tsh.put_array_in_2d_array(a,np.array(sh),clip=clip)
            se=-min(min(sh),0); ee=max(max(sh),0)
            lo=0 if clip in('start','both') else -se
            hi=L if clip in('end','both') else L+ee
            want=np.array([[ (a[c-s] if 0<=c-s<L else 0.0) for c in range(lo,hi)] for s in sh])
            if out.shape!=want.shape or not np.array_equal(out,want): bad['put_'+clip]+=1; ex.setdefault('put_'+clip,(v,sh,out,want))
        if min(sh)>=0:
            for jt,sg in (('add',1),('sub',-1)):
                out=tsh.join_values_w_shifts(a,np.array(sh),jtype=jt)
                W=L+max(sh)
                want=np.array([[ (a[c] if c<L else 0)+sg*(a[c-s] if 0<=c-s<L else 0.0) for c in range(W)] for s in sh])
                if out.shape!=want.shape or not np.array_equal(out,want): bad['join_'+jt]+=1; ex.setdefault('join_'+jt,(v,sh,out,want))
# C09 quadrature + relations
for L in range(2,6):
  for x in itertools.product(range(-2,3),repeat=L):
    for dts in ('0.01','0.5'):
      dt=float(dts); fdt=F(dts); a=np.array(x,float); s=eqsig.AccSignal(a,dt)
      V=[F(0)]
      for i in range(1,L): V.append(V[-1]+fdt*F(x[i]+x[i-1],2))
      def ctrap(y):
          o=[F(0)]
          for i in range(1,L): o.append(o[-1]+fdt*(y[i]+y[i-1])/2)
          return o
      checks={'arias':(im.calc_arias_intensity(s),[float(q)*math.pi/(2*9.81) for q in ctrap([F(q*q) for q in x])]),
              'cav':(im.calc_cav(s),[float(q) for q in ctrap([F(abs(q)) for q in x])]),
              'isv':(im.calc_isv(s),[float(q) for q in ctrap([q*q for q in V])]),
              'iaa':(im.calc_integral_of_abs_acceleration(s),[float(q) for q in itertools.accumulate(abs(F(q))*fdt for q in x)]),
              'iav':(im.calc_integral_of_abs_velocity(s),[float(q) for q in itertools.accumulate(abs(q)*fdt for q in V)])}
      ke=[V[i]*abs(V[i])/2 for i in range(L)]
      checks['uke']=(im.calc_unit_kinetic_energy(s),[float(q) for q in itertools.accumulate([abs(ke[0])]+[abs(ke[i]-ke[i-1]) for i in range(1,L)])])
      for k,(got,want) in checks.items():
          if len(got)!=L or not np.allclose(got,want,rtol=1e-12,atol=1e-15): bad['q_'+k]+=1; ex.setdefault('q_'+k,(x,dts,got,want))
          if np.any(np.diff(got)<0): bad['mono_'+k]+=1
      if x[-1]==0 and any(x):
          s2=eqsig.AccSignal(np.concatenate([a,np.zeros(3)]),dt)
          for k,fn in (('arias',im.calc_arias_intensity),('cav',im.calc_cav),('iaa',im.calc_integral_of_abs_acceleration)):
              g=fn(s2)
              if not (np.allclose(g[:L],fn(s),rtol=1e-13) and np.isclose(g[-1],fn(s)[-1],rtol=1e-13)): bad['pad_'+k]+=1
# C11 n_cyc
for L in range(2,7):
  for x in itertools.product(range(0,4),repeat=L):
    if len(set(x))==1: continue
    a=np.array(x,float)
    pk=pc.get_peak_array_indices(a)
    for start,first in (('origin',0.25),('peak',0.5)):
        n=pc.get_n_cyc_array(a,start=start)
        if len(n)!=L or np.any(np.diff(n)<-1e-15): bad['ncyc_len_mono']+=1
        want=[0.0]+[first+0.5*i for i in range(len(pk)-1)]
        if not np.allclose(n[pk],want): bad['ncyc_vals']+=1; ex.setdefault('ncyc_vals',(x,pk,n,want))
print(bad,cls)
for k,v in ex.items(): print(k,v)
