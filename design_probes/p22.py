import numpy as np, itertools, warnings, collections
warnings.simplefilter('ignore')
import eqsig
from eqsig import sdof
neg=collections.Counter(); tot=collections.Counter()
exs=collections.defaultdict(list)
for L in (2,3,4,5,6):
  for r in itertools.product((-1,0,1),repeat=L):
    if not any(r): continue
    a=np.array(r,float); s=eqsig.AccSignal(a,0.01)
    for ratio in (2,6,20,100,1000):
      for xi in (0,0.05,0.5):
        e=sdof.calc_input_energy_spectrum(s,periods=np.array([ratio*0.01]),xi=xi)[0]
        # trapezoid variant
        u,v,_=sdof.response_series(a,0.01,np.array([ratio*0.01]),xi)
        et=np.trapz(a*v[0],dx=0.01) if hasattr(np,'trapz') else np.trapezoid(a*v[0],dx=0.01)
        tot[(L,ratio)]+=1
        if e<-1e-15:
            neg[(L,ratio)]+=1
            if len(exs[(L,ratio)])<2: exs[(L,ratio)].append((r,xi,e,et))
for k in sorted(tot): print(k,neg[k],'/',tot[k],exs.get(k,''))
