import numpy as np, itertools, warnings, collections, copy, time
warnings.simplefilter('ignore')
import eqsig
N=64; DT=0.01
base=np.sin(np.arange(N)*0.37)+0.3*np.cos(np.arange(N)*1.1)+0.05*np.arange(N)/N
RT0=np.array([0.05,0.2,1.0]); RT1=np.array([0.1,0.5])
SF0=np.array([1.0,3.0,10.0]); SF1=np.array([0.5,2.0,8.0,20.0])
def fresh(obj):
    if isinstance(obj,eqsig.AccSignal):
        return eqsig.AccSignal(np.array(obj.values),obj.dt,smooth_fa_freqs=np.array(obj.smooth_fa_freqs),response_times=np.array(obj.response_times))
    return eqsig.Signal(np.array(obj.values),obj.dt,smooth_fa_freqs=np.array(obj.smooth_fa_freqs))
READS_S=['npts','time','fa_spectrum','fa_freqs','smooth_fa_spectrum','smooth_fa_freqs']
READS_A=READS_S+['velocity','displacement','pga','pgv','pgd','s_a','s_v','s_d']
ser=np.linspace(-1,1,N)**2
other=eqsig.Signal(np.cos(np.arange(N)*0.9),DT)
MUT_S={
 'reset_values':lambda s:s.reset_values(np.array(s.values)[::-1]*1.5+0.1),
 'add_constant':lambda s:s.add_constant(0.7),
 'add_series':lambda s:s.add_series(ser),
 'add_signal':lambda s:s.add_signal(other),
 'butter_pass':lambda s:s.butter_pass((2.0,20.0),filter_order=2),
 'remove_average':lambda s:s.remove_average(section=10),
 'remove_poly':lambda s:s.remove_poly(2),
 'running_average':lambda s:s.running_average(5),
}
MUT_A=dict(MUT_S, **{
 'remove_rolling_average_v':lambda s:s.remove_rolling_average('velocity',freq_window=10),
 'remove_rolling_average_a':lambda s:s.remove_rolling_average('acc',freq_window=10),
 'rebase_displacement':lambda s:s.rebase_displacement(),
 'correct_me':lambda s:s.correct_me(),
 'set_zero_residual_velocity':lambda s:s.set_zero_residual_velocity(),
 'set_zero_residual_displacement':lambda s:s.set_zero_residual_displacement(),
 'set_zero_rdv':lambda s:s.set_zero_residual_displacement_and_velocity(),
})
def toggle_sf(s):
    s.smooth_fa_freqs = SF1 if len(s.smooth_fa_freqs)==len(SF0) else SF0
def toggle_rt_attr(s):
    s.response_times = RT1 if len(s.response_times)==len(RT0) else RT0
def toggle_rt_gen(s):
    s.gen_response_spectrum(response_times= RT1 if len(s.response_times)==len(RT0) else RT0)
def toggle_rt_series(s):
    s.response_series(response_times= RT1 if len(s.response_times)==len(RT0) else RT0)
SET_S={'set_smooth_fa_freqs':toggle_sf,
       'set_smooth_by_range':lambda s:s.set_smooth_fa_frequecies_by_range((0.5,20.0) if s.smooth_fa_freqs[0]!=0.5 else (1.0,10.0),5),
       'gen_smooth_w_freqs':lambda s:s.gen_smooth_fa_spectrum(smooth_fa_freqs=SF1 if len(s.smooth_fa_freqs)==len(SF0) else SF0)}
SET_A=dict(SET_S, **{'set_rt_attr':toggle_rt_attr,'set_rt_gen':toggle_rt_gen,'set_rt_series':toggle_rt_series})
def akey(s):
    k=[type(s).__name__, s._cached_fa, s._cached_smooth_fa, len(s.smooth_fa_freqs)]
    if isinstance(s,eqsig.AccSignal):
        k+=[s._cached_response_spectra,s._cached_disp_and_velo,tuple(sorted(s._cached_params)),len(s.response_times)]
    return tuple(k)
def same(a,b):
    a=np.asarray(a);b=np.asarray(b)
    return a.shape==b.shape and np.allclose(a,b,rtol=1e-9,atol=1e-12)
def check(s):
    f=fresh(s); reads=READS_A if isinstance(s,eqsig.AccSignal) else READS_S
    stale=[]
    for r in reads:
        c=copy.deepcopy(s)
        try: got=getattr(c,r)
        except Exception as e: stale.append((r,'exc '+repr(e))); continue
        if not same(got,getattr(f,r)): stale.append((r,'stale'))
        else:
            if not same(getattr(c,r),got): stale.append((r,'nonidem'))
    return stale
for cls in (eqsig.Signal,eqsig.AccSignal):
    init = cls(base,DT,smooth_fa_freqs=SF0) if cls is eqsig.Signal else cls(base,DT,smooth_fa_freqs=SF0,response_times=RT0)
    reads=READS_A if cls is eqsig.AccSignal else READS_S
    ops={}
    for r in reads: ops['read:'+r]=(lambda s,r=r:getattr(s,r))
    for k,f in (MUT_A if cls is eqsig.AccSignal else MUT_S).items(): ops['mut:'+k]=f
    for k,f in (SET_A if cls is eqsig.AccSignal else SET_S).items(): ops['set:'+k]=f
    seen={akey(init):(init,[])}; frontier=collections.deque([akey(init)]); trans=0; viol=collections.Counter(); vex={}
    t0=time.time()
    while frontier:
        k=frontier.popleft(); s,hist=seen[k]
        for name,op in ops.items():
            c=copy.deepcopy(s)
            try: op(c)
            except Exception as e:
                viol['exc:'+name]+=1; vex.setdefault('exc:'+name,(hist,repr(e))); continue
            trans+=1
            st=check(c)
            for r,why in st:
                viol[(name,r,why)]+=1; vex.setdefault((name,r,why),hist+[name])
            k2=akey(c)
            if k2 not in seen: seen[k2]=(c,hist+[name]); frontier.append(k2)
    print(cls.__name__,'states',len(seen),'trans',trans,'maxdepth',max(len(h) for _,h in seen.values()),'time',round(time.time()-t0,1))
    for k,v in sorted(viol.items(),key=str): print('  ',k,v,vex[k])
