import numpy as np, itertools, warnings, collections
warnings.simplefilter('ignore')
import eqsig
from eqsig import im, exceptions
from eqsig import displacements as dp
from eqsig.fns import generic
from fractions import Fraction as F
bad=collections.Counter(); ex={}
N_=0
# C08
for L in range(2,6):
  for x in itertools.product(range(-2,3),repeat=L):
    for dts in ('0.01','0.5','1'):
      dt=float(dts); fdt=F(dts)
      a=np.array(x,float)
      for trap in (True,False):
        N_+=1
        v,d=dp.calc_velo_and_disp_from_accel_arr(a,dt,trap=trap)
        V=[F(0)];D=[F(0)]
        for i in range(1,L):
            V.append(V[-1]+(fdt*F(x[i]+x[i-1],2) if trap else fdt*x[i-1]))
        for i in range(1,L):
            D.append(D[-1]+(fdt*(V[i]+V[i-1])/2 if trap else fdt*V[i]))
        if len(v)!=L or len(d)!=L: bad['len']+=1
        if not np.allclose(v,[float(q) for q in V],rtol=1e-12,atol=1e-15): bad['v_%s'%trap]+=1; ex.setdefault('v_%s'%trap,(x,dt,v,V))
        if not np.allclose(d,[float(q) for q in D],rtol=1e-12,atol=1e-15): bad['d_%s'%trap]+=1; ex.setdefault('d_%s'%trap,(x,dt,d,D))
      if any(x):
        s=eqsig.AccSignal(a,dt)
        if not np.isclose(s.pga,max(abs(q) for q in x)): bad['pga']+=1
        if not np.isclose(s.pgv,np.abs(s.velocity).max()) or not np.isclose(s.pgd,np.abs(s.displacement).max()): bad['pgvd']+=1
        s2=eqsig.AccSignal(-3*a,dt)
        if not (np.isclose(s2.pga,3*s.pga) and np.isclose(s2.pgv,3*s.pgv) and np.isclose(s2.pgd,3*s.pgd)): bad['scale']+=1
# C17 rest
for L in range(3,8):
  for x in itertools.product((-1,0,2),repeat=L):
    a=np.array(x,float)
    for k in range(0,min(5,L-1)):
        N_+=1
        s=eqsig.Signal(a,0.1); s.remove_poly(k); r=s.values
        t=np.linspace(0,1,L)
        # residual orthogonal to polys <=k
        if np.abs(np.polyfit(t,r,k)).max()>1e-8: bad['poly_resid']+=1; ex.setdefault('poly_resid',(x,k,np.polyfit(t,r,k)))
        # subtracted is a poly of deg<=k : fit degree k to (a-r) exactly
        sub=a-r; c=np.polyfit(t,sub,k)
        if np.abs(np.polyval(c,t)-sub).max()>1e-8: bad['poly_sub']+=1
        s.remove_poly(k)
        if np.abs(s.values-r).max()>1e-8: bad['poly_idem']+=1
        s3=eqsig.Signal(a+np.polyval(np.arange(1,k+2,dtype=float),t),0.1); s3.remove_poly(k)
        if np.abs(s3.values-r).max()>1e-7: bad['poly_inv']+=1; ex.setdefault('poly_inv',(x,k,s3.values,r))
        if np.abs(generic.remove_poly(a,k)-r).max()>1e-10: bad['poly_arr']+=1
    for w in range(1,8):
        N_+=1
        s=eqsig.Signal(a,0.1); s.running_average(w)
        h=w//2
        want=[np.mean(a[max(0,i-h):i+h+1]) for i in range(L)]
        if not np.allclose(s.values,want): bad['runav_w%d'%w]+=1; ex.setdefault('runav_w%d'%w,(x,s.values,want))
    s=eqsig.Signal(a,0.1); s.add_constant(1.5)
    if not np.array_equal(s.values,a+1.5): bad['addc']+=1
    s.add_series(list(range(L)))
    if not np.array_equal(s.values,a+1.5+np.arange(L)): bad['adds']+=1
    s.add_signal(eqsig.Signal(a,0.1))
    if not np.array_equal(s.values,2*a+1.5+np.arange(L)): bad['addsig']+=1
    for badcall in (lambda:s.add_series(np.zeros(L+1)),lambda:s.add_signal(eqsig.Signal(a,0.2)),lambda:s.add_signal(eqsig.Signal(np.zeros(L+1),0.1)),lambda:s.add_signal(a)):
        try: badcall(); bad['noreject']+=1
        except exceptions.SignalProcessingError: pass
        except Exception as e: bad['reject_other_'+type(e).__name__]+=1
# C18 rotation
for L in (2,3):
  for x in itertools.product((-1,0,2),repeat=L):
    for y in itertools.product((-1,0,2),repeat=L):
        if not any(x) and not any(y): continue
        ns=eqsig.AccSignal(np.array(x,float),0.1); we=eqsig.AccSignal(np.array(y,float),0.1)
        for th in (0,30,90,135,180,210,-45,360):
            N_+=1
            c=eqsig.combine_at_angle(ns,we,th).values
            want=np.array(x)*np.cos(np.radians(th))+np.array(y)*np.sin(np.radians(th))
            if not np.allclose(c,want,atol=1e-12): bad['comb']+=1
            c2=eqsig.combine_at_angle(ns,we,th+180).values
            if not np.allclose(c2,-c,atol=1e-12): bad['comb180']+=1
        for off in (0,30,200):
          for pts in (3,7):
            for par,fn in (('pga',None),('arias_intensity',None),(None,im.calc_cav),(None,lambda s:s.pgv)):
                deg,pv=eqsig.compute_rotated(ns,we,angle_off_ns=off,parameter=par,func=fn,points=pts)
                if len(deg)!=pts: bad['rot_pts']+=1
                if not np.allclose(np.mod(deg+off,360),np.mod(np.linspace(0,180,pts),360),atol=1e-9): bad['rot_deg']+=1; ex.setdefault('rot_deg',(off,pts,deg))
                for d_,p_ in zip(deg,pv):
                    sgl=eqsig.combine_at_angle(ns,we,d_)
                    w_= sgl.pga if par=='pga' else im.calc_arias_intensity(sgl)[-1] if par else (fn(sgl)[-1] if hasattr(fn(sgl),'__len__') else fn(sgl))
                    if not np.isclose(p_,w_,rtol=1e-12,atol=1e-15): bad['rot_val']+=1
print(N_,bad)
for k,v in ex.items(): print(k,v)
