import numpy as np, itertools, warnings, collections, math
warnings.simplefilter('ignore')
import eqsig
from eqsig.fns import frequency as fq
bad=collections.Counter(); ex={}
def ko_w(f,fc,b):
    if f==fc: return 1.0
    x=b*math.log10(f/fc)
    if x==0: return 1.0
    return (math.sin(x)/x)**4
N_=0
for nb in (2,4,8):
  dt=0.01; N=2*nb
  freqs=np.arange(nb)/(N*dt)
  for amps in itertools.product((0,1,3),repeat=nb):
    amps=np.array(amps,float)
    for zero in (True,False):
      ff=freqs if zero else freqs[1:]; aa=amps if zero else amps[1:]
      if len(ff[ff>0])==0: continue
      for targets in (None, ff[ff>0], np.array([0.3,1.0,7.7,30.0]), np.array([ff[-1],ff[-1]*1.5,1e-3,1e3])):
        for b in (5,20,40,100):
            N_+=1
            sm=fq.calc_smooth_fa_spectrum(ff,aa,targets,band=b)
            fpos=ff[ff>0]; apos=aa[ff>0]
            tg=fpos if targets is None else targets
            W=np.array([[ko_w(f,fc,b) for fc in tg] for f in fpos]); Wn=W/W.sum(axis=0)
            ref=(apos[:,None]*Wn).sum(axis=0)
            if not np.all(np.isfinite(sm)): bad['nonfinite']+=1; ex.setdefault('nonfinite',(ff,aa,tg,b,sm)); continue
            if not np.allclose(sm,ref,rtol=1e-10,atol=1e-12): bad['def']+=1; ex.setdefault('def',(ff,aa,tg,b,sm,ref))
            if np.any(sm<apos.min()-1e-12) or np.any(sm>apos.max()+1e-12): bad['range']+=1
            M=fq.calc_smoothing_matrix_konno_1998(ff,targets,band=b)
            if np.any(M<0) or not np.allclose(M.sum(axis=0),1): bad['mat']+=1
            if not np.allclose(apos@M,sm,rtol=1e-10,atol=1e-12): bad['matform']+=1
print(N_,bad)
for k,v in ex.items(): print(k,v)
