import numpy as np, itertools, warnings, collections
warnings.simplefilter('ignore')
from eqsig.fns import peaks_and_crossings as pc
bad=collections.Counter(); ex={}
N=0
for L in range(2,8):
    for x in itertools.product(range(0,4),repeat=L):
        if len(set(x))==1: continue
        N+=1
        for dtype in (float,int):
            xa=np.array(x,dtype)
            x0=xa.copy()
            try:
                d=pc.determine_peaks_only_delta_series(xa)
                p=pc.determine_pseudo_cyclic_peak_only_series(xa)
            except Exception as e:
                bad['exc_%s_%s'%(dtype.__name__,type(e).__name__)]+=1; ex.setdefault('exc'+dtype.__name__,(x,repr(e))); continue
            if not np.array_equal(xa,x0): bad['mutated']+=1
            tv=sum(abs(b-a) for a,b in zip(x,x[1:]))
            pk=set(int(i) for i in pc.get_peak_array_indices(xa))
            k='_'+dtype.__name__
            if any(d[i]!=0 for i in range(L) if i not in pk): bad['d_nonpeak'+k]+=1; ex.setdefault('d_nonpeak'+k,(x,d))
            if abs(np.sum(np.abs(d))-tv)>1e-9: bad['d_tv'+k]+=1; ex.setdefault('d_tv'+k,(x,d,tv))
            if abs(abs(np.sum(d))-abs(x[-1]-x[0]))>1e-9: bad['d_signed'+k]+=1; ex.setdefault('d_signed'+k,(x,d))
            # final movement direction
            diffs=[b-a for a,b in zip(x,x[1:]) if b!=a]
            fin=np.sign(diffs[-1])
            first=np.sign(diffs[0])
            want=0.5*tv+0.5*(x[-1]-x[0])*fin
            if abs(np.sum(p)-want)>1e-9:
                bad['p_sum'+k]+=1; ex.setdefault('p_sum'+k,(x,p,want,np.sum(p)))
            d2=pc.determine_peaks_only_delta_series(xa+5); p2=pc.determine_pseudo_cyclic_peak_only_series(xa+5)
            if not np.allclose(d,d2) or not np.allclose(p,p2): bad['shift'+k]+=1
print(N,bad)
for k,v in ex.items(): print(k,v)
