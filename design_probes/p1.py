import numpy as np, eqsig
from eqsig import sdof
# sign convention: constant a=1, long T? static response u -> a/w^2
a=np.ones(2000); dt=0.01; T=0.5; xi=0.3
u,v,acc=sdof.response_series(a,dt,np.array([T]),xi)
w=2*np.pi/T
print("u_end*w^2 =",u[0,-1]*w**2)
# T=0 branch
u,v,acc=sdof.response_series(np.array([1.,2.,-3.]),dt,np.array([0,T]),xi)
print(u[0],v[0],acc[0])
# energy
class S: pass
for rec in ([1,-0.5],[1,-0.5,0,0,0,0],[0,1,0],[1,1,1,1,-1,-1]):
    s=eqsig.AccSignal(np.array(rec,float),0.01)
    print(rec, sdof.calc_input_energy_spectrum(s,periods=np.array([0.02,0.1,1.0]),xi=0.05))
