import sys; sys.path.insert(0,'/tmp/probe/deps')
import numpy as np, itertools, warnings, time
import mpmath as mp
mp.mp.dps=40
warnings.simplefilter('ignore')
from eqsig import sdof
def oracle(rec, dt, T, xi):
    w=2*mp.pi/mp.mpf(T); dtm=mp.mpf(dt); xi=mp.mpf(xi)
    wd=w*mp.sqrt(1-xi**2); e=mp.exp(-xi*w*dtm); c=mp.cos(wd*dtm); s_=mp.sin(wd*dtm)
    u=mp.mpf(0); v=mp.mpf(0); U=[u]; V=[v]
    a=[mp.mpf(float(x)) for x in rec]
    for i in range(len(a)-1):
        s=(a[i+1]-a[i])/dtm
        up0=a[i]/w**2-2*xi*s/w**3
        C1=u-up0; C2=(v-s/w**2+xi*w*C1)/wd
        u1=a[i+1]/w**2-2*xi*s/w**3+e*(C1*c+C2*s_)
        v1=s/w**2+e*((-xi*w*C1+wd*C2)*c+(-xi*w*C2-wd*C1)*s_)
        u,v=u1,v1; U.append(u); V.append(v)
    return U,V
if __name__!="__main__": raise ImportError("stop")
worst={}
t0=time.time()
recs=[r for L in (2,3,5) for r in itertools.product((-1,0,1),repeat=L) if any(r)]
recs+= [tuple([0,1]+[0]*n) for n in (50,500,3000)]
recs+= [tuple([1]*n) for n in (50,3000)]
for dt in (0.005,0.01,1.0):
  for ratio in (0.2,0.5,1,2,5.9,6,10,20,100,1000,2e4):
    T=ratio*dt
    for xi in (0,0.01,0.05,0.5,0.9,0.99,0.999):
      for rec in recs:
        if len(rec)>10 and dt!=0.01: continue
        u,v,a=sdof.response_series(np.array(rec,float),dt,np.array([T]),xi)
        U,V=oracle(rec,dt,T,xi)
        dur=(len(rec)-1)*dt
        wdt=2*np.pi/ratio
        tol=1e-6+5e-8*dur/T+2.2e-16/wdt**3
        for name,got,ref in (('u',u[0],U),('v',v[0],V)):
            pk=max(abs(x) for x in ref)
            if pk==0: continue
            err=max(abs(mp.mpf(float(g))-r) for g,r in zip(got,ref))/pk
            k=(name,ratio,xi)
            r_=float(err/tol)
            if r_>worst.get(k,(0,))[0]: worst[k]=(r_,float(err),tol,len(rec),dt)
        # third series identity
        w=2*np.pi/T
        ref3=[-(2*xi*w*V[i]+w**2*U[i]) for i in range(len(rec))]
        pk=max(abs(x) for x in ref3)
        if pk>0:
            err=max(abs(mp.mpf(float(g))-r) for g,r in zip(a[0],ref3))/pk
            k=('a',ratio,xi); r_=float(err/tol)
            if r_>worst.get(k,(0,))[0]: worst[k]=(r_,float(err),tol,len(rec),dt)
print(time.time()-t0)
for k,v in sorted(worst.items(), key=lambda kv:-kv[1][0])[:25]: print(k,v)
