import numpy as np, itertools, warnings, collections
warnings.simplefilter('ignore')
import eqsig
from eqsig import surface as sf
def ref_energy(a, dt, tt, nodal, up, down, total_len):
    n=len(a); sh=2*tt/dt
    def wave(j):  # linear interpolation of record at index j (float), 0 outside
        if j<0 or j>n-1: return 0.0
        i=int(np.floor(j)); fr=j-i
        if i==n-1: return a[i]
        return a[i]*(1-fr)+a[i+1]*fr
    acc=[]
    for j in range(total_len):
        upw=(a[j] if j<n else 0.0)*up
        dn=wave(j-sh)*down
        acc.append(upw-dn if nodal else upw+dn)
    v=[0.0]
    for j in range(1,total_len): v.append(v[-1]+dt*(acc[j]+acc[j-1])/2)
    return np.array([0.5*x*abs(x) for x in v])
bad=collections.Counter(); ex={}
N=0
dt=0.5
tts=[0.0,0.25,0.3,0.5,0.75,1.1]
for L in (2,3,4,5):
  for x in itertools.product((-1,0,2),repeat=L):
    if not any(x): continue
    a=np.array(x,float); s=eqsig.AccSignal(a,dt)
    for nodal in (True,False):
      for up,down in ((1.0,1.0),(0.8,0.5)):
        full=sf.calc_surface_energy(s,np.array(tts),nodal=nodal,up_red=up,down_red=down)
        for i,tt in enumerate(tts):
            N+=1
            single=sf.calc_surface_energy(s,tt,nodal=nodal,up_red=up,down_red=down)
            r=ref_energy(a,dt,tt,nodal,up,down,len(single))
            if len(single)!=L+int(2*tt/dt): bad['len']+=1
            if not np.allclose(single,r,atol=1e-12): bad['def']+=1; ex.setdefault('def',(x,tt,nodal,single,r))
            if not np.allclose(full[i][:len(single)],single,atol=1e-12): bad['row']+=1
            for trim,start in ((True,False),(False,True),(True,True)):
              for stt in (0.0,0.5,1.2):
                try:
                    b=sf.calc_surface_energy(s,np.array(tts),nodal=nodal,up_red=up,down_red=down,trim=trim,start=start,stt=stt)
                    o=sf.calc_surface_energy(s,tt,nodal=nodal,up_red=up,down_red=down,trim=trim,start=start,stt=stt)
                except Exception as e:
                    bad['exc']+=1; ex.setdefault('exc',(x,tt,trim,start,stt,repr(e))); continue
                if trim and len(o)!=L: bad['trimlen']+=1
                m=min(len(o),b.shape[1])
                if not np.allclose(b[i][:m],o[:m],atol=1e-12): bad['row_%s_%s'%(trim,start)]+=1; ex.setdefault('row_%s_%s'%(trim,start),(x,tt,stt,b[i],o))
            c=sf.calc_cum_abs_surface_energy(s,tt,nodal=nodal,up_red=up,down_red=down)
            if np.any(np.diff(c)<0): bad['mono']+=1
            if tt==0 and nodal and up==down and c[-1]!=0: bad['zero']+=1
print(N,bad)
for k,v in ex.items(): print(k,v)
