import numpy as np, itertools, warnings, collections
warnings.simplefilter('ignore')
import eqsig
from eqsig import im
bad=collections.Counter(); ex={}
N=0
for L in range(2,7):
    for x in itertools.product(range(-3,4),repeat=L):
        if len(set(x))==1: continue
        if L==6 and x[0] not in (0,1): continue
        N+=1
        xa=np.array(x,float)
        for b in (0.1,0.34,1.0):
          for cut in (0.0,0.1):
            for a_ref in (0.5,2.0):
                n=im.calc_n_cyc_array_w_power_law(xa,a_ref,b,cut_off=cut)
                if len(n)!=L: bad['nlen']+=1
                if np.any(np.diff(n)<0): bad['nmono']+=1
                if not np.all(np.isfinite(n)): bad['nfinite']+=1; ex.setdefault('nfinite',(x,b,cut,a_ref,n))
                if n[-1]>0 and np.isfinite(n[-1]):
                    a=im.calc_cyc_amp_array_w_power_law(xa,n[-1],b)
                    if len(a)!=L: bad['alen']+=1
                    if np.any(np.diff(a)<-1e-15): bad['amono']+=1
                    if cut==0 and abs(a[-1]-a_ref)>1e-9*a_ref: bad['inv']+=1; ex.setdefault('inv',(x,b,cut,a_ref,n[-1],a[-1]))
                    if cut>0 and abs(a[-1]-a_ref)>1e-9*a_ref: bad['inv_cut']+=1; ex.setdefault('inv_cut',(x,b,cut,a_ref,n[-1],a[-1]))
                n2=im.calc_n_cyc_array_w_power_law(3*xa,3*a_ref,b,cut_off=cut)
                if not np.allclose(n,n2,rtol=1e-9,atol=0): bad['nscale']+=1; ex.setdefault('nscale',(x,b,cut,a_ref,n,n2))
            a1=im.calc_cyc_amp_array_w_power_law(xa,7.5,b)
            a3=im.calc_cyc_amp_array_w_power_law(3*xa,7.5,b)
            if not np.allclose(3*a1,a3,rtol=1e-9,atol=0): bad['ascale']+=1
            c=im.calc_cyc_amp_combined_arrays_w_power_law(xa,xa,7.5,b)
            g=im.calc_cyc_amp_gm_arrays_w_power_law(xa,xa,7.5,b)
            if not np.allclose(c,2**b*a1,rtol=1e-9,atol=0): bad['comb']+=1; ex.setdefault('comb',(x,b,c,a1))
            if not np.allclose(g,a1,rtol=1e-12,atol=0): bad['gm']+=1
        ab=im.calc_cyc_amp_array_w_power_law(xa,7.5,np.array([0.1,0.34]))
        if ab.shape!=(L,2): bad['abshape']+=1
print(N,bad)
for k,v in ex.items(): print(k,v)
