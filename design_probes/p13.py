import numpy as np, itertools, warnings, collections
warnings.simplefilter('ignore')
import eqsig
from eqsig import im
from fractions import Fraction as F
g=9.81
levels=[0.0,0.02*g,-0.03*g,0.05*g]
bad=collections.Counter(); ex={}
N=0
for dt,secs in ((0.5,(2,3,4)),(0.25,(2,)),(0.2,(2,)),(1.0,(2,3,4,5))):
  pps=int(round(1/dt))
  for sec in secs:
    for extra in (0,1):   # extra samples beyond integer seconds
      n=sec*pps+1+extra
      if len(levels)**n>300000: continue
      for x in itertools.product(range(4),repeat=n):
        N+=1
        a=np.array([levels[i] for i in x])
        s=eqsig.AccSignal(a,dt)
        try: c=im.calc_cav_dp(s)
        except Exception as e: bad['exc_'+type(e).__name__]+=1; ex.setdefault('exc',(dt,x,repr(e))); continue
        cav=im.calc_cav(s)
        if len(c)!=n: bad['len']+=1
        if np.any(np.diff(c)<0): bad['mono']+=1
        if c.min()<0 or c[-1]>cav[-1]/g*(1+1e-12): bad['range']+=1; ex.setdefault('range',(dt,x,c[-1],cav[-1]/g))
        tot=int(s.time[-1]+1e-9)
        lo=0;hi=0;anyq=False
        for wdw in range(tot):
            seg=np.abs(a[wdw*pps:(wdw+1)*pps+1])/g
            if seg.max()>=0.025:
                anyq=True
                full=np.sum((seg[1:]+seg[:-1])/2)*dt
                lastpanel=(seg[-1]+seg[-2])/2*dt
                hi+=full; lo+=full-lastpanel
        if not anyq and c[-1]!=0: bad['zero']+=1
        if not (lo-1e-12<=c[-1]<=hi+1e-12): bad['def']+=1; ex.setdefault('def',(dt,x,c[-1],lo,hi))
print(N,bad)
for k,v in ex.items(): print(k,v)
