import numpy as np, itertools, warnings, collections
warnings.simplefilter('ignore')
import eqsig
from eqsig.fns import generic, average
from eqsig import design_spectra as ds
bad=collections.Counter(); ex={}
def lin(x,xf,col):
    if x<=xf[0]: return col[0]
    if x>=xf[-1]: return col[-1]
    for i in range(len(xf)-1):
        if xf[i]<=x<=xf[i+1]:
            t=(x-xf[i])/(xf[i+1]-xf[i]); return col[i]*(1-t)+col[i+1]*t
N_=0
for nodes in ([0,1,2,3],[0,0.5,3,3.1],[-2,1],[1.5],[0,1,10,11,100]):
    xf=np.array(nodes,float)
    qs=sorted(set(list(xf)+[xf[0]-1,xf[-1]+1]+[ (a+b)/2 for a,b in zip(xf,xf[1:])]+[a*0.75+b*0.25 for a,b in zip(xf,xf[1:])]+[a*0.49+b*0.51 for a,b in zip(xf,xf[1:])]))
    for cols in itertools.product((-1,0,4),repeat=len(xf)):
        f=np.array([[c,2*c+1] for c in cols],float)
        x=np.array(qs)
        N_+=1
        try: got=generic.interp2d(x,xf,f)
        except Exception as e: bad['i2d_exc']+=1; ex.setdefault('i2d_exc',(nodes,repr(e))); continue
        want=np.array([[lin(q,xf,f[:,0]),lin(q,xf,f[:,1])] for q in qs])
        if not np.allclose(got,want,atol=1e-12): bad['i2d']+=1; ex.setdefault('i2d',(nodes,cols,got[:,0],want[:,0]))
        xq=[q for q in qs if q>=xf[0]]
        gl=generic.interp_left(np.array(xq),xf,f[:,0]); wl=[f[max(i for i in range(len(xf)) if xf[i]<=q),0] for q in xq]
        if not np.array_equal(gl,wl): bad['ileft']+=1
        if generic.interp_left(xq[0],xf,f[:,0])!=wl[0]: bad['ileft_scalar']+=1
for L in range(1,7):
    for v in itertools.product((-2,0,1,3),repeat=L):
        a=np.array(v,float)
        for steps in range(1,L+1):
            for mode in ('forward','backward','centre'):
                N_+=1
                got=average.calc_roll_av_vals(a,steps,mode)
                s=steps//2; e=steps-s-1
                want=[]
                for i in range(L):
                    if mode=='forward': idx=range(i,i+steps)
                    elif mode=='backward': idx=range(i-steps+1,i+1)
                    else: idx=range(i-s,i+e+1)
                    want.append(np.mean([a[min(max(j,0),L-1)] for j in idx]))
                if len(got)!=L or not np.allclose(got,want,atol=1e-12): bad['roll_'+mode]+=1; ex.setdefault('roll_'+mode,(v,steps,got,want))
        if L>=3:
            for p in (1,2):
                got=average.calc_step_fn_vals_error(a,pow=p)
                want=[]
                for i in range(L):
                    pre=a[:i+1]; post=a[i+1:]
                    e_=np.sum(np.abs(pre-pre.mean())**p)+(np.sum(np.abs(post-post.mean())**p) if len(post) else 0)
                    want.append(e_)
                if not np.allclose(got,want,atol=1e-12):
                    k='step_p%d_%s'%(p,'neg' if min(v)<0 else 'nonneg'); bad[k]+=1; ex.setdefault(k,(v,got,want))
            for ind in range(1,L-1):
                pre,post=average.calc_step_fn_steps_vals(a,ind)
                if not (np.isclose(pre,a[:ind].mean()) and np.isclose(post,a[ind+1:].mean())): bad['stepvals']+=1
# design spectra
g=9.81
for sc in 'CDE':
    Ts=sorted(set([0.0,1e-9,0.05,0.1-1e-12,0.1,0.1+1e-12,0.2,0.3-1e-12,0.3,0.3+1e-12,0.56-1e-12,0.56,0.56+1e-12,0.8,1.0-1e-12,1.0,1.0+1e-12,1.5-1e-12,1.5,1.5+1e-12,2.0,3.0-1e-12,3.0,3.0+1e-12,4.5,10.0]))
    ch=ds.c_h_factor(np.array(Ts),sc)
    for T,c in zip(Ts,ch):
        for Z,R,Nf in ((0.4,1.0,1.0),(0.13,1.8,1.2)):
            N_+=1
            sd=ds.sd_nzs(T,sc,Z,R,Nf)
            if not np.isclose(sd,c*T**2*Z*Nf*R,rtol=1e-12,atol=1e-15): bad['sd_vs_ch']+=1; ex.setdefault('sd_vs_ch',(sc,T,sd,c*T**2*Z*Nf*R))
            if not np.isclose(ds.c_h_factor(float(T),sc),c): bad['scalar']+=1
    for Tb in (0.1,0.3,0.56,1.0,1.5,3.0):
        lo=ds.c_h_factor(Tb-1e-9,sc); hi=ds.c_h_factor(Tb+1e-9,sc)
        if abs(lo-hi)>0.005*max(lo,hi)+1e-9: bad['discont']+=1; ex.setdefault('discont'+sc+str(Tb),(lo,hi))
    for Z,R,Nf in ((0.4,1.0,1.0),(0.13,1.8,1.2)):
        dc=ds.sd_nzs(3.0,sc,Z,R,Nf)*g/(2*np.pi)**2
        for fr_ in (0.0,0.25,0.5,1.0-1e-9):
            t=ds.t_eff(dc*fr_,sc,Z,R,Nf)
            if not np.isclose(t,3.0*fr_): bad['teff']+=1; ex.setdefault('teff',(sc,fr_,t))
        try: ds.t_eff(dc*1.01,sc,Z,R,Nf); bad['teff_noraise']+=1
        except ValueError: pass
print(N_,bad)
for k,v in ex.items(): print(k,v)
