import numpy as np, warnings
warnings.simplefilter('ignore')
import eqsig
def gain2(f, dt, order, lo, hi):
    # squared digital butterworth magnitude (bilinear transform with prewarp), own derivation
    t=np.tan(np.pi*f*dt)
    if lo is not None and hi is not None:
        t1=np.tan(np.pi*lo*dt); t2=np.tan(np.pi*hi*dt)
        x=(t*t-t1*t2)/(t*(t2-t1))
    elif lo is None:
        x=t/np.tan(np.pi*hi*dt)
    else:
        x=np.tan(np.pi*lo*dt)/t
    return 1.0/(1.0+x**(2*order))
N=4096; dt=0.01
worst=0
for cut in ((1.0,10.0),(None,10.0),(2.0,None),(0.5,2.0),[1.0,10.0]):
  for order in (1,2,3,4):
    for gib in (None,'start','end','mid'):
      for k in (20,41,82,164,328,410,655,1000,1500):
        f=k/(N*dt)
        for ph in (0.0,1.0):
            t=np.arange(N)*dt
            x=np.sin(2*np.pi*f*t+ph)
            s=eqsig.Signal(x,dt)
            s.butter_pass(cut,filter_order=order,remove_gibbs=gib)
            g=gain2(f,dt,order,cut[0],cut[1])**1  # filtfilt -> |H|^2
            mid=slice(N//3,2*N//3)
            err=np.max(np.abs(s.values[mid]-g*x[mid]))
            if err>worst: worst=err; print(cut,order,gib,k,round(f,3),g,err)
print('worst',worst)
