import sys; sys.path.insert(0,'/tmp/probe/deps')
import mpmath as mp
mp.mp.dps=40
def oracle2(rec, dt, T, xi, sub=8):
    """exact u,v at sample instants + continuous-time peaks (sub points per step)"""
    w=2*mp.pi/mp.mpf(T); dtm=mp.mpf(dt); xi=mp.mpf(xi)
    wd=w*mp.sqrt(1-xi**2)
    taus=[dtm*j/sub for j in range(1,sub+1)]
    E=[mp.exp(-xi*w*t) for t in taus]; C=[mp.cos(wd*t) for t in taus]; S=[mp.sin(wd*t) for t in taus]
    u=mp.mpf(0); v=mp.mpf(0); U=[u]; V=[v]; pu=mp.mpf(0); pv=mp.mpf(0)
    a=[mp.mpf(float(x)) for x in rec]
    for i in range(len(a)-1):
        s=(a[i+1]-a[i])/dtm
        up0=a[i]/w**2-2*xi*s/w**3
        C1=u-up0; C2=(v-s/w**2+xi*w*C1)/wd
        for t,e,c,s_ in zip(taus,E,C,S):
            u1=(a[i]+s*t)/w**2-2*xi*s/w**3+e*(C1*c+C2*s_)
            v1=s/w**2+e*((-xi*w*C1+wd*C2)*c+(-xi*w*C2-wd*C1)*s_)
            pu=max(pu,abs(u1)); pv=max(pv,abs(v1))
        u,v=u1,v1; U.append(u); V.append(v)
    return U,V,pu,pv
