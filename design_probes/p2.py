import numpy as np, eqsig, warnings, tempfile, os
warnings.simplefilter('ignore')
from eqsig.fns import peaks_and_crossings as pc
print("C11 flat start max:", pc.get_peak_array_indices([0,0,1,0],'max'), pc.get_peak_array_indices([0,0,1,0],'min'), pc.get_peak_array_indices([0,0,1,0]))
print("C11 nonzero start:", pc.get_peak_array_indices([1,2,1]), pc.get_peak_array_indices([1,1,2,1]), pc.get_peak_array_indices([2,1,1,2,2]))
print("C11 const:", end=' ')
try: print(pc.get_peak_array_indices([1,1,1]))
except Exception as e: print(repr(e))
print("C12 switched:", pc.get_switched_peak_array_indices(np.array([3.,1,-1,-2,1])), pc.get_switched_peak_array_indices(np.array([0,1.,3,1,-1,-2,1])))
print("C12 switched nonzero-first:", pc.get_switched_peak_array_indices(np.array([5.,1,2,-1])))
print("C12 zc:", pc.get_zero_crossings_array_indices([1,-1,0,0,2]), pc.get_zero_crossings_array_indices([1,-1,0,0,2],keep_adj_zeros=True))
# C16
d=tempfile.mkdtemp()
for dt in (0.01,0.5,1.0,1.5,12.25,100.0,0.0001):
    s=eqsig.AccSignal(np.array([1.5,-2.25,0,1e6]),dt,label='my label')
    f=os.path.join(d,'a.txt'); eqsig.save_signal(f,s)
    try:
        v,dt2=eqsig.load_values_and_dt(f); print(dt,'->',dt2,v)
    except Exception as e: print(dt,'ERR',repr(e))
s=eqsig.AccSignal(np.array([1.5]),0.01); eqsig.save_signal(f,s)
try:
    print(eqsig.load_values_and_dt(f)); print(eqsig.load_asig(f).values)
except Exception as e: print('len1 ERR',repr(e))
print(open(f).read())
s=eqsig.AccSignal(np.array([1.5,2]),0.01); eqsig.save_signal(f,s)
print("load_signal default:", eqsig.load_signal(f))
# C17
s=eqsig.Signal(np.sin(np.arange(200)*0.1),0.01)
try: s.butter_pass(np.array([1.,10.])); print("array cutoff ok")
except Exception as e: print("array cutoff:",repr(e))
s=eqsig.Signal(np.array([0.,0,0,9,0,0,0,0]),1.0); s.running_average(3); print("runav:", s.values)
# C18
c=eqsig.Cluster([np.arange(10.)+1, np.arange(10.)+5, np.arange(10.)+9],1.0, master_index=0)
c.same_start(start=0,end=3); print([c.values_by_index(i)[:3] for i in range(3)])
c=eqsig.Cluster([np.arange(10.)+1, np.arange(10.)+5],1.0, master_index=1)
c.same_start(start=0,end=3); print([c.values_by_index(i)[:3] for i in range(2)])
# C20
from eqsig.fns.average import calc_step_fn_vals_error
print(calc_step_fn_vals_error([-1.,-1,-1,-3,-3],pow=1), calc_step_fn_vals_error([1.,1,1,3,3],pow=1))
# C06
a=eqsig.AccSignal(np.sin(2*np.pi*np.arange(64)*5/64+2.0),0.01)
print("max_fa_period", eqsig.im.max_fa_period(a), 1/a.fa_freqs[np.argmax(abs(a.fa_spectrum))])
# C03 list periods
try: print(eqsig.sdof.true_response_spectra(np.array([0.,1,0,0]),0.01,[0.1,0.2],0.05))
except Exception as e: print("true rs list:",repr(e))
