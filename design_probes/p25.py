import numpy as np, warnings, inspect, collections
warnings.simplefilter('ignore')
import eqsig
from eqsig import sdof, im, surface, stockwell, displacements, design_spectra, loader, multiple
from eqsig.fns import average, frequency, generic, peaks_and_crossings, time_shift, time_step
mods=[sdof,im,surface,stockwell,displacements,design_spectra,loader,multiple,average,frequency,generic,peaks_and_crossings,time_shift,time_step]
for m in mods:
    names=[n for n,f in inspect.getmembers(m,inspect.isfunction) if f.__module__==m.__name__]
    print(m.__name__.split('.')[-1],':',', '.join(f"{n}{inspect.signature(getattr(m,n))}" for n in names))
