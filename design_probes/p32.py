import sys; sys.path.insert(0,'/tmp/probe/deps')
import numpy as np, itertools, warnings, collections
import mpmath as mp
mp.mp.dps=40
from orc import oracle
h=collections.Counter()
worst=[]
recs=[r for L in (2,3,4) for r in itertools.product((-1,0,1),repeat=L) if any(r)]
dt=0.01
for ratio in (0.2,0.5,1,2,5.9,6,10,20,100,1000,5000,2e4):
  for xi in (0,0.05,0.5,0.99):
    T=ratio*dt; w=2*np.pi/T
    for rec in recs:
        U,V=oracle(rec,dt,T,xi)
        dur=(len(rec)-1)*dt; amax=1.0
        for name,ref,nat in (('u',U,amax*min(1/w**2,dur**2/2)),('v',V,amax*min(1/w,dur))):
            pk=float(max(abs(x) for x in ref))
            f=nat/pk if pk>0 else float('inf')
            b='<=1' if f<=1 else '1-3' if f<=3 else '3-10' if f<=10 else '10-100' if f<=100 else '>100'
            h[b]+=1
            if f>10: worst.append((f,name,ratio,xi,rec))
print(h)
worst.sort(key=lambda t:t[0])
for w_ in worst[:12]: print(w_)
print(len(worst))
import collections as c
print(c.Counter((w_[2]) for w_ in worst))
