"""Engine S - explicit-state search over sequences of real public method calls.

Two modes (reported separately by the callers):

* closure(): breadth-first search, states deduplicated on a canonical abstract key, run until
  no new key appears (histories of unbounded length modulo the abstraction).  The invariant is
  evaluated on the concrete representative after EVERY transition, before deduplication.
* exact(): every operation sequence up to a depth bound from the initial object, no merging;
  shared prefixes are executed once (depth-first with deep copies).

A state in which the invariant fails is reported with the history that reached it and is not
expanded further (every successor would inherit the same defect).  An operation that raises is
still an operation of the history: the invariant is evaluated on the object it leaves behind.
"""
import collections
import copy


def apply(op, obj):
    """returns (new_obj, exc_or_None); obj itself is never touched"""
    c = copy.deepcopy(obj)
    try:
        op(c)
        return c, None
    except Exception as e:  # noqa
        return c, e


def closure(init, ops, key_fn, invariant, on_transition=None, max_states=20000):
    """ops: ordered dict name -> callable(obj).  invariant(obj, history) -> list of problems.
    Returns dict(states, transitions, max_depth, violations=[(history, problem)], closed)."""
    k0 = key_fn(init)
    seen = {k0: (init, [])}
    frontier = collections.deque([k0])
    trans = 0
    viol = []
    maxd = 0
    while frontier:
        k = frontier.popleft()
        obj, hist = seen[k]
        for name, op in ops.items():
            c, exc = apply(op, obj)
            trans += 1
            h2 = hist + [name]
            if on_transition is not None:
                on_transition(obj, name, c, exc)
            probs = invariant(c, h2)
            if probs:
                for p in probs:
                    viol.append((h2, p))
                continue   # do not expand below a violating state
            k2 = key_fn(c)
            if k2 not in seen:
                if len(seen) >= max_states:
                    return {'states': len(seen), 'transitions': trans, 'max_depth': maxd, 'violations': viol, 'closed': False}
                seen[k2] = (c, h2)
                maxd = max(maxd, len(h2))
                frontier.append(k2)
    return {'states': len(seen), 'transitions': trans, 'max_depth': maxd, 'violations': viol, 'closed': True}


def exact(init, ops, depth, invariant, first=None, allow=None, on_transition=None):
    """All sequences of length <= depth (optionally only those starting with op `first`;
    `allow(history, name)` may restrict which op may extend a history - used for the
    read->change->read triples).  Returns dict(states, transitions, violations)."""
    trans = 0
    states = 0
    viol = []

    def rec(obj, hist):
        nonlocal trans, states
        if len(hist) >= depth:
            return
        for name, op in ops.items():
            if not hist and first is not None and name != first:
                continue
            if allow is not None and not allow(hist, name):
                continue
            c, exc = apply(op, obj)
            trans += 1
            states += 1
            h2 = hist + [name]
            if on_transition is not None:
                on_transition(obj, name, c, exc)
            probs = invariant(c, h2)
            if probs:
                for p in probs:
                    viol.append((h2, p))
                continue
            rec(c, h2)

    rec(init, [])
    return {'states': states, 'transitions': trans, 'violations': viol}
