"""Imports eqsig from the working tree under test and refuses anything else.

EQSIG_SRC (default /repo) is put first on sys.path by ./mc; here we verify that the
module that actually got imported lives under it, so a check can never silently verify an
installed copy instead of the current sources.
"""
import os
import sys
import warnings

warnings.simplefilter('ignore')

SRC = os.path.realpath(os.environ.get('EQSIG_SRC', '/repo'))
if SRC not in [os.path.realpath(p) for p in sys.path if p]:
    sys.path.insert(0, SRC)

import numpy as np  # noqa: E402

np.seterr(all='ignore')

import eqsig  # noqa: E402

_f = os.path.realpath(eqsig.__file__)
if not _f.startswith(SRC + os.sep):
    sys.stderr.write('mcheck: eqsig imported from %s, not from EQSIG_SRC=%s\n' % (_f, SRC))
    sys.exit(2)

from eqsig import sdof, im, surface, stockwell, displacements, loader, multiple, design_spectra  # noqa: E402,F401
from eqsig.fns import average, frequency, generic, peaks_and_crossings, time_shift, time_step  # noqa: E402,F401
from eqsig import exceptions as eq_exceptions  # noqa: E402,F401
