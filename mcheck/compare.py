"""Total comparison helpers.

Every helper returns a verdict instead of raising: a result of the wrong type, shape or
length is a *mismatch* of the sub-claim being compared, never an exception inside the
harness (a mutant that changes an output length must be reported, not crash the check).
"""
import itertools
from fractions import Fraction

import numpy as np


def to_array(x):
    """Best-effort conversion to a float/complex ndarray; None if impossible."""
    try:
        if isinstance(x, (list, tuple)) and len(x) and isinstance(x[0], Fraction):
            x = [float(v) for v in x]
        a = np.asarray(x)
        if a.dtype == object:
            a = np.array([[float(w) for w in v] if hasattr(v, '__len__') else float(v) for v in x], dtype=float)
        if a.dtype.kind in 'biu':
            a = a.astype(float)
        if a.dtype.kind not in 'fc':
            return None
        return a
    except Exception:
        return None


def close(got, want, rtol=1e-9, atol=0.0, scale=None):
    """(ok, err, why).  |got-want| <= atol + rtol*scale elementwise; scale defaults to
    max|want| (so the tolerance is relative to the series peak, robust for entries that
    are exactly zero).  Shape mismatch / non-finite / non-numeric -> not ok."""
    g = to_array(got)
    w = to_array(want)
    if g is None or w is None:
        return False, float('inf'), 'non-numeric result %r' % (type(got).__name__,)
    if g.shape != w.shape:
        return False, float('inf'), 'shape %s != expected %s' % (g.shape, w.shape)
    if g.size == 0:
        return True, 0.0, ''
    if not np.all(np.isfinite(g)):
        if np.all(np.isfinite(w)):
            return False, float('inf'), 'non-finite value in result'
        if not np.array_equal(np.isfinite(g), np.isfinite(w)):
            return False, float('inf'), 'non-finite pattern differs'
        m = np.isfinite(w)
        if not np.array_equal(g[~m], w[~m], equal_nan=True):
            return False, float('inf'), 'non-finite values differ'
        g = g[m]
        w = w[m]
        if g.size == 0:
            return True, 0.0, ''
    if scale is None:
        scale = float(np.max(np.abs(w))) if w.size else 0.0
    d = float(np.max(np.abs(g - w)))
    tol = atol + rtol * scale
    if d <= tol:
        return True, (d / tol if tol > 0 else 0.0), ''
    return False, (d / tol if tol > 0 else float('inf')), 'max abs diff %.3e > tol %.3e' % (d, tol)


def same_ints(got, want):
    """Exact comparison of index lists. (ok, why)"""
    try:
        g = [int(v) for v in np.asarray(got).ravel().tolist()]
        if np.asarray(got).dtype.kind == 'f' and not np.all(np.asarray(got) == np.floor(np.asarray(got))):
            return False, 'non-integer indices %r' % (np.asarray(got).tolist(),)
    except Exception:
        return False, 'non-index result %r' % (got,)
    w = [int(v) for v in want]
    if g == w:
        return True, ''
    return False, 'got %r expected %r' % (g, w)


def bits_equal(a, b):
    """Bit-for-bit equality of two arrays / nested tuples (NaN == NaN)."""
    if isinstance(a, (tuple, list)) or isinstance(b, (tuple, list)):
        if not isinstance(a, (tuple, list)) or not isinstance(b, (tuple, list)) or len(a) != len(b):
            return False
        return all(bits_equal(x, y) for x, y in zip(a, b))
    if a is None or b is None:
        return a is b
    if hasattr(a, 'values') and hasattr(a, 'dt') and hasattr(b, 'values'):
        return bits_equal(a.values, b.values) and a.dt == b.dt
    try:
        x = np.asarray(a)
        y = np.asarray(b)
    except Exception:
        return a == b
    if x.shape != y.shape or x.dtype != y.dtype:
        return False
    if x.dtype.kind in 'fc':
        return bool(np.array_equal(x, y, equal_nan=True))
    if x.dtype == object:
        try:
            return bool(np.all(x == y))
        except Exception:
            return False
    return bool(np.array_equal(x, y))


def snapshot(a):
    """Byte snapshot of an argument container (ndarray or python list)."""
    if isinstance(a, np.ndarray):
        return ('nd', a.dtype.str, a.shape, a.tobytes())
    if isinstance(a, (list, tuple)):
        return ('py', type(a).__name__, repr(a))
    return ('other', repr(a))


def words(alphabet, lmin, lmax, nonconstant=False, nonzero=False):
    """All words over `alphabet` with lmin <= len <= lmax in canonical (length, lexicographic)
    order.  nonconstant drops words with a single distinct value; nonzero drops all-zero words."""
    for n in range(lmin, lmax + 1):
        for w in itertools.product(alphabet, repeat=n):
            if nonconstant and len(set(w)) == 1:
                continue
            if nonzero and not any(w):
                continue
            yield w


def frac(x):
    """Exact rational of a decimal literal given as str/float/int (float via its repr, so
    0.01 means 1/100 as the caller wrote it — used for dt menus)."""
    if isinstance(x, Fraction):
        return x
    if isinstance(x, int):
        return Fraction(x)
    return Fraction(repr(float(x))) if not isinstance(x, str) else Fraction(x)


def fexact(x):
    """Exact rational value of the binary float x."""
    return Fraction(float(x))


def jsonable(x):
    if isinstance(x, dict):
        return {str(k): jsonable(v) for k, v in x.items()}
    if isinstance(x, (list, tuple)):
        return [jsonable(v) for v in x]
    if isinstance(x, np.ndarray):
        if x.dtype.kind == 'c':
            return [[float(v.real), float(v.imag)] for v in x.ravel().tolist()]
        return jsonable(x.tolist())
    if isinstance(x, (np.integer,)):
        return int(x)
    if isinstance(x, (np.floating,)):
        return float(x)
    if isinstance(x, (np.bool_,)):
        return bool(x)
    if isinstance(x, Fraction):
        return float(x)
    if isinstance(x, complex):
        return [x.real, x.imag]
    if isinstance(x, float):
        if x != x or x in (float('inf'), float('-inf')):
            return repr(x)
        return x
    if isinstance(x, (int, str, bool)) or x is None:
        return x
    return repr(x)


def short(x, n=300):
    s = repr(jsonable(x))
    return s if len(s) <= n else s[:n] + '...'
