"""Known-findings file: parsing and matching.

/verif/known_findings.txt is committed and never written at run time.  Lines:

  open: property=<id> finding=<slug> keys=<relative path> :: <what fails>
  fixed: property=<id> <commit> <what failed>

An *open* finding is identified by the explicit list of enumerated case keys that fail on the
pinned tree (one key per line in the keys file, optionally followed by a TAB and the recorded
error in units of the tolerance).  A violation is suppressed only if its key is listed and,
for tolerance findings, its error is at most 4x the recorded one.  `fixed:` lines suppress
nothing.
"""
import os

HERE = os.path.dirname(os.path.dirname(os.path.abspath(__file__)))
FILE = os.path.join(HERE, 'known_findings.txt')


class Finding(object):
    def __init__(self, pid, slug, keys_path, text):
        self.pid = pid
        self.slug = slug
        self.text = text
        self.keys = {}
        p = os.path.join(HERE, keys_path)
        with open(p) as f:
            for line in f:
                line = line.rstrip('\n')
                if not line or line.startswith('#'):
                    continue
                if '\t' in line:
                    k, e = line.rsplit('\t', 1)
                    self.keys[k] = float(e)
                else:
                    self.keys[line] = None
        self.matched = 0

    def matches(self, v):
        k = v['key']
        if k not in self.keys:
            return False
        rec = self.keys[k]
        if rec is None:
            return True
        err = v.get('err')
        if err is None:
            return True
        return err <= 4.0 * rec


def load(pid):
    out = []
    fixed = []
    if not os.path.exists(FILE):
        return out, fixed
    with open(FILE) as f:
        for line in f:
            line = line.strip()
            if not line or line.startswith('#'):
                continue
            if line.startswith('open:'):
                head, _, text = line[5:].partition('::')
                kv = dict(tok.split('=', 1) for tok in head.split() if '=' in tok)
                if kv.get('property') != pid:
                    continue
                out.append(Finding(pid, kv['finding'], kv['keys'], text.strip()))
            elif line.startswith('fixed:'):
                if ('property=%s ' % pid) in line:
                    fixed.append(line)
    return out, fixed
