"""C15 - Stockwell transform: definition, Fourier marginal, exact inverse, dominant frequency.

Engine T x G.  Two families of records are enumerated exhaustively:

* 'word' cases: every word over {-1,0,2} of length 4..L (odd and even lengths).  The real
  code (transform, transform_w_scipy_fft, itransform) runs on float64 / int64 / list
  containers and is compared, cell by cell, with a triple-loop evaluation of the discrete
  S-transform written from Stockwell's frequency-domain definition
        S[j,k] = sum_m H[(m+k) mod N] * exp(-2 pi^2 ms^2 / k^2) * exp(2 pi i m j / N),
  H the normalised DFT (explicit double loop), ms the signed frequency index, k = 1..N/2.
  Linearity is checked on all unordered pairs of words of the short lengths and on a partner
  menu for the longer ones.
* 'sin' cases: every on-grid sinusoid sin(2 pi k0 t/N + phase), 2 <= k0 <= 0.75 N/2, for every
  n on the length menu; same sub-claims plus the dominant-frequency trace for both dt.

* 'long' cases: one deterministic mixed record (non-zero mean and Nyquist component) for every length of a
  ladder up to the LARGEST length of the quantifier (powers of two +-1, the lengths just above 1000, 1023, 1024),
  and sinusoid cases with the smallest / largest k0 at the top lengths (matrix form of the reference).

Containers: float64, int64, int16 and uint8 with large steps, list, tuple, and the float64 record scaled by
1e-9 / 1e+6 (the transform is linear: the expectation scales with the values passed).
Extreme but representable scales (the statement does not restrict the scale of the record): the float64 record x
1e-170, 1e-120, 1e-50, 1e+40, 1e+120, 1e+160 (beyond the single-precision range on both sides, and where squares of the
values under- / overflow) for every word up to the extreme-scale length bound and every sinusoid record: definition,
marginal, inverse, and the dominant-frequency trace at array level (on the transform of EVERY container) and at
object level (fresh objects of both classes).
What an object-level call leaves on the object: after every get_max_stockwell_freq(asig) the transform held by the
object (asig.swtf, and any other public complex (n/2) x n array the call put there) must be THE Stockwell transform
of the record held - same definition, marginal and inverse (itransform of it) sub-claims and the same tolerances as for
the array-level result; an object that keeps no transform is accepted.  Checked on word, long and sinusoid records,
on fresh objects (all amplitudes) and at every step of the history sequence.
Call sequences: the same call repeated after the caller overwrote the returned array; A, partners, A again;
the object-level dominant-frequency trace on objects with a history (another record of another length held and
traced before, reset_values, the transform restored on the object by the caller as the library's own tests do,
the returned trace overwritten by the caller, deprecated statistics methods called in between).

The reference shares nothing with eqsig's formulation (no FFT, no Toeplitz matrix): scalar
sums for N <= 128, and for the long lengths the same sum written as one
matrix product (witnessed against the scalar loops on every sinusoid record with n <= 64).
"""
import cmath
import math

import numpy as np

from ..target import eqsig, stockwell
from ..result import Res
from ..compare import words, snapshot, close, to_array

SIGMA = (-1, 0, 2)
PHASES = (0, 0.5, 1, 2)
DTS = (0.01, 0.5)
COEFS = ((1, 1), (2, -3))
CASE_TIMEOUT = 300

IMPLS = (('transform', 'transform'), ('scipy', 'transform_w_scipy_fft'))
LONG_QUICK = (65, 127, 128, 129, 255, 256, 257, 511, 512, 513, 1001, 1002, 1003, 1023, 1024)
LONG_THOROUGH = LONG_QUICK + (100, 200, 300, 400, 500, 600, 700, 800, 900, 1000, 1004, 1021, 1022)
CONTAINERS = ['float64', 'int64', 'int16 x15000', 'uint8 x125 (words without -1)', 'list', 'tuple', 'float64 x1e-9', 'float64 x1e+6']
AMPS = (1.0, 1e-9, 1e6)
EXTREME_AMPS = (1e-170, 1e-120, 1e-50, 1e40, 1e120, 1e160)
LEXT = 6                         # extreme-scale containers: every word up to this length (+ every sinusoid record)
EXTRA_DTS = (1e-6, 40.0)         # fresh-object trace only
CLASSES = ('Signal', 'AccSignal')


def k0_range(n):
    return [k0 for k0 in range(2, n // 2 + 1) if k0 <= 0.75 * n / 2]


def build(tier, seed):
    quick = tier == 'quick'
    lw = 8 if quick else 10
    lpair = 5 if quick else 6
    sin_small = list(range(8, 65))
    sin_loop_extra = [] if quick else [96, 128]
    sin_matrix = [] if quick else [256, 512, 1024]
    long_n = LONG_QUICK if quick else LONG_THOROUGH
    top_n = [1003, 1024]
    cases = []
    for w in words(SIGMA, 4, lw):
        cases.append({'kind': 'word', 'w': list(w), 'pairs': 'all' if len(w) <= lpair else 'menu'})
    for n in sin_small + sin_loop_extra:
        for k0 in k0_range(n):
            cases.append({'kind': 'sin', 'n': n, 'k0': k0, 'phases': list(PHASES), 'ref': 'loop', 'amps': 'full'})
    for n in sin_matrix:
        for k0 in k0_range(n):
            for ph in PHASES:
                cases.append({'kind': 'sin', 'n': n, 'k0': k0, 'phases': [ph], 'ref': 'matrix', 'amps': 'unit'})
    # the expensive cases (matrix-form reference) are spread over the front of the list, one per pool chunk
    heavy = [{'kind': 'long', 'n': n} for n in reversed(long_n)]
    for n in top_n:
        for k0 in (k0_range(n)[0], k0_range(n)[-1]):
            heavy.append({'kind': 'sin', 'n': n, 'k0': k0, 'phases': [0.5], 'ref': 'matrix', 'amps': 'full'})
    for i, c in enumerate(heavy):
        cases.insert(min(len(cases), 3 + 70 * i), c)
    return {
        'cases': cases,
        'rule': 'word family: all words over {-1,0,2} of length 4..%d (one pool case per word) x {transform, '
                'transform_w_scipy_fft} x {float64, int64, list}; linearity on all unordered pairs of words of equal '
                'length <= %d and on a 2-partner menu above, coefficients %s; sinusoid family: every n in %s, every k0 '
                'with 2 <= k0 <= 0.75*n/2, phases %s, dt in %s (reference: scalar triple loop for n <= 128, matrix '
                'form of the same sum above) + k0 in {min, max}, phase 0.5 at n in %s; long family: one mixed record for every n '
                'in %s (matrix form); containers %s; trace on {Signal, AccSignal} objects: fresh, amplitudes %s, and the history '
                'sequence of the module docstring; extreme scales %s: float64 containers for every word of length <= %d and every '
                'sinusoid record with n <= 128 or n in %s (definition, marginal, inverse, array-level trace on every container, '
                'object-level trace on fresh objects); after every object-level call the transform left on the object '
                '(asig.swtf) against the same reference (word, long and sinusoid records, every history step); '
                'non-trivial = even truncation of the record is not constant'
                % (lw, lpair, list(COEFS), '8..64' + ('' if quick else ' + [96,128,256,512,1024]'),
                   list(PHASES), list(DTS), top_n, list(long_n), CONTAINERS, list(AMPS), list(EXTREME_AMPS), LEXT, top_n),
        'bounds': {'alphabet': SIGMA, 'word_len': [4, lw], 'all_pairs_up_to_len': lpair,
                   'sin_n': [8, 64] if quick else [8, 64, 96, 128, 256, 512, 1024], 'phases': PHASES, 'dt': DTS, 'extra_dt_fresh_trace': EXTRA_DTS,
                   'k0': '2 <= k0 <= 0.75*n/2', 'middle_half': 'N/4 <= j < 3N/4', 'long_n': list(long_n),
                   'top_sinusoid_n': top_n, 'containers': CONTAINERS, 'amplitudes': list(AMPS),
                   'extreme_amplitudes': list(EXTREME_AMPS), 'extreme_scale_word_len': [4, LEXT],
                   'object_classes': list(CLASSES),
                   'tol': {'definition': 1e-10, 'agree': 1e-10, 'linear': 1e-10, 'marginal': 1e-10,
                           'inverse': 1e-12, 'maxfreq': 1e-9}},
        'required_classes': ['odd-n', 'even-n', 'sin-odd-n', 'sin-even-n', 'dt=0.01', 'dt=0.5', 'int-input',
                             'list-input', 'linear-all-pairs', 'linear-menu', 'nonzero-mean', 'nonzero-nyquist',
                             'k0-min', 'k0-max', 'definition-on-sinusoid', 'oracle-witness', 'max-length-1024',
                             'length-above-1000', 'long-odd-n', 'long-pow2', 'i16-input', 'u8-input', 'tuple-input',
                             'scaled-1e-09', 'scaled-1e+06', 'a-b-a', 'returned-array-overwritten', 'trace-Signal',
                             'trace-AccSignal', 'trace-after-other-length', 'trace-transform-restored-by-caller',
                             'trace-returned-array-overwritten', 'trace-amplitude-1e-09', 'trace-amplitude-1e+06']
                            + ['scaled-%.0e' % a for a in EXTREME_AMPS] + ['trace-amplitude-%.0e' % a for a in EXTREME_AMPS]
                            + ['tifq-amplitude-%.0e' % a for a in EXTREME_AMPS]
                            + ['object-keeps-transform', 'object-transform-word', 'object-transform-long',
                               'object-transform-sinusoid', 'object-transform-history'],
        'assumptions': ['word records: sample values in {-1,0,2} (x 15000 as int16, x 125 as uint8 for words without -1, x 1e-9 and '
                        'x 1e+6 as float64, x %s as float64 for the words of length <= %d); lengths above the word bound only '
                        'through the sinusoid and long families' % (list(EXTREME_AMPS), LEXT),
                        'record scales between 1e-170 and 1e+160 (peak value); nothing is assumed about scales outside',
                        'the transform an object-level call leaves on the object is read from asig.swtf (the attribute the '
                        'library, its tests and its plot helpers use) and from any other public attribute the call added that '
                        'holds a complex (n/2) x n array; an object that keeps no transform is accepted',
                        'float32 records are not examined (the unchanged tree transforms them in single precision)',
                        'an object whose record was replaced carries either no transform (clear_cache removed it) or the '
                        'transform of its current record, stored in asig.swtf by the caller',
                        'sinusoid records: on-grid frequencies only (k0 integer relative to the even truncation N)',
                        'dt only on the menu + {1e-6, 40} for the trace of a fresh object (dt enters get_max_stockwell_freq only)',
                        'tolerances are relative to max(peak |record|, peak |expected|)',
                        'middle half of the record = sample indices j with N/4 <= j < 3N/4'],
    }


# ------------------------------------------------------------------------------------------
# reference model (from the statement; Stockwell, Mansinha & Lowe 1996, discrete form)
# ------------------------------------------------------------------------------------------
def ref_dft(h, normalised):
    """X[m] = sum_t h[t] exp(-2 pi i m t / N) (divided by N if normalised). Double loop."""
    N = len(h)
    tw = [cmath.exp(-2j * math.pi * q / N) for q in range(N)]
    out = []
    for m in range(N):
        s = 0j
        for t in range(N):
            s += h[t] * tw[(m * t) % N]
        out.append(s / N if normalised else s)
    return out


def ref_stockwell_loop(h):
    """S[k][j], k = 1..N/2, j = 0..N-1 for the even-length real record h (triple loop)."""
    N = len(h)
    H = ref_dft(h, True)
    ex = [cmath.exp(2j * math.pi * q / N) for q in range(N)]
    S = {}
    for k in range(1, N // 2 + 1):
        g = []
        for m in range(N):
            ms = m if m <= N // 2 else m - N      # signed frequency index
            g.append(math.exp(-2.0 * math.pi ** 2 * ms * ms / float(k * k)))   # Gaussian of width 1/f
        hk = [H[(m + k) % N] * g[m] for m in range(N)]
        row = []
        for j in range(N):
            s = 0j
            for m in range(N):
                s += hk[m] * ex[(m * j) % N]
            row.append(s)
        S[k] = row
    return S


def expected_from_S(S, N):
    """conj(S), rows from the Nyquist frequency (k = N/2) down to the first harmonic (k = 1)."""
    return np.array([[S[k][j].conjugate() for j in range(N)] for k in range(N // 2, 0, -1)], dtype=complex)


_E_CACHE = {}


def ref_stockwell_matrix(h):
    """Same sum as ref_stockwell_loop with the m-sum written as a matrix product.  Returns
    (expected array = conj(S) rows k = N/2..1, un-normalised DFT F)."""
    h = np.asarray(h, dtype=float)
    N = len(h)
    if N not in _E_CACHE:
        _E_CACHE.clear()
        t = np.arange(N)
        _E_CACHE[N] = np.exp(2j * np.pi * ((np.outer(t, t)) % N) / N)     # E[m, j]
    E = _E_CACHE[N]
    t = np.arange(N)
    F = np.conj(E) @ h
    H = F / N
    ms = np.where(t <= N // 2, t, t - N).astype(float)
    M = np.empty((N // 2, N), dtype=complex)
    for k in range(1, N // 2 + 1):
        M[N // 2 - k] = H[(t + k) % N] * np.exp(-2.0 * np.pi ** 2 * ms ** 2 / float(k * k))
    return np.conj(M @ E), F


def ref_inverse(h):
    """record minus its mean and its Nyquist component."""
    N = len(h)
    mean = sum(h) / N
    nyq = sum(h[t] * (-1) ** t for t in range(N)) / N
    return [h[t] - mean - nyq * (-1) ** t for t in range(N)], mean, nyq


# ------------------------------------------------------------------------------------------
CONTAINER_CLASS = {'i64': 'int-input', 'list': 'list-input', 'i16': 'i16-input', 'u8': 'u8-input', 'tuple': 'tuple-input',
                   'f64*1e-09': 'scaled-1e-09', 'f64*1e+06': 'scaled-1e+06'}
CONTAINER_CLASS.update(('f64*%.0e' % a, 'scaled-%.0e' % a) for a in EXTREME_AMPS)


def scaled_containers(x, amps):
    """[(name, factory, factor)]: the float64 record times each amplitude."""
    x = np.array(x, dtype=float)
    return [('f64*%.0e' % a, (lambda a=a: a * x), a) for a in amps if a != 1.0]


def cmax(a):
    try:
        a = np.asarray(a)
        return float(np.max(np.abs(a))) if a.size else 0.0
    except Exception:
        return 0.0


def expect_close_2d(r, claim, sub, got, want, rtol, scale, what=''):
    """Res.expect_close for time-frequency arrays: same verdict, but a mismatch is reported with its worst cell
    (row, column, value, expected value) instead of the whole array."""
    r.n_cmp += 1
    ok, err, why = close(got, want, rtol=rtol, scale=scale)
    if ok:
        return True
    obs, exp = None, None
    g, w = to_array(got), to_array(want)
    if g is not None and w is not None and g.shape == w.shape and g.size:
        with np.errstate(all='ignore'):
            d = np.abs(g - w)
            d = np.where(np.isfinite(d), d, np.inf)
        idx = np.unravel_index(int(np.argmax(d)), d.shape)
        obs = {'worst_cell': [int(i) for i in idx], 'value': complex(g[idx]), 'dtype': str(g.dtype)}
        exp = {'value': complex(w[idx])}
    elif g is not None:
        obs = {'shape': list(g.shape), 'dtype': str(g.dtype)}
        exp = {'shape': list(w.shape)} if w is not None else None
    else:
        obs = type(got).__name__
    return r.fail(claim, sub, (what + ': ' if what else '') + why, err=err, observed=obs, expected=exp)


def check_one_record(r, sub, x_float, containers, want, F, do_def, allouts=None):
    """All single-record sub-claims.  x_float: float64 record (length n).  containers: list of
    (name, factory, factor): the argument object holds factor * x_float.  want: expected (N/2, N) array for x_float or
    None (the definition is linear: factor * want is expected).  F: un-normalised DFT coefficients F[0..N-1] of the even
    truncation.  Returns {impl: output on float64}; allouts (dict) receives {(impl, container): (output, factor)}."""
    n = len(x_float)
    N = n // 2 * 2
    h = [float(v) for v in x_float[:N]]
    peak = max([abs(v) for v in h] + [0.0])
    want_m1 = np.array([F[k].conjugate() for k in range(N // 2, 0, -1)], dtype=complex)
    outs = {}
    for iname, attr in IMPLS:
        for cname, make, fac in containers:
            s2 = dict(sub, impl=iname, input=cname)
            arg = make()
            snap = snapshot(arg)
            r.states += 1
            fn = getattr(stockwell, attr, None)
            if fn is None:
                r.fail('definition', s2, 'stockwell.%s does not exist' % attr)
                continue
            ok, out = r.call('definition', s2, fn, arg)
            r.expect('unchanged', s2, snapshot(arg) == snap, 'input container modified by the transform',
                     observed=arg, expected=list(x_float))
            if cname in CONTAINER_CLASS:
                r.cls(CONTAINER_CLASS[cname])
            if not ok:
                continue
            try:
                shp = tuple(np.asarray(out).shape)
                is_c = bool(np.iscomplexobj(np.asarray(out)))
            except Exception:
                shp, is_c = None, False
            r.expect('shape', s2, shp == (N // 2, N) and is_c,
                     'result is not an (n/2) x n complex array (n = even truncation)', observed=(shp, is_c),
                     expected=((N // 2, N), True))
            if want is not None and do_def:
                expect_close_2d(r, 'definition', s2, out, fac * want if fac != 1 else want, rtol=1e-10,
                                scale=fac * max(peak, cmax(want)))
            # Fourier marginal: sum over time of row (frequency k) = conj(F[k]), rows k = N/2..1
            try:
                got_m = np.sum(np.asarray(out), axis=1)
            except Exception:
                got_m = None
            r.expect_close('marginal', s2, got_m, fac * want_m1, rtol=1e-10, scale=fac * max(peak, cmax(want_m1)))
            if allouts is not None and cname != 'f64':
                allouts[(iname, cname)] = (out, fac)
            if cname == 'f64':
                outs[iname] = out
                # the same call again after the caller overwrote what it was given: same result
                try:
                    keep = np.array(out, copy=True)
                    out[...] = 1e30
                except Exception:
                    keep = None
                if keep is not None:
                    outs[iname] = keep
                    if allouts is not None:
                        allouts[(iname, cname)] = (keep, fac)
                    r.cls('returned-array-overwritten')
                    ok, out2 = r.call('definition', dict(s2, step='again-after-result-overwritten'), fn, make())
                    if ok:
                        r.transitions += 1
                        expect_close_2d(r, 'same-call-same-result', s2, out2, keep, rtol=1e-13, scale=max(peak, cmax(keep)),
                                        what='second call, first result overwritten by the caller')
    # both implementations agree
    if 'transform' in outs and 'scipy' in outs:
        r.transitions += 1
        expect_close_2d(r, 'agree', sub, outs['scipy'], outs['transform'], rtol=1e-10,
                        scale=max(peak, cmax(outs['transform'])))
    # inverse
    inv_want, mean, nyq = ref_inverse(h)
    if abs(mean) > 1e-9 * max(peak, 1e-300):
        r.cls('nonzero-mean')
    if abs(nyq) > 1e-9 * max(peak, 1e-300):
        r.cls('nonzero-nyquist')
    for iname in outs:
        for fac in (1.0,) + tuple(a for a in AMPS if a != 1.0) + EXTREME_AMPS:
            s2 = dict(sub, impl=iname) if fac == 1.0 else dict(sub, impl=iname, scaled=fac)
            try:
                stock = np.array(outs[iname], copy=True) * fac
                snap = stock.copy()
            except Exception:
                continue
            ok, inv = r.call('inverse', s2, stockwell.itransform, stock)
            r.expect('unchanged', dict(s2, fn='itransform'), np.array_equal(stock, snap), 'transform array modified by itransform')
            if ok:
                r.expect_close('inverse', s2, inv, fac * np.array(inv_want, dtype=float), rtol=1e-12, scale=fac * peak)
                if fac == 1.0:
                    try:
                        keep = np.array(inv, copy=True)
                        inv[...] = 1e30
                    except Exception:
                        continue
                    ok, inv2 = r.call('inverse', dict(s2, step='again-after-result-overwritten'), stockwell.itransform, stock)
                    if ok:
                        r.expect_close('same-call-same-result', dict(s2, fn='itransform'), inv2, keep, rtol=1e-13, scale=peak)
    return outs


def left_on_object(s, before):
    """[(attribute name, array)]: the transform(s) the object holds now - asig.swtf, and any other public attribute
    that was not there before the call and holds a two-dimensional complex array."""
    out = []
    try:
        now = dict(vars(s))
    except Exception:
        return out
    for name in sorted(now):
        v = now[name]
        if name == 'swtf':
            out.append((name, v))
        elif name not in before and not name.startswith('_') and isinstance(v, np.ndarray) and v.ndim == 2 \
                and np.iscomplexobj(v):
            out.append((name, v))
    return out


def attr_names(s):
    try:
        return set(vars(s))
    except Exception:
        return set()


def check_left(r, sub, s, before, h, want, fac, F=None, family=None):
    """What an object-level call left on the object must be the Stockwell transform of the record the object holds
    (fac * h, h the even truncation as a list of floats; want = expected array for h or None; F = un-normalised DFT of h
    or None): same sub-claims and tolerances as for the array-level result.  Nothing kept: accepted."""
    held = left_on_object(s, before)
    if not held:
        r.cls('object-keeps-no-transform')
        return
    r.cls('object-keeps-transform')
    if family:
        r.cls('object-transform-' + family)
    N = len(h)
    peak = max([abs(v) for v in h] + [0.0])
    for name, arr in held:
        s2 = dict(sub, attr=name)
        r.transitions += 1
        try:
            a = np.asarray(arr)
            shp, is_c = tuple(a.shape), bool(np.iscomplexobj(a))
        except Exception:
            a, shp, is_c = None, None, False
        if not r.expect('object.shape', s2, shp == (N // 2, N) and is_c,
                        'the transform left on the object is not an (n/2) x n complex array', observed=(shp, is_c),
                        expected=((N // 2, N), True)):
            continue
        if want is not None:
            expect_close_2d(r, 'object.definition', s2, a, fac * want if fac != 1 else want, rtol=1e-10,
                            scale=fac * max(peak, cmax(want)), what='asig.%s after the object-level call' % name)
        if F is not None:
            want_m1 = np.array([F[k].conjugate() for k in range(N // 2, 0, -1)], dtype=complex)
            r.expect_close('object.marginal', s2, np.sum(a, axis=1), fac * want_m1, rtol=1e-10,
                           scale=fac * max(peak, cmax(want_m1)), what='row sums of asig.%s' % name)
        inv_want, _, _ = ref_inverse(h)
        snap = np.array(a, copy=True)
        ok, inv = r.call('object.inverse', s2, stockwell.itransform, arr)
        if ok:
            r.expect_close('object.inverse', s2, inv, fac * np.array(inv_want, dtype=float), rtol=1e-12, scale=fac * peak,
                           what='itransform(asig.%s)' % name)
        r.expect('unchanged', dict(s2, fn='itransform'), np.array_equal(np.asarray(arr), snap),
                 'transform held by the object modified by itransform')


def check_object_level(r, sub, x_float, want, F, family):
    """The object-level entry point on a fresh object of either class holding the record: whatever it leaves on the object
    is the transform of the record; the record itself is untouched."""
    n = len(x_float)
    N = n // 2 * 2
    h = [float(v) for v in x_float[:N]]
    for cname in CLASSES:
        s2 = dict(sub, cls=cname, entry='object')
        r.states += 1
        st = {}

        def run():
            st['s'] = getattr(eqsig, cname)(np.array(x_float, dtype=float), DTS[0])
            st['before'] = attr_names(st['s'])
            return stockwell.get_max_stockwell_freq(st['s'])
        ok, mf = r.call('object.returns', s2, run)
        if not ok:
            continue
        check_left(r, s2, st['s'], st['before'], h, want, 1, F, family)
        try:
            same = np.array_equal(np.asarray(st['s'].values, dtype=float), np.asarray(x_float, dtype=float))
        except Exception:
            same = False
        r.expect('unchanged', dict(s2, fn='get_max_stockwell_freq'), same, 'the record held by the object changed')


def check_linearity(r, sub, x, y, tx):
    """T(a x + b y) = a T(x) + b T(y) for both implementations. tx: {impl: T(x)} already computed."""
    for iname, attr in IMPLS:
        if iname not in tx:
            continue
        fn = getattr(stockwell, attr)
        s2 = dict(sub, impl=iname)
        ok, ty = r.call('linear', s2, fn, y.copy())
        if not ok:
            continue
        for a, b in COEFS:
            s3 = dict(s2, a=a, b=b)
            z = a * x + b * y
            ok, tz = r.call('linear', s3, fn, z)
            if not ok:
                continue
            r.transitions += 1
            try:
                want = a * np.asarray(tx[iname]) + b * np.asarray(ty)
            except Exception as e:
                r.fail('linear', s3, 'cannot combine the two transforms: %s' % e)
                continue
            expect_close_2d(r, 'linear', s3, tz, want, rtol=1e-10,
                            scale=max(cmax(want), cmax(x) * abs(a) + cmax(y) * abs(b)))


def menu_partners(w):
    n = len(w)
    fixed = [SIGMA[(t * (t + 1) // 2 + 1) % 3] for t in range(n)]
    out = []
    for p in (list(reversed(w)), fixed):
        if p != list(w) and p not in out:
            out.append(p)
    return out


def run_word(case):
    r = Res()
    w = [int(v) for v in case['w']]
    n = len(w)
    N = n // 2 * 2
    x = np.array(w, dtype=float)
    r.cls('odd-n' if n % 2 else 'even-n')
    if len(set(w[:N])) > 1:
        r.nontrivial += 1
    sub = {'w': w}
    h = [float(v) for v in w[:N]]
    S = ref_stockwell_loop(h)
    want = expected_from_S(S, N)
    F = ref_dft(h, False)
    containers = [('f64', lambda: np.array(w, dtype=float), 1), ('i64', lambda: np.array(w, dtype=np.int64), 1),
                  ('list', lambda: list(w), 1), ('tuple', lambda: tuple(w), 1),
                  ('i16', lambda: np.array([15000 * v for v in w], dtype=np.int16), 15000)]
    if min(w) >= 0:
        containers.append(('u8', lambda: np.array([125 * v for v in w], dtype=np.uint8), 125))
    containers += scaled_containers(w, AMPS)
    if n <= LEXT:
        containers += scaled_containers(w, EXTREME_AMPS)
    outs = check_one_record(r, sub, x, containers, want, F, True)
    check_object_level(r, sub, x, want, F, 'word')
    # linearity
    if case.get('pairs') == 'all':
        partners = [list(p) for p in words(SIGMA, n, n) if list(p) > w]
        r.cls('linear-all-pairs', len(partners))
    else:
        partners = menu_partners(w)
        r.cls('linear-menu', len(partners))
    for p in partners:
        check_linearity(r, {'w': w, 'y': p}, x, np.array(p, dtype=float), outs)
    # A, partners (same length, among them records with the same end values), A again
    if partners:
        r.cls('a-b-a')
        for iname, attr in IMPLS:
            s2 = dict(sub, impl=iname, input='f64', step='again-after-partners')
            ok, out = r.call('definition', s2, getattr(stockwell, attr), np.array(w, dtype=float))
            if ok:
                r.transitions += 1
                expect_close_2d(r, 'definition', s2, out, want, rtol=1e-10, scale=max(float(max(abs(v) for v in w)), cmax(want)))
    return r


def mixed(n):
    return [SIGMA[(t * t + t // 2) % 3] for t in range(n)]


def run_long(case):
    """One mixed record of a long length: shape, definition, agreement, marginal, inverse (matrix form of the reference)."""
    r = Res()
    n = int(case['n'])
    N = n // 2 * 2
    w = mixed(n)
    x = np.array(w, dtype=float)
    r.nontrivial += 1
    r.cls('long-odd-n' if n % 2 else 'long-even-n')
    if n == 1024:
        r.cls('max-length-1024')
    if 1000 < n < 1024:
        r.cls('length-above-1000')
    if n & (n - 1) == 0:
        r.cls('long-pow2')
    want, F = ref_stockwell_matrix([float(v) for v in w[:N]])
    F = [complex(v) for v in F]
    check_one_record(r, {'long': n, 'rec': 'mixed'}, x, [('f64', lambda: x.copy(), 1), ('i64', lambda: np.array(w, dtype=np.int64), 1)],
                     want, F, True)
    check_object_level(r, {'long': n, 'rec': 'mixed'}, x, want, F, 'long')
    return r


def sin_record(n, k0, ph):
    N = n // 2 * 2
    t = np.arange(n)
    return np.sin(2 * np.pi * k0 * t / N + ph)


def run_sin(case):
    r = Res()
    n, k0 = int(case['n']), int(case['k0'])
    N = n // 2 * 2
    ks = k0_range(n)
    if k0 == ks[0]:
        r.cls('k0-min')
    if k0 == ks[-1]:
        r.cls('k0-max')
    lo = -(-N // 4)          # ceil(N/4)
    hi = -(-3 * N // 4)      # first index >= 3N/4
    for ph in case['phases']:
        r.cls('sin-odd-n' if n % 2 else 'sin-even-n')
        r.nontrivial += 1
        sub = {'n': n, 'k0': k0, 'phase': ph}
        x = sin_record(n, k0, ph)
        h = [float(v) for v in x[:N]]
        if case['ref'] == 'loop':
            want = expected_from_S(ref_stockwell_loop(h), N)
            F = ref_dft(h, False)
            if n <= 64:
                # witness for the matrix form of the reference used at the long lengths
                wm, Fm = ref_stockwell_matrix(h)
                r.cls('oracle-witness')
                r.expect_close('oracle-witness', sub, wm, want, rtol=1e-11, scale=max(1.0, cmax(want)))
                r.expect_close('oracle-witness', sub, Fm, np.array(F), rtol=1e-11, scale=max(1.0, cmax(F)))
        else:
            want, F = ref_stockwell_matrix(h)
            F = [complex(v) for v in F]
        r.cls('definition-on-sinusoid')
        full = case.get('amps', 'full' if case['ref'] == 'loop' else 'unit') == 'full'
        containers = [('f64', lambda: x.copy(), 1)]
        if full:
            containers += scaled_containers(x, AMPS + EXTREME_AMPS)
        allouts = {}
        outs = check_one_record(r, sub, x, containers, want, F, True, allouts)
        light = case['ref'] != 'loop'       # long lengths: fresh objects and one history only
        obj_amps = (AMPS + EXTREME_AMPS) if full else (1.0,)
        # references for the other records the history sequence puts on the object (matrix form, witnessed above)
        hist = history_records(n, k0, ph)
        for dt in DTS + EXTRA_DTS:
            r.cls('dt=%s' % dt)
            s2 = dict(sub, dt=dt)
            f0 = k0 / (N * dt)
            wantf = np.full(hi - lo, f0)
            for cname in CLASSES:
                for amp in obj_amps:
                    if dt in EXTRA_DTS and amp != 1.0:
                        continue
                    s3 = dict(s2, cls=cname) if amp == 1.0 else dict(s2, cls=cname, amplitude=amp)
                    r.states += 1
                    r.cls('trace-' + cname)
                    if amp != 1.0:
                        r.cls('trace-amplitude-%.0e' % amp)
                    st = {}

                    def trace():
                        st['s'] = getattr(eqsig, cname)(amp * x, dt)      # fresh object: the function caches asig.swtf
                        st['before'] = attr_names(st['s'])
                        return stockwell.get_max_stockwell_freq(st['s'])
                    ok, mf = r.call('maxfreq', s3, trace)
                    if ok:
                        check_trace(r, 'maxfreq', s3, mf, lo, hi, wantf)
                        # what the call left on the object: the transform of the record held (amp * x)
                        check_left(r, s3, st['s'], st['before'], h, want, amp, F, 'sinusoid')
                if dt in DTS:
                    trace_history(r, dict(s2, cls=cname), cname, x, n, k0, ph, dt, light, hist, want)
            # array level: the trace of the transform of EVERY container (both implementations)
            for (iname, cname), (out, fac) in sorted(allouts.items()):
                s3 = dict(s2, impl=iname, input=cname)
                if fac in EXTREME_AMPS:
                    r.cls('tifq-amplitude-%.0e' % fac)
                snap = np.array(out, copy=True)
                ok, mf = r.call('maxfreq.tifq', s3, stockwell.get_max_tifq_vals_freq, out, dt)
                if ok:
                    check_trace(r, 'maxfreq.tifq', s3, mf, lo, hi, wantf)
                r.expect('unchanged', dict(s3, fn='get_max_tifq_vals_freq'), np.array_equal(np.asarray(out), snap),
                         'transform array modified by get_max_tifq_vals_freq')
    return r


def history_records(n, k0, ph):
    """The other two records of the history sequence and the references of their transforms:
    {'y': (record, k, expected array), 'z': ...}; y: same length, another frequency; z: another length (other parity)."""
    ks = k0_range(n)
    ky = ks[0] if k0 != ks[0] else ks[-1]
    y = sin_record(n, ky, ph)
    nz = n + 5
    kz = k0_range(nz)[-1]
    z = sin_record(nz, kz, ph)
    out = {}
    for key, rec, k in (('y', y, ky), ('z', z, kz)):
        hh = [float(v) for v in rec[:len(rec) // 2 * 2]]
        if key == 'z' and n > 128:
            out[key] = (rec, k, hh, None)          # long lengths: the z record is only the object's past
        else:
            out[key] = (rec, k, hh, ref_stockwell_matrix(hh)[0])
    return out


def check_trace(r, claim, sub, mf, lo, hi, wantf):
    try:
        got = np.asarray(mf)[lo:hi]
    except Exception:
        got = None
    return r.expect_close(claim, sub, got, wantf, rtol=1e-9)


def middle(n):
    N = n // 2 * 2
    return -(-N // 4), -(-3 * N // 4)


def exercise(s):
    """Read lazy properties / call the auxiliary and deprecated public methods that store results on the object.
    Whether these succeed is not this property's business."""
    for name in ('fa_spectrum', 'smooth_fa_spectrum', 'velocity', 'displacement', 'pga'):
        try:
            getattr(s, name)
        except Exception:
            pass
    for name in ('generate_cumulative_stats', 'generate_duration_stats', 'generate_peak_values'):
        try:
            getattr(s, name)()
        except Exception:
            pass


def trace_history(r, sub, cname, x, n, k0, ph, dt, light, hist, want_x):
    """get_max_stockwell_freq on ONE object through a history.  At every step the object holds an in-domain sinusoid and
    either no transform (reset_values -> clear_cache removed it) or the transform of its current record put there by the
    caller (asig.swtf = stockwell.transform(asig.values), as the library's own tests do): the trace must be that of the record
    held now."""
    N = n // 2 * 2
    y, ky, hy, want_y = hist['y']               # same length, another frequency
    z, kz, hz, want_z = hist['z']               # another length (other parity)
    nz = len(z)
    Nz = nz // 2 * 2
    hx = [float(v) for v in x[:N]]
    fx, fy, fz = k0 / (N * dt), ky / (N * dt), kz / (Nz * dt)
    held_now = {'x': (hx, want_x), 'y': (hy, want_y), 'z': (hz, want_z)}
    state = {}

    def prepare():
        s = getattr(eqsig, cname)(z.copy(), dt)
        exercise(s)
        stockwell.get_max_stockwell_freq(s)
        state['s'] = s
    ok, _ = r.call('maxfreq', dict(sub, step='prepare'), prepare)
    if not ok:
        return
    s = state['s']

    def restore():
        s.swtf = stockwell.transform(s.values)

    steps = [('reset_values(x)', lambda: s.reset_values(x.copy()), n, fx, 'trace-after-other-length'),
             ('again-after-trace-overwritten', None, n, fx, 'trace-returned-array-overwritten'),
             ('reset_values(y)+caller-restores-swtf', lambda: (s.reset_values(y.copy()), restore()), n, fy,
              'trace-transform-restored-by-caller'),
             ('reset_values(x)+caller-restores-swtf', lambda: (s.reset_values(x.copy()), restore()), n, fx, None)]
    if not light:
        steps += [('after-statistics', lambda: exercise(s), n, fx, None),
                  ('reset_values(z)+caller-restores-swtf', lambda: (s.reset_values(z.copy()), restore()), nz, fz, None),
                  ('reset_values(x)-again', lambda: s.reset_values(x.copy()), n, fx, None)]
    keep = None
    for step, change, nn, f, cl in steps:
        s3 = dict(sub, step=step)
        if cl:
            r.cls(cl)
        if change is not None:
            ok, _ = r.call('maxfreq', s3, change)
            if not ok:
                return
        r.states += 1
        r.transitions += 1
        before = attr_names(s)
        ok, mf = r.call('maxfreq', s3, stockwell.get_max_stockwell_freq, s)
        if not ok:
            continue
        lo, hi = middle(nn)
        check_trace(r, 'maxfreq', s3, mf, lo, hi, np.full(hi - lo, f))
        # what is on the object now is the transform of the record held now
        hh, ww = held_now['z' if 'values(z)' in step else 'y' if 'values(y)' in step else 'x']
        check_left(r, s3, s, before, hh, ww, 1, None, 'history')
        if step == 'reset_values(x)':
            try:
                keep = np.array(mf, copy=True)
                mf[...] = -1.0           # e.g. np.clip(trace, None, fmax, out=trace) by the caller
            except Exception:
                keep = None
        elif nn == n and f == fx and keep is not None:
            r.expect_close('same-call-same-result', s3, mf, keep, rtol=1e-12,
                           what='trace of the same record on the same object vs the first one (private copy)')


def run_case(case):
    if case['kind'] == 'word':
        return run_word(case)
    if case['kind'] == 'long':
        return run_long(case)
    return run_sin(case)


def snippet(case, v):
    sub = v.get('sub') or {}
    if case['kind'] == 'word':
        return ("import numpy as np\nfrom eqsig import stockwell as st\n"
                "sub = %r\nx = np.array(sub['w'], float)\n"
                "a = st.transform(x); b = st.transform_w_scipy_fft(x)\n"
                "print(a.shape, np.max(np.abs(a - b)))\nprint(a)\n"
                "print('row sums', a.sum(axis=1), 'conj fft', np.conj(np.fft.fft(x[:len(x)//2*2]))[1:len(x)//2+1][::-1])\n"
                "print('inverse', st.itransform(a))\n"
                "import eqsig\ns = getattr(eqsig, sub.get('cls', 'AccSignal'))(x.copy(), 0.01); st.get_max_stockwell_freq(s)\n"
                "if hasattr(s, 'swtf'): print('left on the object by get_max_stockwell_freq:', s.swtf.dtype, "
                "'max |asig.swtf - transform(x)| =', np.max(np.abs(s.swtf - a)))\n" % (sub,))
    if case['kind'] == 'long':
        return ("import numpy as np\nfrom eqsig import stockwell as st\n"
                "n = %d; x = np.array([(-1, 0, 2)[(t * t + t // 2) %% 3] for t in range(n)], float); N = n // 2 * 2\n"
                "a = st.transform(x); b = st.transform_w_scipy_fft(x)\n"
                "print(a.shape, 'max |transform - transform_w_scipy_fft|', np.max(np.abs(a - b)))\n"
                "print('rows that are identically zero:', np.where(~a.any(axis=1))[0])\n"
                "print('row sums vs conj fft', np.max(np.abs(a.sum(axis=1) - np.conj(np.fft.fft(x[:N]))[1:N // 2 + 1][::-1])))\n"
                "h = x[:N] - x[:N].mean(); h = h - (h * (-1.0) ** np.arange(N)).mean() * (-1.0) ** np.arange(N)\n"
                "print('inverse error', np.max(np.abs(st.itransform(a) - h)))\n" % (case['n'],))
    if 'step' in sub:
        return ("import numpy as np, eqsig\nfrom eqsig import stockwell as st\n"
                "sub = %r\nn, k0, ph, dt = sub['n'], sub['k0'], sub['phase'], sub['dt']; N = n // 2 * 2\n"
                "x = np.sin(2 * np.pi * k0 * np.arange(n) / N + ph)\n"
                "z = np.sin(2 * np.pi * 2 * np.arange(n + 5) / ((n + 5) // 2 * 2) + ph)\n"
                "s = getattr(eqsig, sub.get('cls', 'AccSignal'))(z, dt); st.get_max_stockwell_freq(s)     # another record first\n"
                "s.reset_values(x); tr = st.get_max_stockwell_freq(s); print('expected', k0 / (N * dt), tr[-(-N // 4):-(-3 * N // 4)])\n"
                "tr[...] = -1.0; print('after the caller overwrote the trace:', st.get_max_stockwell_freq(s)[-(-N // 4):-(-3 * N // 4)])\n"
                "s.reset_values(z); s.swtf = st.transform(s.values); s.reset_values(x); s.swtf = st.transform(s.values)\n"
                "print('after reset_values + caller-restored swtf:', st.get_max_stockwell_freq(s)[-(-N // 4):-(-3 * N // 4)])\n" % (sub,))
    return ("import numpy as np, eqsig\nfrom eqsig import stockwell as st\n"
            "sub = %r\nn, k0, ph = sub['n'], sub['k0'], sub['phase']; N = n // 2 * 2; dt = sub.get('dt', 0.01)\n"
            "amp = float(sub.get('amplitude', 1.0)) if '*' not in str(sub.get('input')) else float(sub['input'].split('*')[1])\n"
            "x = amp * np.sin(2 * np.pi * k0 * np.arange(n) / N + ph)\n"
            "s = getattr(eqsig, sub.get('cls', 'AccSignal'))(x, dt); mf = st.get_max_stockwell_freq(s)\n"
            "print('expected', k0 / (N * dt), 'object level, middle half', mf[-(-N // 4):-(-3 * N // 4)])\n"
            "a = st.transform(x); print(a.shape, np.max(np.abs(a - st.transform_w_scipy_fft(x))) / amp)\n"
            "print('array level, middle half', st.get_max_tifq_vals_freq(a, dt)[-(-N // 4):-(-3 * N // 4)])\n"
            "if hasattr(s, 'swtf'): print('left on the object:', s.swtf.dtype, 'max |asig.swtf - transform(x)| / amp =', "
            "np.max(np.abs(s.swtf - a)) / amp, 'itransform(asig.swtf) vs itransform(transform(x)):', "
            "np.max(np.abs(st.itransform(s.swtf) - st.itransform(a))) / amp)\n" % (sub,))
