"""C20 - interpolation, averaging, step-fit and design-spectrum helpers match their definitions.

Engine T x G.  Three families of pool cases, every one enumerated completely:

* 'interp'  : one table (node set x column word over {-1,0,4}^nodes, 2-3 columns) with every query of
              the menu (nodes, mid/quarter/0.49/0.51 points, one point beyond each end) through
              interp2d (sorted, reversed, one-by-one, integer tables) and interp_left (array / list /
              scalar queries, every column and the default y=None);
* 'word'    : one word over {-2,0,1,3}: calc_roll_av_vals for every window 1..len and every mode,
              calc_step_fn_vals_error for pow 1,2 and dir None/up/down, calc_step_fn_steps_vals for every
              interior split, for the two end splits (ind=0, ind=len-1: the non-empty side) and for ind=None;
* 'spectra' : one (site class, Z, R, N): c_h_factor / sd_nzs / t_eff on the period grid (scalar, ndarray, list, tuple)
              and on whole-second periods in integer-typed containers; 'reject': the inputs the functions have to refuse.

References are written from the property statement: explicit bracketing in exact rationals, window sums
with clamped indices, split sums about the exact side means.  The design-spectrum claims are relations
between the three functions (no table of expected values is used).

Round 3 (general lessons): every array argument of the five array helpers is one object per container for the whole call
sequence of its case (snapshot after every call), every returned array is overwritten in place after a private copy was
taken; short words also as int64 / tuple / int16 / uint8 (large steps) / float32 and at the scales 2^-30, 2^20 and on a
level of 2^20; tables and node sets likewise, with queries 1e-7 on either side of every node; A-B-A and
explicit-then-default call sequences; (Z, R, N) with Z*R below, on and above 0.7.

Round 4: the argument array of every vectorised entry point (queries of interp2d and interp_left, periods of c_h_factor and
sd_nzs) also in arrangements that are not ascending - descending, every cyclic rotation of the ascending and of the descending
arrangement (spectra; three rotations for the tables), interleaved, outside-in, every element twice, the whole array twice,
ascending followed by descending - element by element against the reference / the scalar call for the same element: the result
for one element does not depend on where it stands in the array or on its neighbours.
"""
import contextlib
import io
import math
from fractions import Fraction

import numpy as np

from ..target import eqsig, design_spectra
from ..result import Res
from ..compare import words, snapshot, bits_equal

fns = eqsig.fns

COLS = (-1, 0, 4)
SIGMA = (-2, 0, 1, 3)
NODESETS = (('single', (1.5,)), ('two', (-2.0, 1.0)), ('uniform', (0.0, 1.0, 2.0, 3.0)),
            ('nonuniform', (0.0, 0.5, 3.0, 3.1)), ('wide', (0.0, 1.0, 10.0, 11.0, 100.0)))
MODES = ('forward', 'backward', 'centre', 'center')
SITE = ('C', 'D', 'E')
# (Z, R, N): products Z*R below, exactly on and above 0.7 (the value NZS 1170.5 mentions as an upper limit of Z*R: the three
# functions must stay consistent with each other on both sides of it), N on both sides of 1
ZRN = ((0.4, 1.0, 1.0), (0.13, 1.8, 1.2), (0.7, 1.0, 1.0), (0.4, 1.8, 1.0), (0.6, 1.3, 1.2), (1.0, 1.0, 1.0))
BOUNDS_T = (0.1, 0.3, 0.56, 1.0, 1.5, 3.0)     # every segment boundary of the three site classes
EPS_T = 1e-12
INTERIOR_T = (0.0, 1e-9, 0.05, 0.2, 0.4, 0.8, 1.2, 2.0, 2.5, 4.5, 10.0)
# whole-second periods handed over in integer-typed containers (and one list mixing ints and floats, taken from the
# float grid): "all periods T >= 0" includes T = 0, 1, 2, ... and a caller writes them [0, 1, 2, 3] or np.arange(6)
INT_T = (0, 1, 2, 3, 4, 5, 10)
MIXED_T = (0, 0.4, 1, 2.5, 3)
G = 9.81
CONT_TOL = 0.005

# ---- containers / dtypes / scalings of the series handed to the averaging and step-fit helpers.  The actual samples are
#      w*mult + offset, exactly representable in the listed type (so the references stay exact rationals of the values
#      actually passed); narrow and unsigned integer types carry large steps (window sums leave the type's range);
#      2^-30 (~1e-9) and 2^20 (~1e6) are the scale-free sub-families; w + 2^20 rides on a large common level (samples
#      differ by ~1e-6 of their size).  'kinds': r = rolling average, l = step levels at a given split, e = step error
#      / dir option / automatic split (float64 only: integer input of the step error is the open finding
#      step-error-int-truncation and float32 input is answered in float32).
P30 = Fraction(1, 2 ** 30)
P20 = 2 ** 20
WORD_VARIANTS = (
    ('ndarray-i64', 1, 0, np.int64, 'rl'),
    ('tuple-int', 1, 0, tuple, 'rl'),
    ('ndarray-i16 (w*10000)', 10000, 0, np.int16, 'rl'),
    ('ndarray-u8 (w*50+100)', 50, 100, np.uint8, 'rl'),
    ('ndarray-f32', 1, 0, np.float32, 'r'),
    ('ndarray-f64 (w*2^-30)', P30, 0, float, 'rle'),
    ('ndarray-f64 (w*2^20)', P20, 0, float, 'rle'),
    ('ndarray-f64 (w+2^20)', 1, P20, float, 'rle'),
)
ROLL_VARIANT_MODES = (None, 'backward', 'centre')
VARIANT_MAX_LEN = 5
# table / node variants of the interpolation helpers (same idea; node scalings are applied to nodes AND queries)
TABLE_VARIANTS = (
    ('i16 (f*3000)', 3000, 0, np.int16),
    ('u8 (f*25+25)', 25, 25, np.uint8),
    ('f32', 1, 0, np.float32),
    ('f64 (f*2^-30)', P30, 0, float),
    ('f64 (f*2^20)', P20, 0, float),
    ('f64 (f+2^20)', 1, P20, float),
)
# node sets scaled by 2^-30 (spacings far below 1e-10) are in the menu since the repair of interp2d's 1e-10 clip (fix 5691d42)
NODE_VARIANTS = (('x*2^-30', Fraction(1, 2 ** 30), 0), ('x*2^-20', Fraction(1, 2 ** 20), 0), ('x*2^20', P20, 0), ('x+2^20', 1, P20))
NEAR = 1e-7      # queries this far (relative; absolute next to 0) on either side of every node

CASE_TIMEOUT = 120


def arrangements(n, all_rotations):
    """Arrangements of an ascending argument array of length n as (name, index list): element i of the arrangement is element
    idx[i] of the ascending array.  Unordered, descending and repeated layouts; rotations put the largest values in front of the
    smallest somewhere inside the array (every position with all_rotations, else at one, two and three quarters)."""
    asc = list(range(n))
    desc = asc[::-1]
    out = [('descending', desc)]
    rots = range(1, n) if all_rotations else sorted(set(k for k in (n // 4, n // 2, (3 * n) // 4) if 0 < k < n))
    for k in rots:
        out.append(('ascending rotated by %d' % k, asc[k:] + asc[:k]))
        out.append(('descending rotated by %d' % k, desc[k:] + desc[:k]))
    out.append(('interleaved', asc[0::2] + asc[1::2]))
    out.append(('outside-in', [asc[i // 2] if i % 2 == 0 else asc[n - 1 - i // 2] for i in range(n)]))
    out.append(('each twice', [i for i in asc for _ in (0, 1)]))
    out.append(('whole twice', asc + asc))
    out.append(('ascending then descending', asc + desc))
    return out


def arrangement_class(r, name):
    r.cls('arranged-' + ('rotated' if 'rotated' in name else 'repeated' if ('twice' in name or 'then' in name) else
                         'descending' if name == 'descending' else 'unordered'))


def period_grid():
    ts = set(INTERIOR_T)
    for tb in BOUNDS_T:
        ts.update((tb - EPS_T, tb, tb + EPS_T))
    return sorted(ts)


# ---------------------------------------------------------------------------------------------------
def build(tier, seed):
    L = 6 if tier == 'quick' else 8
    cases = []
    for name, nodes in NODESETS:
        ws = list(words(COLS, len(nodes), len(nodes)))
        for k, c in enumerate(ws):
            nxt = ws[(k + 1) % len(ws)]
            cols = [list(c), list(nxt)]
            if k % 2:
                cols.append([2 * v + 1 for v in c])
            table = [[col[i] for col in cols] for i in range(len(nodes))]
            cases.append({'k': 'interp', 'set': name, 'xf': list(nodes), 'f': table})
    for sc in SITE:
        for zrn in ZRN:
            cases.append({'k': 'spectra', 'sc': sc, 'zrn': list(zrn)})
    cases.append({'k': 'reject'})
    for g in sorted(DECIMAL_GRIDS):
        cases.append({'k': 'grid', 'grid': g})
    cases.append({'k': 'gridhist'})
    for w in words(SIGMA, 1, L):
        cases.append({'k': 'word', 'w': list(w)})
    return {
        'rule_more': "'grid' cases: long evenly spaced decimal node sets (every node, its neighbouring floats, midpoints); 'gridhist': query / node arrays edited in place between calls, integer nodes with negative fractional queries, float32 nodes with float64 queries",
        'cases': cases,
        'rule': 'interp: 5 strictly increasing node sets x every column word over {-1,0,4}^nodes (as column 0 of a '
                '2- or 3-column table) x every query of the menu; word: all words over {-2,0,1,3} of length 1..%d x '
                'window 1..len x 4 modes x 2 containers, and (length>=3) pow in {1,2} x dir in {None,up,down} x every '
                'split; spectra: 3 site classes x 2 (Z,R,N) x %d periods x scalar/array/list/tuple forms, plus the whole-second '
                'periods %s as int list / int tuple / int64 and int32 ndarray (and one-element and mixed int-float lists) '
                'through c_h_factor and sd_nzs.  Every array argument of interp2d / interp_left / calc_roll_av_vals / '
                'calc_step_fn_vals_error / calc_step_fn_steps_vals is ONE object per container that goes into the whole call '
                'sequence of its case (snapshot after every call; returned arrays are overwritten in place after a private '
                'copy was taken); words of length <= %d also as %s (rolling average, modes default/backward/centre; step levels; '
                'float64 variants also step error, dir and automatic split); tables also as %s and nodes+queries as %s, every '
                'variant with queries 1e-7 on either side of every node; A-B-A sequences for interp2d, the rolling average, '
                'c_h_factor and sd_nzs; (Z,R,N) in %s (Z*R below, on and above 0.7); the query arrays of interp2d / interp_left '
                '(ndarray and list) and the period containers of c_h_factor / sd_nzs (float grid as ndarray / list, whole seconds '
                'as int64 ndarray / int list / int tuple) also in the arrangements of arrangements(): descending, ascending and '
                'descending rotated (every offset for the period grid; one, two, three quarters otherwise), interleaved, '
                'outside-in, each element twice, whole array twice, ascending then descending.  non-trivial = table not identically '
                'zero / word not constant / every spectra case'
                % (L, len(period_grid()), list(INT_T), VARIANT_MAX_LEN, [v[0] for v in WORD_VARIANTS],
                   [v[0] for v in TABLE_VARIANTS], [v[0] for v in NODE_VARIANTS], [list(z) for z in ZRN]),
        'bounds': {'columns': COLS, 'node_sets': [list(n) for _, n in NODESETS], 'word_alphabet': SIGMA,
                   'max_len': L, 'modes': MODES, 'pow': [1, 2], 'dir': [None, 'up', 'down'], 'site': SITE,
                   'ZRN': ZRN, 'periods': period_grid(), 'integer_periods': INT_T, 'mixed_periods': MIXED_T,
                   'integer_period_containers': ['list', 'tuple', 'ndarray int64', 'ndarray int32'],
                   'word_variants': [v[0] for v in WORD_VARIANTS], 'word_variant_max_len': VARIANT_MAX_LEN,
                   'table_variants': [v[0] for v in TABLE_VARIANTS], 'node_variants': [v[0] for v in NODE_VARIANTS],
                   'near_node_query_offset': NEAR,
                   'argument_arrangements': [a[0] for a in arrangements(8, False)] + ['every rotation offset for the period grid']},
        'required_classes': [
            'nodes-single', 'nodes-two', 'nodes-uniform', 'nodes-nonuniform', 'nodes-wide', 'q-on-node',
            'q-interior', 'q-below-range', 'q-above-range', 'q-nearer-upper-node', 'q-nearer-lower-node',
            'q-midpoint', 'table-int', 'left-on-node', 'left-between-nodes', 'left-above-last-node', 'left-scalar',
            'left-array', 'left-list', 'left-default-y',
            'roll-forward', 'roll-backward', 'roll-centre', 'roll-center', 'roll-window-1', 'roll-window-full',
            'roll-window-even', 'roll-window-odd', 'roll-constant-word', 'roll-list-int', 'roll-default-mode',
            'step-pow1', 'step-pow2', 'step-nonneg-data', 'step-neg-side-mean', 'step-list-int',
            'step-dir-penalised', 'step-dir-unchanged', 'step-dir-ambiguous', 'levels-interior',
            'levels-auto-interior', 'levels-auto-edge', 'levels-end-split',
            'spectra-at-boundary', 'spectra-interior', 'spectra-T0', 'spectra-beyond-corner', 'spectra-scalar-form',
            'spectra-array-form', 'spectra-list-form', 'spectra-tuple-form', 'spectra-int-list-form',
            'spectra-int-tuple-form', 'spectra-int-ndarray-form', 'sd-array-form', 'sd-int-container-form',
            'teff-below-corner', 'teff-beyond-corner',
            'reject-negative-period', 'reject-negative-int-period', 'reject-site-class',
            'argument-reused', 'aba-interp', 'aba-roll', 'aba-spectra', 'step-default-after-explicit',
            'variant-ndarray-i64', 'variant-tuple-int', 'variant-ndarray-i16-transformed', 'variant-ndarray-u8-transformed',
            'arranged-descending', 'arranged-rotated', 'arranged-unordered', 'arranged-repeated',
            'variant-ndarray-f32', 'variant-ndarray-f64-transformed', 'interp-variant-nodes-transformed',
            'interp-variant-table-transformed', 'zr-product-above-0.7', 'zr-product-at-most-0.7'],
        'assumptions': [
            'node sets, table entries, sample values, window sizes, powers and (Z,R,N) outside the menus are not '
            'examined; decreasing node sets and interp_left queries below the first node are outside the documented '
            'domains',
            'for an even window the centred window is taken as floor(steps/2) samples before and steps-floor(steps/2)-1 '
            'after the current sample (the pinned convention; the statement does not say which side gets the extra one)',
            'split i of the step fit: left side = samples 0..i, right side = samples i+1.. (last index = no split, '
            'whole record about its mean); step levels: means of samples before / after the split sample',
            'dir option (docstring only): a split is decided when the comparison of the left mean with the mean of '
            'the samples after the split and with the mean of the samples from the split sample on agree; other '
            'splits may be penalised or not',
            'ind=None: any arg-min of the exact pow=1 error is accepted; a level on an empty side is unconstrained',
            'design spectra: only relations between c_h_factor, sd_nzs and t_eff are checked (no external table); '
            'corner displacement d_c = sd_nzs(3.0) * 9.81 / (2 pi)^2',
            'sd_nzs is documented as "period: float or array", so array periods are in its domain',
            'a query leaves its argument containers unchanged (bit for bit) and returns arrays the caller may overwrite',
            'query / period arrays may come in any order and may repeat values (nothing in the documentation asks for sorted '
            'queries; only the NODES of the interpolation helpers are required to increase): the result for an element does '
            'not depend on its position',
            'transformed variants: samples w*mult+offset exactly representable in the stated type; references are exact '
            'rationals of the values actually passed, tolerances relative to their peak; integer and float32 input of the '
            'step error is not examined beyond the historical int list (open finding step-error-int-truncation; float32 input '
            'is answered in float32); float32 input of the step levels is answered in float32 and not examined',
            'RESTRICTED: node sets scaled by 2^-30 are not in the menu (interp2d clips node spacings at 1e-10: reported '
            'violation on the unchanged tree for nodes closer than 1e-10); the scaled-node variants use 2^-20 and 2^20',
            'a bare Python int as scalar period (c_h_factor(2)) is not examined: the scalar form is exercised with float '
            'and numpy.float64 only; whole-second periods are examined inside list / tuple / ndarray containers'],
    }


# ------------------------------------------------------------------------------------- references
def ref_lin(q, xf, col):
    """Column value at q: linear interpolation between the bracketing nodes, end values outside."""
    Q = Fraction(q)
    X = [Fraction(x) for x in xf]
    if Q <= X[0]:
        return Fraction(col[0])
    if Q >= X[-1]:
        return Fraction(col[-1])
    for i in range(len(X) - 1):
        if X[i] <= Q <= X[i + 1]:
            t = (Q - X[i]) / (X[i + 1] - X[i])
            return col[i] * (1 - t) + col[i + 1] * t
    raise AssertionError('unbracketed query')


def ref_left_index(q, xf):
    """Index of the greatest node not exceeding q (q >= xf[0])."""
    best = None
    for i, x in enumerate(xf):
        if x <= q:
            best = i
    return best


def query_menu(xf):
    qs = set(xf)
    qs.add(xf[0] - 1.0)
    qs.add(xf[-1] + 1.0)
    for a, b in zip(xf, xf[1:]):
        qs.update(((a + b) / 2, 0.75 * a + 0.25 * b, 0.25 * a + 0.75 * b, 0.51 * a + 0.49 * b, 0.49 * a + 0.51 * b))
    return sorted(qs)


def ref_roll(w, steps, mode):
    n = len(w)
    out = []
    for i in range(n):
        if mode == 'forward':
            lo = i
        elif mode == 'backward':
            lo = i - steps + 1
        else:
            lo = i - steps // 2
        tot = 0
        for j in range(lo, lo + steps):
            tot += w[min(max(j, 0), n - 1)]
        out.append(tot / steps)
    return out


def side_dev(side, p):
    """sum |x - mean(side)|^p exactly (integer samples)."""
    m = len(side)
    if m == 0:
        return Fraction(0)
    s = sum(side)
    return Fraction(sum(abs(m * x - s) ** p for x in side), m ** p)


def ref_step_err(w, p):
    return [side_dev(w[:i + 1], p) + side_dev(w[i + 1:], p) for i in range(len(w))]


def mean_fr(xs):
    return Fraction(sum(xs), len(xs)) if len(xs) else None


# ------------------------------------------------------------------------------- shared arguments
class Shared(object):
    """One argument container that is handed, as the same object, to a whole sequence of calls (the way a caller
    evaluates several windows / modes / query sets on one series or table).  A query leaves its arguments alone: the
    container is snapshot-checked after every call (and restored if it was modified, so that the remaining
    comparisons of the case keep their meaning)."""

    def __init__(self, name, obj):
        self.name = name
        self.obj = obj
        self.snap = snapshot(obj)
        self.saved = obj.copy() if isinstance(obj, np.ndarray) else (list(obj) if isinstance(obj, list) else obj)

    def verify(self, r, sub):
        r.n_cmp += 1
        r.cls('argument-reused')
        if snapshot(self.obj) != self.snap:
            r.fail('argument-unchanged', dict(sub, argument=self.name),
                   "the caller's %s was modified by the call" % self.name, observed=self.obj, expected=self.saved)
            if isinstance(self.obj, np.ndarray):
                self.obj[...] = self.saved
            elif isinstance(self.obj, list):
                self.obj[:] = self.saved


def call_shared(r, claim, sub, shared, fn, *args, **kw):
    """r.call + (d) the returned array is overwritten in place after a private copy was taken (a result that is a view
    of an argument or of something the function keeps would show in the argument snapshots / in the next call) +
    the snapshot check of every shared argument."""
    ok, out = r.call(claim, sub, fn, *args, **kw)
    if ok and isinstance(out, np.ndarray) and out.ndim >= 1 and out.size:
        keep = out.copy()
        try:
            out[...] = 77
        except Exception:
            pass
        out = keep
    for sh in shared:
        sh.verify(r, sub)
    return ok, out


def affine(v, mult, offset):
    """exact rational of the transformed sample"""
    return Fraction(v) * Fraction(mult) + Fraction(offset)


def build_arr(vals_fr, typ):
    """container of the exact rationals (all exactly representable in the requested type)"""
    if typ is tuple:
        return tuple(int(v) for v in vals_fr)
    if typ is list:
        return [int(v) for v in vals_fr]
    if typ in (float, np.float32):
        a = np.array([float(v) for v in vals_fr], dtype=typ)
    else:
        a = np.array([int(v) for v in vals_fr], dtype=typ)
    assert all(Fraction(float(x)) == v for x, v in zip(a.ravel().tolist(), vals_fr)), 'sample not representable'
    return a


# ------------------------------------------------------------------------------------------ interp
def near_queries(xf, unit):
    return sorted(set([x - NEAR * unit for x in xf] + [x + NEAR * unit for x in xf]))


def run_interp(r, case):
    xf = [float(x) for x in case['xf']]
    table = case['f']
    ncol = len(table[0])
    cols = [[table[i][j] for i in range(len(xf))] for j in range(ncol)]
    r.cls('nodes-' + case['set'])
    if any(any(row) for row in table):
        r.nontrivial += 1
    qs = query_menu(xf)
    base = {'set': case['set'], 'xf': xf, 'f': table}
    scale = float(max(1, max(abs(v) for row in table for v in row)))
    for q in qs:
        if q in xf:
            r.cls('q-on-node')
        elif q < xf[0]:
            r.cls('q-below-range')
        elif q > xf[-1]:
            r.cls('q-above-range')
        else:
            r.cls('q-interior')
            lo = max(x for x in xf if x < q)
            hi = min(x for x in xf if x > q)
            if q - lo == hi - q:
                r.cls('q-midpoint')
            elif q - lo < hi - q:
                r.cls('q-nearer-lower-node')
            else:
                r.cls('q-nearer-upper-node')
    want = [[float(ref_lin(q, xf, c)) for c in cols] for q in qs]
    # the node array and the table are built once per variant and the SAME objects go into every call of the variant
    xf_a = np.array(xf)
    f_a = np.array(table, dtype=float)
    sh_x = Shared('xf', xf_a)
    sh_f = Shared('f', f_a)
    variants = [('float', sh_x, sh_f)]
    if all(x == int(x) for x in xf):
        variants.append(('int', Shared('xf', np.array([int(x) for x in xf])), Shared('f', np.array(table, dtype=np.int64))))
        r.cls('table-int')
    first = {}
    for vname, sx, sf in variants:
        for order, qv, wv in (('sorted', qs, want), ('reversed', qs[::-1], want[::-1])):
            sub = dict(base, fn='interp2d', dtype=vname, x=order)
            r.states += 1
            if order == 'reversed':
                r.transitions += 1
            sq = Shared('x', np.array(qv))
            ok, out = call_shared(r, 'interp2d', sub, (sq, sx, sf), fns.interp2d, sq.obj, sx.obj, sf.obj)
            if ok:
                r.expect_close('interp2d', sub, out, wv, rtol=1e-9, atol=1e-12, scale=scale)
                first[(vname, order)] = out
    # (e) A-B-A: the sorted query set again after the reversed one (same length, same end values up to order) - same answer
    if ('float', 'sorted') in first:
        sub = dict(base, fn='interp2d', dtype='float', x='sorted', when='again-after-reversed')
        r.states += 1
        r.transitions += 1
        r.cls('aba-interp')
        ok, out = call_shared(r, 'interp2d.repeatable', sub, (sh_x, sh_f), fns.interp2d, np.array(qs), xf_a, f_a)
        if ok:
            r.expect('interp2d.repeatable', sub, bits_equal(out, first[('float', 'sorted')]),
                     'the same call gives a different result after a call with other queries', observed=out,
                     expected=first[('float', 'sorted')])
    # query arrays that are not ascending (the reversed one is above): unordered, rotated, repeated
    for aname, perm in arrangements(len(qs), False)[1:]:
        sub = dict(base, fn='interp2d', dtype='float', x=aname)
        r.states += 1
        r.transitions += 1
        arrangement_class(r, aname)
        sq = Shared('x', np.array([qs[i] for i in perm]))
        ok, out = call_shared(r, 'interp2d.arrangement', sub, (sq, sh_x, sh_f), fns.interp2d, sq.obj, xf_a, f_a)
        if ok:
            r.expect_close('interp2d.arrangement', sub, out, [want[i] for i in perm], rtol=1e-9, atol=1e-12, scale=scale,
                           what='row i vs the column-wise interpolation at query i of the arrangement')
    for q, wq in zip(qs, want):
        sub = dict(base, fn='interp2d', dtype='float', x=[q])
        r.states += 1
        ok, out = call_shared(r, 'interp2d', sub, (sh_x, sh_f), fns.interp2d, np.array([q]), xf_a, f_a)
        if ok:
            r.expect_close('interp2d', sub, out, [wq], rtol=1e-9, atol=1e-12, scale=scale)

    # ---- interp_left: value at the greatest node not exceeding the query
    ql = [q for q in qs if q >= xf[0]]
    idx = [ref_left_index(q, xf) for q in ql]
    for q in ql:
        r.cls('left-on-node' if q in xf else 'left-above-last-node' if q > xf[-1] else 'left-between-nodes')
    sh_ql = Shared('x0', np.array(ql))
    for j, c in enumerate(cols):
        yw = [float(c[i]) for i in idx]
        sh_y = Shared('y', np.array(c, dtype=float))
        sub = dict(base, fn='interp_left', col=j, x0='ndarray')
        r.states += 1
        r.cls('left-array')
        ok, out = call_shared(r, 'interp_left', sub, (sh_ql, sh_x, sh_y), fns.interp_left, sh_ql.obj, xf_a, sh_y.obj)
        if ok:
            r.expect_close('interp_left', sub, out, yw, rtol=1e-12, atol=0.0, scale=scale)
        sub = dict(base, fn='interp_left', col=j, x0='list')
        r.states += 1
        r.cls('left-list')
        lists = (Shared('x0', list(ql)), Shared('x', list(xf)), Shared('y', [float(v) for v in c]))
        ok, out = call_shared(r, 'interp_left', sub, lists, fns.interp_left, lists[0].obj, lists[1].obj, lists[2].obj)
        if ok:
            r.expect_close('interp_left', sub, out, yw, rtol=1e-12, atol=0.0, scale=scale)
        for q, y1 in zip(ql, yw):
            sub = dict(base, fn='interp_left', col=j, x0=q)
            r.states += 1
            r.cls('left-scalar')
            ok, out = call_shared(r, 'interp_left', sub, (sh_x, sh_y), fns.interp_left, q, xf_a, sh_y.obj)
            if ok:
                r.expect_close('interp_left', sub, out, y1, rtol=1e-12, atol=0.0, scale=scale)
    # query arrays / lists that are not ascending: column 0 and the default y (node indices)
    sh_y0 = Shared('y', np.array(cols[0], dtype=float))
    for aname, perm in arrangements(len(ql), False):
        arrangement_class(r, aname)
        for form in ('ndarray', 'list'):
            sub = dict(base, fn='interp_left', col=0, x0=form, arrangement=aname)
            r.states += 2
            r.transitions += 2
            sq = Shared('x0', np.array([ql[i] for i in perm]) if form == 'ndarray' else [ql[i] for i in perm])
            ok, out = call_shared(r, 'interp_left.arrangement', sub, (sq, sh_x, sh_y0), fns.interp_left, sq.obj, xf_a, sh_y0.obj)
            if ok:
                r.expect_close('interp_left.arrangement', sub, out, [float(cols[0][idx[i]]) for i in perm], rtol=1e-12, atol=0.0,
                               scale=scale, what='element i vs the value at the greatest node not exceeding query i of the arrangement')
            sub = dict(base, fn='interp_left', col=None, x0=form, arrangement=aname)
            ok, out = call_shared(r, 'interp_left.arrangement', sub, (sq, sh_x), fns.interp_left, sq.obj, xf_a)
            if ok:
                r.expect_ints('interp_left.arrangement', sub, out, [idx[i] for i in perm])
    sub = dict(base, fn='interp_left', col=None, x0='ndarray')
    r.states += 1
    r.cls('left-default-y')
    ok, out = call_shared(r, 'interp_left.default-y', sub, (sh_ql, sh_x), fns.interp_left, sh_ql.obj, xf_a)
    if ok:
        r.expect_ints('interp_left.default-y', sub, out, idx)
        r.expect('interp_left.default-y', sub, np.shape(out) == (len(ql),), 'shape %s' % (np.shape(out),), observed=out)
    for q, i1 in zip(ql, idx):
        sub = dict(base, fn='interp_left', col=None, x0=q)
        r.states += 1
        ok, out = r.call('interp_left.default-y', sub, fns.interp_left, q, list(xf))
        if ok:
            r.expect('interp_left.default-y', sub, np.ndim(out) == 0 and _is_int(out) and int(out) == i1,
                     'scalar query %r -> %r, expected node index %d' % (q, out, i1), observed=out, expected=i1)

    # ---- variants: (nodes, queries) scaled / shifted, and tables in other dtypes / scales; every variant also gets
    #      queries 1e-7 (relative to the variant's unit) on either side of every node.  References: exact rationals of
    #      the values actually passed.
    def block(ntag, nmult, noff, ttag, tmult, toff, ttyp):
        xv = [float(affine(Fraction(x), nmult, noff)) for x in xf]      # rounded to float; the reference uses these floats
        unit = float(nmult)
        qv = sorted(set(query_menu(xv)) | set(near_queries(xv, unit)))
        colv = [[affine(v, tmult, toff) for v in c] for c in cols]
        wantv = [[float(ref_lin(q, xv, c)) for c in colv] for q in qv]
        sc = float(max(abs(v) for c in colv for v in c)) or float(tmult)
        sub0 = dict(base, nodes=ntag, table=ttag)
        r.cls('interp-variant-nodes-%s' % ('plain' if ntag == 'x' else 'transformed'))
        r.cls('interp-variant-table-%s' % ('plain' if ttag == 'f64' else 'transformed'))
        sx = Shared('xf', np.array(xv))
        sf = Shared('f', build_arr([affine(v, tmult, toff) for row in table for v in row], ttyp).reshape(len(xf), ncol))
        for order, qq, ww in (('sorted', qv, wantv), ('reversed', qv[::-1], wantv[::-1])):
            sub = dict(sub0, fn='interp2d', x=order)
            r.states += 1
            sq = Shared('x', np.array(qq))
            ok, out = call_shared(r, 'interp2d', sub, (sq, sx, sf), fns.interp2d, sq.obj, sx.obj, sf.obj)
            if ok:
                r.expect_close('interp2d', sub, out, ww, rtol=1e-9, atol=0.0, scale=sc)
        qlv = [q for q in qv if q >= xv[0]]
        idv = [ref_left_index(q, xv) for q in qlv]
        sq = Shared('x0', np.array(qlv))
        for j, c in enumerate(colv):
            sy = Shared('y', build_arr(c, ttyp))
            sub = dict(sub0, fn='interp_left', col=j, x0='ndarray')
            r.states += 1
            ok, out = call_shared(r, 'interp_left', sub, (sq, sx, sy), fns.interp_left, sq.obj, sx.obj, sy.obj)
            if ok:
                r.expect_close('interp_left', sub, out, [float(c[i]) for i in idv], rtol=1e-12, atol=0.0, scale=sc)
        sub = dict(sub0, fn='interp_left', col=None, x0='ndarray')
        r.states += 1
        ok, out = call_shared(r, 'interp_left.default-y', sub, (sq, sx), fns.interp_left, sq.obj, sx.obj)
        if ok:
            r.expect_ints('interp_left.default-y', sub, out, idv)

    block('x', 1, 0, 'f64', 1, 0, float)            # plain nodes and table with the near-node queries
    for ttag, tmult, toff, ttyp in TABLE_VARIANTS:
        block('x', 1, 0, ttag, tmult, toff, ttyp)
    for ntag, nmult, noff in NODE_VARIANTS:
        block(ntag, nmult, noff, 'f64', 1, 0, float)


def _no_warn(fn, *a, **k):
    import warnings
    with warnings.catch_warnings():
        warnings.simplefilter('ignore')
        return fn(*a, **k)


def _is_int(x):
    try:
        return float(x) == int(x)
    except Exception:
        return False


# -------------------------------------------------------------------------------------------- word
def run_word(r, case):
    w = [int(v) for v in case['w']]
    n = len(w)
    if len(set(w)) > 1:
        r.nontrivial += 1
    # the two historical containers: float64 ndarray (everything) and list of ints
    word_checks(r, w, 'ndarray-f64', 1, 0, float, 'rle', plain=True)
    if n > VARIANT_MAX_LEN:      # container / dtype / scale handling is not a pattern question: words up to this length, both tiers
        return
    for tag, mult, off, typ, kinds in WORD_VARIANTS:
        r.cls('variant-' + tag.split(' ')[0] + ('' if ' ' not in tag else '-transformed'))
        word_checks(r, w, tag, mult, off, typ, kinds, plain=False)


def word_checks(r, w, tag, mult, off, typ, kinds, plain):
    """All helper checks for one container of one word.  The container is built ONCE and the same object is handed to
    every call (all windows, modes, powers, dir options, splits); it is snapshot-checked after every call."""
    n = len(w)
    wx = [affine(v, mult, off) for v in w]                  # exact values actually passed
    unit = float(mult)
    amax = float(max(abs(v) for v in wx))
    const = len(set(w)) == 1
    sh = Shared('values', build_arr(wx, typ))
    arg = sh.obj
    sh_list = Shared('values', list(w)) if plain else None

    # ---- rolling average
    for steps in range(1, n + 1):
        if plain:
            r.cls('roll-window-even' if steps % 2 == 0 else 'roll-window-odd')
            if steps == 1:
                r.cls('roll-window-1')
            if steps == n:
                r.cls('roll-window-full')
        outs = {}
        plan = ((tag, sh, MODES), ('list-int', sh_list, (None, 'backward', 'centre'))) if plain else \
            ((tag, sh, ROLL_VARIANT_MODES),)
        for cont, shc, modes in plan:
            for mode in modes:
                sub = {'w': w, 'steps': steps, 'mode': mode, 'values': cont}
                rmode = 'forward' if mode is None else 'centre' if mode == 'center' else mode
                want = [float(v) for v in ref_roll(wx if cont == tag else w, steps, rmode)]
                r.states += 1
                if plain:
                    r.cls('roll-' + (mode or 'default-mode'))
                if cont == 'list-int':
                    r.cls('roll-list-int')
                if mode is None:
                    ok, out = call_shared(r, 'roll', sub, (shc,), fns.calc_roll_av_vals, shc.obj, steps)
                else:
                    ok, out = call_shared(r, 'roll', sub, (shc,), fns.calc_roll_av_vals, shc.obj, steps, mode=mode)
                if not ok:
                    continue
                try:
                    ln = len(out)
                except Exception:
                    ln = None
                sc = amax if cont == tag else float(max(abs(v) for v in w))
                r.expect('roll.length', sub, ln == n, 'output length %r, input length %d' % (ln, n), observed=out)
                r.expect_close('roll.mean', sub, out, want, rtol=1e-12, atol=1e-13 * unit, scale=sc)
                if const:
                    r.cls('roll-constant-word')
                    r.expect_close('roll.constant', sub, out, [float(wx[0] if cont == tag else w[0])] * n, rtol=1e-12,
                                   atol=1e-13 * unit, scale=sc)
                outs[(cont, mode)] = out
        if (tag, 'centre') in outs and (tag, 'center') in outs:
            r.transitions += 1
            r.expect_close('roll.centre-center', {'w': w, 'steps': steps}, outs[(tag, 'center')],
                           outs[(tag, 'centre')], rtol=1e-12, atol=1e-13, scale=float(amax))
        # (e) A-B-A: between two identical calls on the word, the same call on a word of the same length with the same
        # first and last sample (an interior sample differs): first and third result identical, second right
        if plain and n >= 3 and (tag, 'centre') in outs:
            wb = list(w)
            wb[n // 2] += 1
            sub = {'w': w, 'steps': steps, 'mode': 'centre', 'values': tag, 'between': wb}
            r.states += 2
            r.transitions += 2
            r.cls('aba-roll')
            okb, outb = r.call('roll', sub, fns.calc_roll_av_vals, np.array(wb, dtype=float), steps, mode='centre')
            if okb:
                r.expect_close('roll.mean', sub, outb, ref_roll(wb, steps, 'centre'), rtol=1e-12, atol=1e-13,
                               scale=float(max(abs(v) for v in wb)))
            ok3, out3 = call_shared(r, 'roll.repeatable', sub, (sh,), fns.calc_roll_av_vals, arg, steps, mode='centre')
            if ok3:
                r.expect('roll.repeatable', sub, bits_equal(out3, outs[(tag, 'centre')]),
                         'the same call gives a different result after a call on another series', observed=out3,
                         expected=outs[(tag, 'centre')])
    if n < 3:
        return

    # ---- step-function error
    if 'e' in kinds:
        neg_mean = any((sum(wx[:i + 1]) < 0) or (i + 1 < n and sum(wx[i + 1:]) < 0) or sum(wx[i:]) < 0 for i in range(n))
        data_cls = 'step-nonneg-data' if min(wx) >= 0 else 'step-neg-side-mean' if neg_mean else 'step-mixed-data'
    for p in ((1, 2) if 'e' in kinds else ()):
        if plain:
            r.cls('step-pow%d' % p)
            r.cls(data_cls)
        want = [float(e) for e in ref_step_err(wx, p)]
        scale = float(max(1, n * amax ** p)) if plain else max(unit ** p, n * amax ** p)
        sub = {'w': w, 'pow': p, 'values': tag}
        r.states += 1
        ok, e0 = call_shared(r, 'step-error', sub, (sh,), fns.calc_step_fn_vals_error, arg, pow=p)
        if ok:
            r.expect_close('step-error', sub, e0, want, rtol=1e-9, atol=0.0, scale=scale)
        # integer-valued list input: a dtype-handling question, not a pattern question - kept to words of length <= 6 in
        # both tiers (the open known finding 'step-error-int-truncation' lists every failing key of this sub-claim)
        if plain and n <= 6:
            sub = {'w': w, 'pow': p, 'values': 'list-int'}
            r.states += 1
            r.cls('step-list-int')
            ok2, e1 = r.call('step-error.int-input', sub, fns.calc_step_fn_vals_error, list(w), pow=p)
            if ok2:
                r.expect_close('step-error.int-input', sub, e1, want, rtol=1e-9, atol=0.0, scale=scale)
        # dir option: relation to the dir=None execution
        try:
            base = [float(v) for v in np.asarray(e0, dtype=float)] if ok else None
            if base is not None and (len(base) != n or not all(math.isfinite(v) for v in base)):
                base = None
        except Exception:
            base = None
        if base is None:
            r.disabled['step-dir (no usable dir=None result)'] += 2
            continue
        big = 10.0 * max(base)
        for d in ('up', 'down'):
            sub = {'w': w, 'pow': p, 'dir': d}
            if not plain:
                sub['values'] = tag
            r.states += 1
            r.transitions += 1
            ok, ed = call_shared(r, 'step-error.dir', sub, (sh,), fns.calc_step_fn_vals_error, arg, pow=p, dir=d)
            if not ok:
                continue
            try:
                ed = [float(v) for v in np.asarray(ed, dtype=float)]
                assert len(ed) == n
            except Exception:
                r.fail('step-error.dir', sub, 'malformed result', observed=ed)
                continue
            for i in range(n):
                pre = mean_fr(wx[:i + 1])
                post_a = mean_fr(wx[i + 1:])
                post_b = mean_fr(wx[i:])
                # the two executions differ in the dir option only: tolerance relative to the errors themselves for the
                # transformed variants (their absolute `scale` is dominated by the common level / the multiplier)
                tol = 1e-9 * scale if plain else 1e-9 * max(base)
                unchanged = abs(ed[i] - base[i]) <= tol
                penal = ed[i] >= big - 1e-9 * abs(big) - tol
                verdict = None      # True: wrong direction for d, False: allowed direction
                if post_a is not None:
                    sa = (post_a > pre) - (post_a < pre)
                    sb = (post_b > pre) - (post_b < pre)
                    if sa == sb and sa != 0:
                        verdict = (sa > 0) if d == 'down' else (sa < 0)
                s2 = dict(sub, split=i)
                if verdict is True:
                    r.cls('step-dir-penalised')
                    r.expect('step-error.dir', s2, penal, 'step in the unwanted direction not raised to 10 x max error '
                             '(%r, max error %r)' % (ed[i], big / 10.0), observed=ed, expected=base)
                elif verdict is False:
                    r.cls('step-dir-unchanged')
                    r.expect('step-error.dir', s2, unchanged, 'error of an allowed split changed (%r -> %r)'
                             % (base[i], ed[i]), observed=ed, expected=base)
                else:
                    r.cls('step-dir-ambiguous')
                    r.expect('step-error.dir', s2, unchanged or penal, 'error neither unchanged nor 10 x max error '
                             '(%r -> %r)' % (base[i], ed[i]), observed=ed, expected=base)
        # explicit options followed by a call that relies on the defaults (pow=1, dir=None) on the same array
        if p == 2:
            sub = {'w': w, 'pow': 'default-after-pow2-dir', 'values': tag}
            r.states += 1
            r.transitions += 1
            r.cls('step-default-after-explicit')
            ok, ed = call_shared(r, 'step-error', sub, (sh,), fns.calc_step_fn_vals_error, arg)
            if ok:
                r.expect_close('step-error', sub, ed, [float(e) for e in ref_step_err(wx, 1)], rtol=1e-9, atol=0.0,
                               scale=float(max(1, n * amax)) if plain else max(unit, n * amax))

    # ---- step levels
    if 'l' not in kinds:
        return
    lev_tol = dict(rtol=1e-12, atol=1e-13 * unit, scale=float(amax))
    for ind in range(1, n - 1):
        want = (float(mean_fr(wx[:ind])), float(mean_fr(wx[ind + 1:])))
        for cont, shc in (((tag, sh), ('list-int', sh_list)) if plain else ((tag, sh),)):
            sub = {'w': w, 'ind': ind, 'values': cont}
            r.states += 1
            if plain:
                r.cls('levels-interior')
            ok, out = call_shared(r, 'step-levels', sub, (shc,), fns.calc_step_fn_steps_vals, shc.obj, ind)
            if ok:
                try:
                    pre, post = out
                except Exception:
                    r.fail('step-levels', sub, 'result is not a (pre, post) pair', observed=out)
                    continue
                r.expect_close('step-levels', sub, [pre, post], list(want), **lev_tol)
    # split sample at either end of the series (ind = 0 is a falsy index and not the default None; ind = n-1 is the last one):
    # the side that has samples is their mean, the level of the empty side is unconstrained
    for ind, side in ((0, 'post'), (n - 1, 'pre')):
        want1 = float(mean_fr(wx[1:])) if side == 'post' else float(mean_fr(wx[:n - 1]))
        sub = {'w': w, 'ind': ind, 'values': tag}
        r.states += 1
        if plain:
            r.cls('levels-end-split')
        with np.errstate(all='ignore'):
            ok, out = call_shared(r, 'step-levels', sub, (sh,), _no_warn, fns.calc_step_fn_steps_vals, arg, ind)
        if ok:
            try:
                pre, post = out
            except Exception:
                r.fail('step-levels', sub, 'result is not a (pre, post) pair', observed=out)
                continue
            r.expect_close('step-levels', sub, [post if side == 'post' else pre], [want1], **lev_tol)
    if 'e' not in kinds:
        return
    err1 = ref_step_err(wx, 1)
    emin = min(err1)
    amin = [i for i in range(n) if err1[i] == emin]
    sub = {'w': w, 'ind': None}
    if not plain:
        sub['values'] = tag
    r.states += 1
    r.transitions += 1
    if plain:
        r.cls('levels-auto-interior' if all(0 < i < n - 1 for i in amin) else 'levels-auto-edge')
    ok, out = call_shared(r, 'step-levels.auto', sub, (sh,), fns.calc_step_fn_steps_vals, arg)
    if ok:
        try:
            pre, post = out
            pre = float(pre)
            post = float(post)
        except Exception:
            r.fail('step-levels.auto', sub, 'result is not a (pre, post) pair of numbers', observed=out)
            return
        good = False
        cands = []
        tol = 1e-12 * amax + 1e-13 * unit
        for i in amin:
            a = mean_fr(wx[:i])
            b = mean_fr(wx[i + 1:])
            cands.append((None if a is None else float(a), None if b is None else float(b)))
            if (a is None or abs(pre - float(a)) <= tol) and (b is None or abs(post - float(b)) <= tol):
                good = True
        r.expect('step-levels.auto', sub, good, 'levels (%r, %r) are not the side means at any minimum-error split %s'
                 % (pre, post, amin), observed=[pre, post], expected=cands)


# ----------------------------------------------------------------------------------------- spectra
def _quiet(fn, *a, **k):
    with contextlib.redirect_stdout(io.StringIO()):
        return fn(*a, **k)


def must_raise(r, claim, sub, fn, *a):
    r.evals += 1
    r.n_cmp += 1
    try:
        out = _quiet(fn, *a)
    except ValueError:
        return True
    except Exception as e:
        return r.fail(claim, sub, 'raises %s instead of ValueError: %s' % (type(e).__name__, str(e)[:200]))
    return r.fail(claim, sub, 'returned %r instead of raising ValueError' % (out,), observed=out)


def run_spectra(r, case):
    sc = case['sc']
    z, rf, nf = [float(v) for v in case['zrn']]
    r.nontrivial += 1
    r.cls('zr-product-above-0.7' if Fraction(repr(z)) * Fraction(repr(rf)) > Fraction('0.7') else 'zr-product-at-most-0.7')
    ts = period_grid()
    base = {'sc': sc, 'zrn': [z, rf, nf]}
    ds = design_spectra

    # ---- call forms of c_h_factor
    ch = {}
    for t in ts:
        sub = dict(base, T=t, form='float')
        r.states += 1
        r.cls('spectra-scalar-form')
        if t == 0:
            r.cls('spectra-T0')
        elif any(abs(t - tb) <= 2 * EPS_T for tb in BOUNDS_T):
            r.cls('spectra-at-boundary')
        elif t > 3.0:
            r.cls('spectra-beyond-corner')
        else:
            r.cls('spectra-interior')
        ok, out = r.call('ch.forms', sub, _quiet, ds.c_h_factor, float(t), sc)
        if ok:
            good = r.expect('ch.forms', sub, np.ndim(out) == 0 and _finite(out) and float(out) > 0,
                            'scalar period does not give a positive finite scalar: %r' % (out,), observed=out)
            if good:
                ch[t] = float(out)
    if len(ch) == len(ts):
        want = [ch[t] for t in ts]
        for form, arg in (('ndarray', np.array(ts)), ('list', list(ts)), ('tuple', tuple(ts)), ('np.float64', None)):
            sub = dict(base, form=form)
            r.states += 1
            r.transitions += 1
            if form == 'np.float64':
                ok, out = r.call('ch.forms', sub, lambda: [_quiet(ds.c_h_factor, np.float64(t), sc) for t in ts])
            else:
                r.cls('spectra-array-form' if form == 'ndarray' else 'spectra-%s-form' % form)
                ok, out = r.call('ch.forms', sub, _quiet, ds.c_h_factor, arg, sc)
            if ok:
                r.expect_close('ch.forms', sub, out, want, rtol=1e-12, atol=0.0)
                if form == 'ndarray':
                    r.expect('ch.argument-unchanged', sub, _same_container(arg, np.array(ts)),
                             'c_h_factor modified the period array', observed=arg, expected=ts)
        # (e) A-B-A: the grid, another period list of the same length with the same first and last period, the grid again
        other = [ts[0]] + [0.5 * (a + b) for a, b in zip(ts[1:-1], ts[2:])] + [ts[-1]]
        sub = dict(base, form='list', when='again-after-other-periods')
        r.states += 3
        r.transitions += 2
        r.cls('aba-spectra')
        for fname, fn, extra in (('ch', ds.c_h_factor, (sc,)), ('sd', ds.sd_nzs, (sc, z, rf, nf))):
            res = []
            for arg in (list(ts), other, list(ts)):
                ok, out = r.call(fname + '.repeatable', dict(sub, fn=fname), _quiet, fn, arg, *extra)
                res.append(np.array(out, dtype=float) if ok else None)
            if res[0] is not None and res[2] is not None:
                r.expect(fname + '.repeatable', dict(sub, fn=fname), bits_equal(res[0], res[2]),
                         'the same call gives a different result after a call with other periods', observed=res[2],
                         expected=res[0])

    # ---- S_d = C_h(T) T^2 Z N R
    sd = {}
    for t in ts:
        sub = dict(base, T=t)
        r.states += 1
        ok, out = r.call('sd-identity', sub, ds.sd_nzs, float(t), sc, z, rf, nf)
        if ok and t in ch:
            r.transitions += 1
            want = ch[t] * t ** 2 * z * nf * rf
            if r.expect_close('sd-identity', sub, out, want, rtol=1e-12, atol=0.0):
                sd[t] = float(out)
    for name, arr in (([0.5, 2.0], [0.5, 2.0]), ('grid', ts)):
        sub = dict(base, T=name, form='ndarray')
        r.states += 1
        r.cls('sd-array-form')
        ok, out = r.call('sd-array-form', sub, ds.sd_nzs, np.array(arr), sc, z, rf, nf)
        if ok and all(t in sd for t in arr):
            r.expect_close('sd-array-form', sub, out, [sd[t] for t in arr], rtol=1e-12, atol=0.0)

    # ---- integer-typed (and mixed) period containers: same C_h / S_d as the scalar float call for the same period, and
    #      the identity S_d = C_h T^2 Z N R between the two array results themselves
    chs, sds = dict(ch), dict(sd)
    for t in INT_T:
        tf = float(t)
        if tf not in ts:     # scalar float reference executions for the whole seconds that are not on the float grid
            sub = dict(base, T=tf, form='float')
            r.states += 1
            ok, out = r.call('ch.forms', sub, _quiet, ds.c_h_factor, tf, sc)
            if ok and r.expect('ch.forms', sub, np.ndim(out) == 0 and _finite(out) and float(out) > 0,
                               'scalar period does not give a positive finite scalar: %r' % (out,), observed=out):
                chs[tf] = float(out)
            sub = dict(base, T=tf)
            r.states += 1
            ok, out = r.call('sd-identity', sub, ds.sd_nzs, tf, sc, z, rf, nf)
            if ok and tf in chs:
                r.transitions += 1
                if r.expect_close('sd-identity', sub, out, chs[tf] * tf ** 2 * z * nf * rf, rtol=1e-12, atol=0.0):
                    sds[tf] = float(out)
    containers = (('list-int', 'whole-seconds', lambda: [int(t) for t in INT_T], INT_T),
                  ('tuple-int', 'whole-seconds', lambda: tuple(int(t) for t in INT_T), INT_T),
                  ('ndarray-int64', 'whole-seconds', lambda: np.array(INT_T, dtype=np.int64), INT_T),
                  ('ndarray-int32', 'whole-seconds', lambda: np.array(INT_T, dtype=np.int32), INT_T),
                  ('list-int', [2], lambda: [2], (2,)),
                  ('ndarray-int64', [3], lambda: np.array([3], dtype=np.int64), (3,)),
                  ('list-mixed-int-float', 'mixed', lambda: list(MIXED_T), MIXED_T))
    for form, name, mk, tvals in containers:
        tfl = [float(t) for t in tvals]
        sub = dict(base, T=name, form=form)
        r.cls('spectra-int-%s-form' % form.split('-')[0])
        r.states += 2
        arg = mk()
        ok1, out_ch = r.call('ch.forms', sub, _quiet, ds.c_h_factor, arg, sc)
        if ok1:
            r.expect('ch.argument-unchanged', sub, _same_container(arg, mk()),
                     'c_h_factor modified the period container', observed=arg, expected=mk())
            if all(t in chs for t in tfl):
                r.transitions += 1
                ok1 = r.expect_close('ch.forms', sub, out_ch, [chs[t] for t in tfl], rtol=1e-12, atol=0.0,
                                     what='C_h for periods %r given as %s vs the scalar float calls' % (list(tvals), form))
        arg = mk()
        r.cls('sd-int-container-form')
        ok2, out_sd = r.call('sd-array-form', sub, ds.sd_nzs, arg, sc, z, rf, nf)
        if ok2:
            r.expect('sd.argument-unchanged', sub, _same_container(arg, mk()),
                     'sd_nzs modified the period container', observed=arg, expected=mk())
            if all(t in sds for t in tfl):
                r.transitions += 1
                ok2 = r.expect_close('sd-array-form', sub, out_sd, [sds[t] for t in tfl], rtol=1e-12, atol=0.0,
                                     what='S_d for periods %r given as %s vs the scalar float calls' % (list(tvals), form))
        if ok1 and ok2:
            r.transitions += 1
            try:
                want = [float(c) * t ** 2 * z * nf * rf for c, t in zip(np.asarray(out_ch, dtype=float), tfl)]
            except Exception:
                r.fail('sd-identity', sub, 'C_h result cannot be combined with the periods', observed=out_ch)
                continue
            r.expect_close('sd-identity', sub, out_sd, want, rtol=1e-12, atol=0.0,
                           what='sd_nzs(periods) vs c_h_factor(periods) T^2 Z N R, both with periods given as %s' % form)

    # ---- period containers that are not ascending: descending, every cyclic rotation of the ascending and of the descending
    #      grid, interleaved, outside-in, repeated - element by element the scalar-call values of the same periods (which the
    #      identity S_d = C_h T^2 Z N R was checked on above); the whole-second periods likewise in integer-typed containers
    plans = []
    if len(ch) == len(ts) and len(sd) == len(ts):
        plans.append(('grid', ts, ch, sd, True, (('ndarray', lambda v: np.array(v)), ('list', list))))
    if all(float(t) in chs and float(t) in sds for t in INT_T):
        plans.append(('whole-seconds', [int(t) for t in INT_T], chs, sds, False,
                      (('ndarray-int64', lambda v: np.array(v, dtype=np.int64)), ('list-int', list), ('tuple-int', tuple))))
    for pname, tvals, chref, sdref, all_rot, forms in plans:
        for aname, perm in arrangements(len(tvals), all_rot):
            arrangement_class(r, aname)
            tp = [tvals[i] for i in perm]
            for form, mk in forms:
                sub = dict(base, T=pname, form=form, arrangement=aname)
                r.states += 2
                r.transitions += 2
                for fname, fn, extra, ref in (('ch', ds.c_h_factor, (sc,), chref), ('sd', ds.sd_nzs, (sc, z, rf, nf), sdref)):
                    arg = mk(tp)
                    ok, out = r.call(fname + '.arrangement', sub, _quiet, fn, arg, *extra)
                    if ok:
                        r.expect_close(fname + '.arrangement', sub, out, [ref[float(t)] for t in tp], rtol=1e-12, atol=0.0,
                                       what='element i vs the scalar call for period i of the arrangement')
                        r.expect(fname + '.argument-unchanged', sub, _same_container(arg, mk(tp)),
                                 'the period container was modified', observed=arg, expected=tp)

    # ---- continuity to table precision across every segment boundary
    for fname, tab in (('ch', ch), ('sd', sd)):
        for tb in (0.0,) + BOUNDS_T:
            if tb == 0.0:
                if fname == 'sd':
                    continue
                pts = (0.0, 1e-9)
            else:
                pts = (tb - EPS_T, tb, tb + EPS_T)
            if not all(t in tab for t in pts):
                r.disabled['continuity (value missing)'] += 1
                continue
            vals = [tab[t] for t in pts]
            sub = dict(base, fn=fname, boundary=tb)
            r.transitions += len(pts) - 1
            gap = max(vals) - min(vals)
            r.expect('continuity.' + fname, sub, gap <= CONT_TOL * max(abs(v) for v in vals),
                     'jump of %.3g %% across T = %r' % (100 * gap / max(abs(v) for v in vals), tb),
                     observed=vals)

    # ---- effective period inverts the corner-period displacement relation
    ok, sd3 = r.call('teff.corner', dict(base, T=3.0), ds.sd_nzs, 3.0, sc, z, rf, nf)
    if not ok or not _finite(sd3):
        return
    d_c = float(sd3) * G / (2 * math.pi) ** 2
    for f in (0.0, 0.25, 0.5, 1 - 1e-9):
        sub = dict(base, frac=f)
        r.states += 1
        r.transitions += 1
        r.cls('teff-below-corner')
        ok, out = r.call('teff.corner', sub, ds.t_eff, f * d_c, sc, z, rf, nf)
        if ok:
            r.expect_close('teff.corner', sub, out, 3.0 * f, rtol=1e-9, atol=0.0, scale=3.0)
    for t in (1.5, 2.0, 2.5, 3.0 - 1e-9):
        sub = dict(base, T=t)
        r.states += 1
        r.transitions += 1
        ok, s = r.call('teff.inverts-sd', sub, ds.sd_nzs, t, sc, z, rf, nf)
        if ok and _finite(s):
            ok, out = r.call('teff.inverts-sd', sub, ds.t_eff, float(s) * G / (2 * math.pi) ** 2, sc, z, rf, nf)
            if ok:
                r.expect_close('teff.inverts-sd', sub, out, t, rtol=1e-9, atol=0.0, scale=3.0)
    for f in (1 + 1e-6, 1.01, 2.0):
        sub = dict(base, frac=f)
        r.states += 1
        r.cls('teff-beyond-corner')
        must_raise(r, 'teff.rejects', sub, ds.t_eff, f * d_c, sc, z, rf, nf)


def _finite(x):
    try:
        return math.isfinite(float(x))
    except Exception:
        return False


def _same_container(a, b):
    """a (after the call) is still what a freshly built b is: type, dtype, element types and values."""
    try:
        if type(a) is not type(b):
            return False
        if isinstance(a, np.ndarray):
            return a.dtype == b.dtype and a.shape == b.shape and a.tobytes() == b.tobytes()
        return len(a) == len(b) and all(type(x) is type(y) and x == y for x, y in zip(a, b))
    except Exception:
        return False


def run_reject(r, case):
    ds = design_spectra
    r.nontrivial += 1
    for sc in SITE:
        for t in (-1e-9, -0.5):
            r.states += 3
            r.cls('reject-negative-period', 3)
            must_raise(r, 'rejects.negative-period', {'fn': 'c_h_factor', 'T': t, 'sc': sc, 'form': 'float'},
                       ds.c_h_factor, t, sc)
            must_raise(r, 'rejects.negative-period', {'fn': 'c_h_factor', 'T': [0.5, t], 'sc': sc, 'form': 'ndarray'},
                       ds.c_h_factor, np.array([0.5, t]), sc)
            must_raise(r, 'rejects.negative-period', {'fn': 'sd_nzs', 'T': t, 'sc': sc}, ds.sd_nzs, t, sc, 0.4, 1.0, 1.0)
        for form, arg in (('list-int', [1, -1]), ('ndarray-int64', np.array([1, -1], dtype=np.int64))):
            r.states += 2
            r.cls('reject-negative-period', 2)
            r.cls('reject-negative-int-period', 2)
            must_raise(r, 'rejects.negative-period', {'fn': 'c_h_factor', 'T': [1, -1], 'sc': sc, 'form': form},
                       ds.c_h_factor, arg, sc)
            must_raise(r, 'rejects.negative-period', {'fn': 'sd_nzs', 'T': [1, -1], 'sc': sc, 'form': form},
                       ds.sd_nzs, arg, sc, 0.4, 1.0, 1.0)
    for sc in ('B', 'X'):
        r.states += 4
        r.cls('reject-site-class', 4)
        must_raise(r, 'rejects.site-class', {'fn': 'c_h_factor', 'T': 0.5, 'sc': sc, 'form': 'float'},
                   ds.c_h_factor, 0.5, sc)
        must_raise(r, 'rejects.site-class', {'fn': 'c_h_factor', 'T': [0.5, 2.0], 'sc': sc, 'form': 'list'},
                   ds.c_h_factor, [0.5, 2.0], sc)
        must_raise(r, 'rejects.site-class', {'fn': 'sd_nzs', 'T': 0.5, 'sc': sc}, ds.sd_nzs, 0.5, sc, 0.4, 1.0, 1.0)
        must_raise(r, 'rejects.site-class', {'fn': 't_eff', 'd': 0.01, 'sc': sc}, ds.t_eff, 0.01, sc, 0.4, 1.0, 1.0)


# ---------------------------------------------------------------------------------------------------
# evenly spaced node sets as users write them (decimal steps: the nodes are not exactly evenly spaced in binary, and
# (x - x0) / step lands a hair below the whole number for many of them)
DECIMAL_GRIDS = {
    'k*0.01': lambda: [k * 0.01 for k in range(200)],
    '0.3+0.02*k': lambda: [0.3 + 0.02 * k for k in range(100)],
    'arange(0,5,0.1)': lambda: [float(v) for v in np.arange(0, 5, 0.1)],
    'linspace(0,1,11)': lambda: [float(v) for v in np.linspace(0, 1, 11)],
    'k/7': lambda: [k / 7.0 for k in range(60)],
    '1e-3*k+1e6': lambda: [1e6 + 1e-3 * k for k in range(50)],
}


def run_grid(r, case):
    """Long evenly spaced decimal node sets; the column is the node number, so the returned value names the node used.
    Queries: every node itself, the floats next to it on either side, every midpoint.  All comparisons of a query with the nodes
    are exact float comparisons (decided), so interp_left is compared exactly."""
    xf = DECIMAL_GRIDS[case['grid']]()
    n = len(xf)
    r.nontrivial += 1
    xa = np.array(xf)
    ya = np.arange(n, dtype=float)
    qs = []
    for k in range(n):
        qs.append(xf[k])
        qs.append(float(np.nextafter(xf[k], np.inf)))
        if k:
            qs.append(float(np.nextafter(xf[k], -np.inf)))
            qs.append(0.5 * (xf[k - 1] + xf[k]))
    qs = sorted(set(q for q in qs if q >= xf[0]))
    want = [float(max(i for i in range(n) if xf[i] <= q)) for q in qs]
    base = {'grid': case['grid']}
    r.cls('decimal-grid')
    for form, arg in (('ndarray', np.array(qs)), ('list', list(qs))):
        sub = dict(base, fn='interp_left', x0=form)
        r.states += 1
        ok, out = r.call('interp_left.decimal-grid', sub, fns.interp_left, arg, xa.copy(), ya.copy())
        if ok:
            try:
                o = np.asarray(out, dtype=float)
                bad = [i for i in range(len(qs))] if o.shape != (len(qs),) else [i for i in range(len(qs)) if o[i] != want[i]]
            except Exception:
                bad = list(range(len(qs)))
            r.n_cmp += len(qs)
            if bad:
                i = bad[0]
                r.fail('interp_left.decimal-grid', dict(sub, query=qs[i], on_node=bool(qs[i] in xf)),
                       'value is not that of the greatest node not exceeding the query (%d of %d queries; first: query %r -> %r, '
                       'expected node %d)' % (len(bad), len(qs), qs[i], (o[i] if np.ndim(o) == 1 and len(o) > i else out), int(want[i])),
                       observed=out, expected=want)
    nbad = 0
    first = None
    for q, wq in zip(qs, want):
        r.states += 1
        ok, out = r.call('interp_left.decimal-grid', dict(base, fn='interp_left', x0=q), fns.interp_left, q, xa, ya)
        r.n_cmp += 1
        if ok:
            try:
                good = float(out) == wq
            except Exception:
                good = False
            if not good:
                nbad += 1
                first = first or (q, out, wq)
    if nbad:
        r.fail('interp_left.decimal-grid', dict(base, fn='interp_left', x0='scalar', query=first[0], on_node=bool(first[0] in xf)),
               'scalar query: value is not that of the greatest node not exceeding the query (%d of %d queries; first: %r -> %r, '
               'expected node %d)' % (nbad, len(qs), first[0], first[1], int(first[2])), observed=first[1], expected=first[2])
    # table interpolation on the same grids: linear between the neighbouring nodes (the column is the node number, so the
    # expected value is node index + fraction of the interval)
    inside = [q for q in qs if q <= xf[-1]]
    wlin = []
    for q in inside:
        i = int(max(j for j in range(n) if xf[j] <= q))
        wlin.append(float(i) if i == n - 1 else i + (q - xf[i]) / (xf[i + 1] - xf[i]))
    sub = dict(base, fn='interp2d')
    r.states += 1
    ok, out = r.call('interp2d.decimal-grid', sub, fns.interp2d, np.array(inside), xa.copy(), ya.reshape(-1, 1).copy())
    if ok:
        r.expect_close('interp2d.decimal-grid', sub, np.asarray(out).reshape(-1) if np.size(out) == len(inside) else out, wlin,
                       rtol=1e-9, atol=1e-6, what='column = node number: node index + fraction of the interval')


def run_grid_history(r, case):
    """(i) The caller's query and node arrays refilled / rescaled IN PLACE between two calls (same objects, other content): the answer
    is the one for the content.  (ii) Node arrays of other number types (integer nodes with negative fractional queries, float32 nodes
    with float64 queries next to them): 'the greatest node not exceeding the query' is decided on the VALUES."""
    r.nontrivial += 1
    xf = np.array([0.0, 0.5, 3.0, 3.1, 7.0])
    f = np.array([[1.0, -2.0], [0.0, 4.0], [4.0, -1.0], [-1.0, 0.0], [2.0, 2.0]])
    q1 = [0.0, 0.25, 2.0, 3.05, 6.0, 7.0]
    q2 = [0.5, 1.75, 3.0, 3.1, 0.1, 5.0]

    def lin(qs, nodes, tab):
        return np.array([[float(np.interp(q, nodes, tab[:, c])) for c in range(tab.shape[1])] for q in qs])

    def left(qs, nodes, col):
        return [float(col[max(i for i in range(len(nodes)) if nodes[i] <= q)]) for q in qs]
    x = np.array(q1)
    base = {'family': 'arrays edited in place between calls'}
    for step, (edit, qs_now, nodes_now) in enumerate((
            (None, q1, xf.copy()),
            (lambda: x.__setitem__(Ellipsis, np.array(q2)), q2, xf.copy()),
            (lambda: xf.__imul__(2.0), q2, xf * 2.0),
            (lambda: x.__setitem__(Ellipsis, np.array(q1)), q1, xf * 2.0))):
        if edit is not None:
            edit()
        sub = dict(base, step=step, queries=list(qs_now), nodes=[float(v) for v in nodes_now])
        r.states += 1
        ok, out = r.call('interp2d.in-place-history', sub, fns.interp2d, x, xf, f)
        if ok:
            r.cls('query-array-refilled-in-place')
            r.expect_close('interp2d.in-place-history', sub, out, lin(qs_now, nodes_now, f), rtol=1e-9, atol=1e-12,
                           what='same array objects, content changed in place since the previous call')
        ok, out = r.call('interp_left.in-place-history', sub, fns.interp_left, x, xf, f[:, 0].copy())
        if ok:
            r.expect_close('interp_left.in-place-history', sub, out, left(qs_now, nodes_now, f[:, 0]), rtol=0.0, atol=0.0,
                           what='same array objects, content changed in place since the previous call')
    # (ii) number types of the nodes
    inodes = np.array([-3, -1, 0, 2, 5], dtype=np.int64)
    icol = np.array([10.0, 11.0, 12.0, 13.0, 14.0])
    iq = [-3.0, -2.5, -1.0, -0.5, -0.0001, 0.0, 0.5, 1.999, 2.0, 4.5, 5.0, 6.5]
    for form, arg in (('ndarray', np.array(iq)), ('list', list(iq))):
        sub = {'family': 'integer nodes, fractional queries', 'nodes': inodes.tolist(), 'x0': form}
        r.states += 1
        ok, out = r.call('interp_left.node-types', sub, fns.interp_left, arg, inodes.copy(), icol.copy())
        if ok:
            r.cls('integer-nodes-negative-fractional-query')
            r.expect_close('interp_left.node-types', sub, out, left(iq, inodes.tolist(), icol), rtol=0.0, atol=0.0)
    for q in iq:
        sub = {'family': 'integer nodes, fractional queries', 'nodes': inodes.tolist(), 'x0': q}
        ok, out = r.call('interp_left.node-types', sub, fns.interp_left, q, inodes.copy(), icol.copy())
        if ok:
            r.expect_close('interp_left.node-types', sub, out, left([q], inodes.tolist(), icol)[0], rtol=0.0, atol=0.0)
    f32 = np.array([0.1 * k for k in range(12)], dtype=np.float32)
    f32v = [float(v) for v in f32]                  # the node VALUES (exactly representable in float64)
    col32 = np.arange(12, dtype=float)
    fq = []
    for k in range(12):
        fq += [f32v[k], 0.1 * k] + ([float(np.nextafter(f32v[k], -np.inf))] if k else [])
    fq = sorted(set(q for q in fq if q >= f32v[0]))
    sub = {'family': 'float32 nodes, float64 queries next to them', 'x0': 'ndarray'}
    r.states += 1
    ok, out = r.call('interp_left.node-types', sub, fns.interp_left, np.array(fq), f32.copy(), col32.copy())
    if ok:
        r.cls('float32-nodes-float64-queries')
        r.expect_close('interp_left.node-types', sub, out, left(fq, f32v, col32), rtol=0.0, atol=0.0)
    for q in fq:
        sub = {'family': 'float32 nodes, float64 queries next to them', 'x0': q}
        ok, out = r.call('interp_left.node-types', sub, fns.interp_left, q, f32.copy(), col32.copy())
        if ok:
            r.expect_close('interp_left.node-types', sub, out, left([q], f32v, col32)[0], rtol=0.0, atol=0.0)


def run_case(case):
    r = Res()
    k = case['k']
    if k == 'interp':
        run_interp(r, case)
    elif k == 'word':
        run_word(r, case)
    elif k == 'spectra':
        run_spectra(r, case)
    elif k == 'grid':
        run_grid(r, case)
    elif k == 'gridhist':
        run_grid_history(r, case)
    else:
        run_reject(r, case)
    return r


def _arranged(values, name, all_rotations):
    for aname, perm in arrangements(len(values), all_rotations):
        if aname == name:
            return [values[i] for i in perm]
    return None


def snippet(case, v):
    sub = v.get('sub') or {}
    k = case.get('k')
    head = "import numpy as np, eqsig\nfrom eqsig import design_spectra as ds\ncase = %r\nsub = %r\n" % (case, sub)
    claim = v.get('claim', '')
    if claim.endswith('.arrangement') and k == 'spectra':
        whole = sub.get('T') == 'whole-seconds'
        tp = _arranged([int(t) for t in INT_T] if whole else period_grid(), sub.get('arrangement'), not whole)
        return head + ("T = %r   # the %s periods, %s\n"
                       "T = {'ndarray': np.array(T), 'ndarray-int64': np.array(T), 'tuple-int': tuple(T)}.get(sub['form'], T)\n"
                       "sc = case['sc']; z, r_, n = case['zrn']\n"
                       "print(ds.sd_nzs(T, sc, z, r_, n)); print([ds.sd_nzs(float(t), sc, z, r_, n) for t in T])\n"
                       "print(ds.c_h_factor(T, sc)); print([ds.c_h_factor(float(t), sc) for t in T])\n"
                       % (tp, sub.get('T'), sub.get('arrangement')))
    if claim.endswith('.arrangement') and k == 'interp':
        xf = [float(x) for x in case['xf']]
        qs = query_menu(xf)
        if sub.get('fn') == 'interp_left':
            qs = [q for q in qs if q >= xf[0]]
        qa = _arranged(qs, sub.get('arrangement', sub.get('x')), False)
        return head + ("x = %r   # the query menu, %s\n"
                       "xf = np.array(case['xf']); f = np.array(case['f'], float)\n"
                       "if sub['fn'] == 'interp2d': print(eqsig.fns.interp2d(np.array(x), xf, f))\n"
                       "else: print(eqsig.fns.interp_left(np.array(x) if sub['x0'] == 'ndarray' else x, xf, "
                       "None if sub['col'] is None else f[:, sub['col']]))\n"
                       "print([np.interp(q, xf, f[:, 0]) for q in x], [int(np.sum(xf <= q)) - 1 for q in x])   # column 0 / node index\n"
                       % (qa, sub.get('arrangement', sub.get('x'))))
    if k == 'gridhist':
        return head + "# see run_grid_history in mcheck/props/c20.py\n"
    if k == 'grid':
        return head + ("# node set DECIMAL_GRIDS[%r] of mcheck/props/c20.py; column = node number; query sub['query'] / all nodes, "
                       "their neighbouring floats and midpoints\n" % (case['grid'],))
    if k == 'interp':
        return head + ("# sub.get('nodes') / sub.get('table'): transformed node set / table (NODE_VARIANTS, TABLE_VARIANTS in c20.py)\n"
                       "xf = np.array(case['xf']); f = np.array(case['f'], float)\n"
                       "x = sub.get('x0', sub.get('x'))\n"
                       "if sub['fn'] == 'interp2d': print(eqsig.fns.interp2d(np.array(x if isinstance(x, list) else "
                       "sorted(set(case['xf'])), float), xf, f))\n"
                       "else: print(eqsig.fns.interp_left(x if not isinstance(x, str) else xf, xf, "
                       "None if sub['col'] is None else f[:, sub['col']]))\n")
    if k == 'word':
        return head + ("# sub.get('values') names the container / transformation of the word (w*mult+offset, WORD_VARIANTS in\n"
                       "# mcheck/props/c20.py); the SAME array object is used for all calls of a case\n"
                       "w = np.array(case['w'], float)\n"
                       "v = str(sub.get('values'))\n"
                       "if '2^-30' in v: w = w * 2.0 ** -30\n"
                       "if 'w*2^20' in v: w = w * 2.0 ** 20\n"
                       "if 'w+2^20' in v: w = w + 2.0 ** 20\n"
                       "if 'i16' in v: w = (w * 10000).astype(np.int16)\n"
                       "if 'u8' in v: w = (w * 50 + 100).astype(np.uint8)\n"
                       "if 'i64' in v: w = w.astype(np.int64)\n"
                       "if 'f32' in v: w = w.astype(np.float32)\n"
                       "if 'steps' in sub: print(eqsig.fns.calc_roll_av_vals(w, sub['steps'], mode=sub.get('mode') or 'forward'))\n"
                       "elif 'pow' in sub: print(eqsig.fns.calc_step_fn_vals_error(w if sub.get('values') != 'list-int' "
                       "else case['w'], pow=sub['pow'], dir=sub.get('dir')))\n"
                       "else: print(eqsig.fns.calc_step_fn_steps_vals(w, sub.get('ind')))\n")
    if k == 'spectra':
        return head + ("sc = case['sc']; z, r_, n = case['zrn']\n"
                       "T = sub.get('T', 3.0); T = T if isinstance(T, float) else np.array([0.5, 2.0])\n"
                       "if 'int' in str(sub.get('form')): T = {'whole-seconds': [0, 1, 2, 3, 4, 5, 10], 'mixed': [0, 0.4, 1, 2.5, 3]}.get(str(sub['T']), sub['T'])\n"
                       "if str(sub.get('form')).startswith('ndarray-int'): T = np.array(T, dtype=sub['form'][8:])\n"
                       "if str(sub.get('form')).startswith('tuple') and not isinstance(T, float): T = tuple(T)\n"
                       "print(ds.sd_nzs(T, sc, z, r_, n))\n"
                       "print(ds.c_h_factor(T if isinstance(T, float) or 'int' in str(sub.get('form')) else list(T), sc))\n"
                       "d_c = ds.sd_nzs(3.0, sc, z, r_, n) * 9.81 / (2 * np.pi) ** 2\n"
                       "print(ds.t_eff(sub.get('frac', 0.5) * d_c, sc, z, r_, n))\n")
    return head + "print(getattr(ds, sub['fn'])(*([sub.get('T', sub.get('d'))] + [sub['sc']] + ([0.4, 1.0, 1.0] if sub['fn'] != 'c_h_factor' else []))))\n"
