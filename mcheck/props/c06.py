"""C06 - Fourier amplitude spectrum = dt x DFT of the zero-padded record, on the stated grid.

Engine T x G.  Every non-zero word over {-1,0,2} of length 2..L is a record; at every node the
real code runs under the complete menu dt x {Signal, AccSignal} x padding mode x entry point and
is compared with a naive O(N^2) DFT (explicit double sum; N from the statement's rule by integer
arithmetic).  The statement's consequences are checked as relations between executions
(object == array level, linearity on all pairs, trailing zeros that keep N = the tree edge
"append a zero sample", Parseval with the reference supplying the bin the one-sided spectrum
omits) and the inverse helpers / dominant-period measure against exact references.
The array-level functions take the Signal object: they are run on a fresh object and - all on the same
object - on objects with a history (default spectrum read before; spectrum generated with non-default
arguments before), and the object is re-read afterwards.

Objects with a longer history ('obj' cases): the object was constructed with ANOTHER record of another length (on either side
of a power-of-two boundary), queried in every way (lazy properties, non-default spectra, array-level functions, dominant
period, smoothed spectrum, deprecated statistics), then given this record by reset_values / add_constant / add_series; the
spectrum must be that of the record held NOW.  Same cases: argument containers (int64, int16 and uint8 with large steps, list,
tuple), A-B-A call patterns and two live objects (class-level state), results overwritten by the caller, default options after
explicit ones.  'scaled' cases: the word / long records multiplied by 1e-9 and 1e+6 with dt in {1e-6, 40} (the spectrum is
linear; every comparison is relative to the expected peak).  'near' cases: two harmonics whose amplitudes differ by 1e-6 / 1e-7
relative (the dominant period must be that of the larger one).

Pool-case kinds:
  word   one record with all configurations inside
  obj    one record: object histories, containers, call patterns (see above)
  scaled one record x one scale factor: check_record (light) with the small / large dt menu
  near   one N: all ordered pairs of distinct harmonics x relative amplitude differences x scales
  long   deterministic longer records around powers of two (lengths the word tree cannot reach)
  pair   one word x with every word y of the same length: spectrum(2x-3y) = 2 S(x) - 3 S(y)
  inv    one even N: inverse helpers on the spectra of a basis (all impulses) and of mixed records
  pow2   one length 2^e + {-1, 0, 1}, e up to the largest the tier can afford: sparse record through every entry point (the N of
         the statement by integer arithmetic; number of bins, grid and values)
  orders one short word: an object with a history has its record changed (reset_values from two other lengths, add_constant,
         add_series), then every order of 1..3 distinct reads (spectrum, frequencies, absolute spectrum, dominant period, smoothed
         spectrum, array-level function); every Fourier quantity read is that of the record held now

Fourth round: the records the library's own inverse helpers hand out (objects returned by fas2signal, objects constructed from the
complex-typed array fas2values returns) are fed back into the forward functions wherever the inverse helpers are exercised; a
complex-typed container of the word; the power-of-two boundary family.
"""
import numpy as np

from ..target import eqsig, frequency, im
from ..result import Res
from ..compare import words
from ..refs import freq_ref as fr

CASE_TIMEOUT = 400      # the largest power-of-two boundary cases of the thorough tier take ~15 s on an idle machine
SIGMA = (-1, 0, 2)
DTS = (0.01, 0.5)
CLASSES = ('Signal', 'AccSignal')
LIN_A, LIN_B = 2.0, -3.0
TIE = 1e-12
SCALES = (1e-9, 1e6)
SCALED_DTS = (1e-6, 40.0)
NEAR_EPS = (1e-6, 1e-7)
NEAR_SCALES = (1.0, 1e-9, 1e6)


# ------------------------------------------------------------------------------ enumeration
def build(tier, seed):
    quick = tier == 'quick'
    L = 7 if quick else 9
    LP = 4 if quick else 5
    LX = 4 if quick else 6      # words up to this length: complete cross (object history x array-level entry point)
    inv_n = list(range(2, 42, 2)) if quick else list(range(2, 66, 2)) + [96, 100, 128, 130, 200, 256]
    longs = [8, 15, 16, 17, 31, 32, 33] if quick else [8, 15, 16, 17, 31, 32, 33, 63, 64, 65, 100, 127, 128, 129, 255,
                                                      256, 257]
    LH = 5 if quick else 6      # words up to this length: object histories, containers, call patterns
    LS = 4 if quick else 6      # words up to this length: scaled by 1e-9 / 1e+6
    near_n = [8, 16] if quick else [8, 16, 32]
    cases = []
    for w in words(SIGMA, 2, L, nonzero=True):
        cases.append({'k': 'word', 'w': list(w), 'cross': len(w) <= LX})
    for w in words(SIGMA, 2, LH, nonzero=True):
        cases.append({'k': 'obj', 'w': list(w)})
    for w in words(SIGMA, 2, LS, nonzero=True):
        for sc in SCALES:
            cases.append({'k': 'scaled', 'w': list(w), 'scale': sc})
    for w in words(SIGMA, 2, LS, nonzero=True):
        cases.append({'k': 'extreme', 'w': list(w)})
    for n in longs:
        for pat in ('first', 'last', 'mixed'):
            cases.append({'k': 'long', 'L': n, 'pat': pat})
        cases.append({'k': 'obj', 'L': n, 'pat': 'mixed'})
        for sc in SCALES:
            cases.append({'k': 'scaled', 'L': n, 'pat': 'mixed', 'scale': sc})
    for n in near_n:
        cases.append({'k': 'near', 'N': n})
    for x in words(SIGMA, 2, LP, nonzero=True):
        cases.append({'k': 'pair', 'x': list(x)})
    for n in inv_n:
        cases.append({'k': 'inv', 'N': n})
    LO3, LO2 = (2, 3) if quick else (3, 4)      # words up to these lengths: all orders of 3 / of 2 reads after a record change
    for w in words(SIGMA, 2, LO2, nonzero=True):
        cases.append({'k': 'orders', 'w': list(w), 'deep': len(w) <= LO3})
    # record lengths 2^e - 1, 2^e, 2^e + 1 for every e up to the largest the tier can afford (the top ones cost ~1 s (quick) /
    # ~15 s (thorough) each: they are spread evenly over the case list so that no pool chunk holds two of them)
    e_max = 18 if quick else 21
    p2c = [{'k': 'pow2', 'e': e, 'off': off} for e in range(1, e_max + 1) for off in (-1, 0, 1) if (1 << e) + off >= 2]
    stride = max(1, len(cases) // len(p2c))
    for i, c in enumerate(p2c):
        cases.insert(i * (stride + 1), c)
    return {
        'rule_more': "'extreme' cases: spectrum and dominant period of every short word at amplitudes 1e-170, 1e-160, 1e150, 1e160",
        'cases': cases,
        'rule': 'all non-zero words over {-1,0,2} of length 2..%d (one pool case per word) x dt in %s x {Signal, AccSignal} '
                'x padding modes {default, p2_plus 1..3, n in {L, L+1, 2L, next odd > L+1}} x entry points {object lazy '
                'properties, object gen_fa_spectrum / generate_fa_spectrum, calc_fa_spectrum (p2_plus 0..3, n, unpadded), '
                'generate_fa_spectrum (padded, unpadded)}; the array-level entry points run on a fresh object and, all on the '
                'same object, after each object history {default spectrum read lazily, gen_fa_spectrum(p2_plus=1), '
                'gen_fa_spectrum(n = next odd > L+1)} (words of length <= %d: every padding mode as history x calc_fa_spectrum in '
                'every padding mode), followed by a re-read of the object; + 3 deterministic records for each length in %s; + all ordered '
                'pairs of words of equal length <= %d (linearity); + inverse helpers for every even N in %s on all impulses '
                'and mixed records; + for every word of length <= %d and the mixed long records: the object history / container / call '
                'pattern family of the module docstring (previous record lengths {2, L-1, L+1, 2L+1, 2^ceil(log2 L)+1} x previous '
                'queries {none, everything, gen_fa_spectrum(p2_plus=1), gen_fa_spectrum(n odd)}); + words of length <= %d and the '
                'mixed long records x scale in %s x dt in %s; + near-equal harmonic pairs for N in %s, eps in %s, scales %s; '
                '+ sparse records (first, middle, last sample non-zero) of EVERY length 2^e - 1, 2^e, 2^e + 1, e = 1..%d, through all '
                'padded / un-padded / explicit-n entry points (p2_plus 0..3 up to e = 12, 0..1 above); + round trips: every object '
                'returned by fas2signal and every object constructed from the array fas2values returned (complex-typed records) is '
                'fed back into the forward functions (lazy properties, calc_fa_spectrum; for spectra that came from the library also '
                'generate_fa_spectrum, gen_fa_spectrum(n=N), dominant period); complex-typed container of the word; '
                '+ orders of reads: for every word of length <= %d x {Signal, AccSignal} x record change in %s applied to an object '
                'with a history: every order of 1 and 2 (length <= %d: and 3) distinct reads from %s; '
                'non-trivial = record not identically zero'
                % (L, list(DTS), LX, longs, LP, inv_n, LH, LS, list(SCALES), list(SCALED_DTS), near_n, list(NEAR_EPS),
                   list(NEAR_SCALES), e_max, LO2, list(ORD_MUTATORS), LO3, list(ORD_READS)),
        'bounds': {'alphabet': SIGMA, 'max_len': L, 'dt': DTS, 'p2_plus': [0, 1, 2, 3], 'n': ['L', 'L+1', '2L', '(L+2)|1'],
                   'pair_max_len': LP, 'history_full_cross_max_len': LX, 'object_family_max_len': LH, 'scaled_max_len': LS, 'extreme_scales (spectrum and dominant period, words up to scaled_max_len)': [1e-170, 1e-160, 1e150, 1e160],
                   'scales': SCALES, 'scaled_dt': SCALED_DTS, 'near_equal_N': near_n, 'near_equal_eps': NEAR_EPS,
                   'near_equal_scales': NEAR_SCALES, 'containers': ['float64', 'int64', 'int16 x15000', 'uint8 x125 (words without -1)',
                                                                    'list', 'tuple', 'complex128 (zero imaginary part)'],
                   'power_of_two_boundary_lengths': 'L = 2^e + {-1, 0, 1}, e = 1..%d' % e_max,
                   'read_orders': {'reads': ORD_READS, 'record_changes': ORD_MUTATORS, 'max_len_orders_of_3': LO3,
                                   'max_len_orders_of_2': LO2, 'dt': DTS[0]},
                   'round_trip_objects': ['fas2signal(spectrum, dt, stype)', 'Signal/AccSignal(fas2values(spectrum, dt), dt)'],
                   'previous_record_lengths': ['2', 'L-1', 'L+1', '2L+1', '2^ceil(log2 L)+1'],
                   'object_history_before_array_level_call': ['fresh', 'lazy-read', 'gen_fa_spectrum(p2_plus=1)',
                                                              'gen_fa_spectrum(n=(L+2)|1)', 'every padding mode (short words)'], 'inverse_even_N': inv_n, 'long_lengths': longs, 'tie_tolerance': TIE},
        'required_classes': ['odd-N', 'even-N', 'pow2-length', 'non-pow2-length', 'p2_plus>0', 'explicit-n', 'n=npts',
                             'n>npts', 'unpadded', 'padded-default', 'Signal', 'AccSignal', 'int-input',
                             'grid-nonempty-odd-N', 'argmax-unique', 'argmax-tie', 'argmax-bin0', 'argmax-positive-bin',
                             'argmax-abs-differs-from-complex-order', 'linearity-pair', 'trailing-zeros-keep-N',
                             'parseval-even-N', 'parseval-odd-N', 'inverse-pow2-N', 'inverse-non-pow2-N',
                             'inverse-roundtrip', 'inverse-nonzero-mean', 'inverse-nonzero-nyquist', 'object==array',
                             'array-level-on-fresh-object', 'array-level-after-default-spectrum',
                             'array-level-after-non-default-spectrum', 'history-shorter-record-before',
                             'history-longer-record-before', 'history-across-power-of-two', 'history-same-padded-length',
                             'history-add_constant', 'history-add_series', 'container-i64', 'container-i16', 'container-u8',
                             'container-list', 'container-tuple', 'a-b-a', 'two-live-objects', 'returned-array-overwritten',
                             'default-after-explicit', 'scaled-1e-09', 'scaled-1e+06', 'extreme-scale-1e-170', 'extreme-scale-1e+160', 'near-equal-amplitudes',
                             'container-c128', 'roundtrip-object', 'roundtrip-object-padded-further', 'boundary-2^e-1',
                             'boundary-2^e', 'boundary-2^e+1', 'boundary-e>=14'] + ['orders:' + n for n in ORD_MUTATORS],
        'assumptions': ['sample values outside {-1,0,2} (their linear combinations 2x-3y, their multiples by 1e-9, 1e+6, 15000 (int16), '
                        '125 (uint8), and the two-harmonic records of the near-equal family) are not examined',
                        'float32 records are not examined (the unchanged tree transforms them in single precision)',
                        'complex-typed records only with a vanishing imaginary part (exactly zero for the container of the word, at '
                        'rounding level for the arrays the inverse helpers return): that is what the library itself produces',
                        'lengths 2^e +- 1 above the word / long families only for the sparse three-sample record; their reference is '
                        'the explicit sum over the non-zero samples evaluated for all bins at once with numpy (no FFT), spot-checked '
                        'against scalar cmath',
                        'an array handed out by a lazy property (sig.fa_spectrum, sig.fa_freqs) is the object\'s own store, like '
                        'sig.values: overwriting it in place is outside the examined space; after gen_fa_spectrum() / '
                        'reset_values() the object must hold correct values again',
                        'record lengths above the bound only through the listed long / inverse families',
                        'dt only on the menu; requested n >= npts (zero padding, never truncation)',
                        'bins k = 0..N/2-1 is read as 0..floor(N/2)-1 for odd N',
                        'inverse helpers only for even N (the one-sided spectrum of an odd N does not determine the record)',
                        'reference: naive double-sum DFT in double precision, N by integer arithmetic; comparisons at 1e-9 of '
                        'the series peak; arg-max ties within 1e-12 of the maximum accept every tied bin'],
    }


def long_record(n, pat):
    if pat == 'first':
        return [2] + [0] * (n - 1)
    if pat == 'last':
        return [0] * (n - 1) + [-1]
    return [SIGMA[(t * t + t // 2) % 3] for t in range(n)]


def modes_for(L):
    ms = [('default', {}), ('p2_plus=1', {'p2_plus': 1}), ('p2_plus=2', {'p2_plus': 2}), ('p2_plus=3', {'p2_plus': 3})]
    for n in (L, L + 1, 2 * L, (L + 2) | 1):
        ms.append(('n=%d' % n, {'n': n}))
    return ms


def histories_for(L, full):
    """What the object handed to an array-level function has done before: nothing; its default spectrum was read through the
    lazy properties; gen_fa_spectrum with non-default arguments (full: every padding mode of modes_for; otherwise one
    p2_plus and one explicit n whose N is odd, hence never the default power of two)."""
    hs = [('fresh', None), ('lazy-read', None)]
    if full:
        hs += [('gen_fa_spectrum(%s)' % mname, kw) for mname, kw in modes_for(L)]
    else:
        hs += [('gen_fa_spectrum(p2_plus=1)', {'p2_plus': 1}), ('gen_fa_spectrum(n=%d)' % ((L + 2) | 1), {'n': (L + 2) | 1})]
    return hs


def array_entries(L, full, history):
    """(name, fn(sig), N of the statement) for the array-level functions on an object with a history: the four entry points
    with their own rule + calc_fa_spectrum(p2_plus=0) (full: calc_fa_spectrum in every padding mode)."""
    n_default = fr.n_rule(L, 0)
    ents = [('calc_fa_spectrum-unpadded', lambda s: frequency.calc_fa_spectrum(s), L),
            ('generate_fa_spectrum-unpadded', lambda s: frequency.generate_fa_spectrum(s, n_pad=False), L),
            ('generate_fa_spectrum-padded', lambda s: frequency.generate_fa_spectrum(s, n_pad=True), n_default),
            ('generate_fa_spectrum-default', lambda s: frequency.generate_fa_spectrum(s), n_default)]
    if history == 'fresh':      # calc_fa_spectrum in every padding mode on a fresh object: the mode loop of check_record
        return ents
    for mname, kw in (modes_for(L) if full else [('default', {})]):
        akw = dict(kw) if kw else {'p2_plus': 0}
        ents.append(('calc_fa_spectrum-%s' % ('p2_plus=0' if not kw else mname),
                     (lambda s, akw=akw: frequency.calc_fa_spectrum(s, **akw)),
                     fr.n_rule(L, akw.get('p2_plus', 0), akw.get('n'))))
    return ents


# ------------------------------------------------------------------------------ helpers
class RefCache(object):
    """Reference spectra of one record, per N (the DFT does not depend on dt)."""

    def __init__(self, w):
        self.w = w
        self.X = {}

    def get(self, N, dt):
        if N not in self.X:
            self.X[N] = fr.naive_dft(self.w, N, range(0, N // 2 + 1))
        X = self.X[N]
        pts = N // 2
        spec = np.array([dt * v for v in X[:pts]], dtype=complex)
        freqs = np.array([k / (N * dt) for k in range(pts)], dtype=float)
        return spec, freqs, dt * X[pts]


def make(cls, vals, dt):
    return getattr(eqsig, cls)(vals, dt)


def unpack2(r, claim, sub, out):
    try:
        a, f = out
        return True, a, f
    except Exception:
        r.fail(claim, sub, 'result is not a (spectrum, frequencies) pair', observed=out)
        return False, None, None


def cmp_spec(r, sub, spec, freqs, rspec, rfreqs):
    ok1 = r.expect_close('values', sub, spec, rspec, rtol=1e-9, what='spectrum vs dt*DFT, bins 0..floor(N/2)-1')
    ok2 = r.expect_close('grid', sub, freqs, rfreqs, rtol=1e-9, what='frequencies vs k/(N*dt)')
    return ok1 and ok2


def period_check(r, sub, got, rspec, N, dt):
    """Returned period must be the period N*dt/k of SOME bin whose amplitude is within 1e-12 of the largest."""
    amp = [abs(v) for v in rspec]
    mx = max(amp)
    tied = [k for k, a in enumerate(amp) if a >= mx * (1 - TIE)]
    r.cls('argmax-tie' if len(tied) > 1 else 'argmax-unique')
    r.cls('argmax-bin0' if 0 in tied else 'argmax-positive-bin')
    # does the complex (lexicographic real, imag) order pick a bin outside the tied set?
    lex = max(range(len(rspec)), key=lambda k: (round(rspec[k].real, 9), round(rspec[k].imag, 9)))
    if lex not in tied:
        r.cls('argmax-abs-differs-from-complex-order')
    want = [float('inf') if k == 0 else N * dt / k for k in tied]
    try:
        g = float(got)
        if np.ndim(got) != 0:
            raise ValueError('not a scalar')
    except Exception:
        return r.fail('max_fa_period', sub, 'result is not a scalar period', observed=got, expected=want)
    ok = any((g == p) or (p != float('inf') and abs(g - p) <= 1e-9 * p) for p in want)
    return r.expect('max_fa_period', sub, ok, 'period %r is not the period of a largest-amplitude bin (bins %r of %d)'
                    % (g, tied, len(amp)), observed=g, expected=want)


_RT = {}        # (record, N) -> RefCache of the exact reconstruction (padded record minus mean and Nyquist component)


def roundtrip_ref(x, N, want):
    key = (tuple(x), N)
    if key not in _RT:
        if len(_RT) > 64:
            _RT.clear()
        _RT[key] = RefCache([float(v) for v in want])
    return _RT[key]


def check_roundtrip_object(r, sub, sg, x, N, dt, want, given, peak, deep):
    """sg is a Signal / AccSignal holding the record the inverse helper produced (the RAW output of the inverse transform: a
    complex-typed array of N samples).  Its spectrum is, like that of every record, dt x DFT of the record it holds zero-padded
    to the N of the statement.  For the N-point transform that is the spectrum the record was built from with bin 0 (the mean,
    which is not carried) set to zero; for N' = next power of two > N (N not a power of two) the naive DFT of the exact
    reconstruction.  Tolerances relative to the peak of the spectrum the record was built from."""
    r.cls('roundtrip-object')
    r.transitions += 1
    e0 = np.array(given, dtype=complex)
    e0[0] = 0.0
    f0 = np.array([k / (N * dt) for k in range(N // 2)], dtype=float)
    N2 = fr.n_rule(N, 0)

    def cmp(s1, out, espec, efreqs):
        ok, a, f = unpack2(r, 'values', s1, out)
        if ok:
            r.expect_close('values', s1, a, espec, rtol=1e-9, scale=peak, what='spectrum of the reconstructed record vs dt*DFT')
            r.expect_close('grid', s1, f, efreqs, rtol=1e-9, what='frequencies vs k/(N*dt)')
    if N2 == N:
        espec, efreqs = e0, f0
    else:
        r.cls('roundtrip-object-padded-further')
        espec, efreqs, _ = roundtrip_ref(x, N, want).get(N2, dt)
    s1 = dict(sub, mode='default', entry='object-lazy')
    ok, out = r.call('values', s1, lambda: (sg.fa_spectrum, sg.fa_freqs))
    if ok:
        cmp(s1, out, espec, efreqs)
        s1 = dict(s1, entry='object-lazy-fa_frequencies')
        ok, out = r.call('grid', s1, lambda: sg.fa_frequencies)
        if ok:
            r.expect_close('grid', s1, out, efreqs, rtol=1e-9)
    s1 = dict(sub, mode='N=%d' % N, entry='calc_fa_spectrum-unpadded')
    ok, out = r.call('values', s1, frequency.calc_fa_spectrum, sg)
    if ok:
        cmp(s1, out, e0, f0)
    if not deep:
        return
    s1 = dict(sub, mode='default')
    ok, p = r.call('max_fa_period', s1, im.max_fa_period, sg)
    if ok and float(np.max(np.abs(espec))) > 1e-6 * peak:      # a reconstruction that is zero up to rounding has no dominant period
        period_check(r, s1, p, espec, N2, dt)
    s1 = dict(sub, mode='N=%d' % N2, entry='generate_fa_spectrum-padded')
    ok, out = r.call('values', s1, frequency.generate_fa_spectrum, sg)
    if ok:
        cmp(s1, out, espec, efreqs)
    s1 = dict(sub, mode='n=%d' % N, entry='object-gen_fa_spectrum')

    def gen():
        sg.gen_fa_spectrum(n=N)
        return sg.fa_spectrum, sg.fa_freqs
    ok, out = r.call('values', s1, gen)
    if ok:
        cmp(s1, out, e0, f0)


def inverse_checks(r, sub, fas, dt, x, N, feed, rt=2):
    """fas2values / fas2signal on a one-sided spectrum of an even N.  rt: how far the round trip goes on with the reconstructed
    objects (0: not at all, 1: lazy properties and un-padded array-level function, 2: every forward entry point)."""
    want = np.array([float(v) for v in fr.padded_minus_mean_and_nyquist(x, N)])
    scale = float(max(abs(v) for v in x)) or 1.0
    r.cls('inverse-pow2-N' if fr.is_pow2(N) else 'inverse-non-pow2-N')
    if feed == 'implementation':
        r.cls('inverse-roundtrip')
    xpad = list(x) + [0] * (N - len(x))
    if sum(xpad) != 0:
        r.cls('inverse-nonzero-mean')
    if sum(v if t % 2 == 0 else -v for t, v in enumerate(xpad)) != 0:
        r.cls('inverse-nonzero-nyquist')
    s2 = dict(sub, feed=feed)
    # the spectrum handed to the helpers (for feed='implementation' it is the array the object / array function returned, i.e. the
    # object's own cached spectrum) must still be dt x DFT afterwards: snapshot it around every helper call
    snap = np.array(fas, copy=True) if isinstance(fas, np.ndarray) else None

    def spectrum_unchanged(fn):
        if snap is None:
            return
        r.n_cmp += 1
        if not (isinstance(fas, np.ndarray) and fas.shape == snap.shape and np.array_equal(fas, snap)):
            r.fail('inverse.spectrum-unchanged', dict(s2, fn=fn), '%s modified the spectrum it was given (it is no longer dt x DFT of the record)' % fn,
                   observed=fas, expected=snap)
            try:
                fas[...] = snap
            except Exception:
                pass
    ok, v = r.call('inverse.values', dict(s2, fn='fas2values'), frequency.fas2values, fas, dt)
    spectrum_unchanged('fas2values')
    v_ok = False
    if ok:
        v_ok = check_series(r, dict(s2, fn='fas2values'), v, want, N, scale)
    # the round trip goes on: what the inverse helpers return is a record like any other (as the library hands it out: the raw,
    # complex-typed output of the inverse transform) and is fed back into the forward functions
    peak = max(float(np.max(np.abs(snap))), dt * scale) if snap is not None and snap.size else 0.0
    deep = rt >= 2
    for stype, cname in (('signal', 'Signal'), ('acc_signal', 'AccSignal')):
        s3 = dict(s2, fn='fas2signal', stype=stype)
        ok, sg = r.call('inverse.values', s3, frequency.fas2signal, fas, dt, stype=stype)
        spectrum_unchanged('fas2signal')
        if not ok:
            continue
        try:
            vals, sdt, tname = sg.values, sg.dt, type(sg).__name__
        except Exception:
            r.fail('inverse.signal', s3, 'result has no values/dt', observed=sg)
            continue
        good = check_series(r, s3, vals, want, N, scale)
        r.expect('inverse.signal', s3, tname == cname and sdt == dt, 'wrong object type or dt', observed=(tname, sdt),
                 expected=(cname, dt))
        if good and snap is not None and N >= 2 and rt:
            check_roundtrip_object(r, dict(s3, then='spectrum of the returned object'), sg, x, N, dt, want, snap, peak, deep)
            spectrum_unchanged('spectrum of the object returned by fas2signal')
            if v_ok and (deep or stype == 'signal'):
                # the same thing by hand: an object constructed from the array fas2values returned
                s4 = dict(s2, fn='fas2values', then='spectrum of %s(fas2values(...), dt)' % cname)
                ok, sg2 = r.call('values', dict(s4, entry='construct'), make, cname, v, dt)
                if ok:
                    check_roundtrip_object(r, s4, sg2, x, N, dt, want, snap, peak, False)
    if feed == 'reference':
        # default stype is the plain Signal
        ok, sg = r.call('inverse.signal', dict(s2, fn='fas2signal', stype='default'), frequency.fas2signal, fas, dt)
        if ok:
            r.expect('inverse.signal', dict(s2, fn='fas2signal', stype='default'), type(sg).__name__ == 'Signal',
                     'default stype does not give a Signal', observed=type(sg).__name__)


def check_series(r, sub, got, want, N, scale):
    try:
        n = len(got)
    except Exception:
        return r.fail('inverse.length', sub, 'result has no length', observed=got)
    if not r.expect('inverse.length', sub, n == N, 'reconstructed record has %d samples, padded record has %d' % (n, N),
                    observed=n, expected=N):
        return False
    return r.expect_close('inverse.values', sub, got, want.astype(complex), rtol=1e-9, scale=scale,
                          what='padded record minus mean and Nyquist component')


# ------------------------------------------------------------------------------ one record
def check_record(r, w, tag, light=False, full_cross=False, dts=DTS):
    """All configurations for one record.  tag identifies the record in violation keys."""
    L = len(w)
    ref = RefCache(w)
    r.nontrivial += 1
    r.cls('pow2-length' if fr.is_pow2(L) else 'non-pow2-length')
    wf = np.array(w, dtype=float)
    sumsq = sum(v * v for v in w)
    modes = modes_for(L)
    n_default = fr.n_rule(L, 0)
    integral = all(float(v) == int(v) for v in w)
    for dt in dts:
        for cname in CLASSES:
            r.cls(cname)
            base = {'w': tag, 'dt': dt, 'cls': cname}
            # ---- lazy properties of a fresh object (default padding)
            rspec, rfreqs, rtop = ref.get(n_default, dt)
            r.states += 1
            r.cls('padded-default')

            def lazy():
                s = make(cname, wf, dt)
                return s.fa_spectrum, s.fa_freqs, s.fa_frequencies, s.fa_spectrum_abs
            sub = dict(base, mode='default', entry='object-lazy')
            ok, out = r.call('values', sub, lazy)
            if ok:
                cmp_spec(r, sub, out[0], out[1], rspec, rfreqs)
                r.expect_close('grid', dict(sub, entry='object-lazy-fa_frequencies'), out[2], rfreqs, rtol=1e-9)
                r.expect_close('values', dict(sub, entry='object-lazy-fa_spectrum_abs'), out[3], np.abs(rspec), rtol=1e-9,
                               scale=float(np.max(np.abs(rspec))))

            def lazy_freq_first():
                s = make(cname, wf, dt)
                f = s.fa_freqs
                return s.fa_spectrum, f
            sub = dict(base, mode='default', entry='object-lazy-freqs-first')
            ok, out = r.call('values', sub, lazy_freq_first)
            if ok:
                cmp_spec(r, sub, out[0], out[1], rspec, rfreqs)
            if cname == 'Signal' and integral:
                r.cls('int-input')

                def lazy_int():
                    s = make(cname, np.array([int(v) for v in w], dtype=np.int64), dt)
                    return s.fa_spectrum, s.fa_freqs
                sub = dict(base, mode='default', entry='object-lazy-int64')
                ok, out = r.call('values', sub, lazy_int)
                if ok:
                    cmp_spec(r, sub, out[0], out[1], rspec, rfreqs)

            def gen_method():
                s = make(cname, wf, dt)
                s.generate_fa_spectrum()
                return s.fa_spectrum, s.fa_freqs
            sub = dict(base, mode='default', entry='object-generate_fa_spectrum')
            ok, out = r.call('values', sub, gen_method)
            if ok:
                cmp_spec(r, sub, out[0], out[1], rspec, rfreqs)

            # ---- every padding mode: object gen_fa_spectrum and array-level calc_fa_spectrum
            for mname, kw in modes:
                N = fr.n_rule(L, kw.get('p2_plus', 0), kw.get('n'))
                r.states += 1
                r.cls('odd-N' if N % 2 else 'even-N')
                if N % 2 and N >= 5:
                    r.cls('grid-nonempty-odd-N')
                if kw.get('p2_plus', 0) > 0:
                    r.cls('p2_plus>0')
                if 'n' in kw:
                    r.cls('explicit-n')
                    r.cls('n=npts' if kw['n'] == L else 'n>npts')
                rspec, rfreqs, rtop = ref.get(N, dt)
                sub = dict(base, mode=mname, entry='object-gen_fa_spectrum')
                s = None

                def gen():
                    s_ = make(cname, wf, dt)
                    s_.gen_fa_spectrum(**kw)
                    return s_
                ok, s = r.call('values', sub, gen)
                ospec = ofreqs = None
                if ok:
                    ok, out = r.call('values', sub, lambda: (s.fa_spectrum, s.fa_freqs))
                    if ok:
                        ospec, ofreqs = out
                        cmp_spec(r, sub, ospec, ofreqs, rspec, rfreqs)
                        # Parseval: dt*sum x^2 = (1/(N dt)) sum_{k<N} |F_k|^2 ; missing top bin from the reference
                        try:
                            rhs = fr.parseval_rhs([complex(v) for v in np.asarray(ospec).tolist()], rtop, N, dt)
                            r.cls('parseval-odd-N' if N % 2 else 'parseval-even-N')
                            r.expect_close('parseval', sub, rhs, dt * sumsq, rtol=1e-9)
                        except Exception as e:
                            r.fail('parseval', sub, 'cannot evaluate the energy sum of the returned spectrum: %s' % e,
                                   observed=ospec)
                    # dominant period of the spectrum the object now holds
                    s3 = dict(base, mode=mname)
                    ok, p = r.call('max_fa_period', s3, im.max_fa_period, s)
                    if ok:
                        period_check(r, s3, p, rspec, N, dt)
                # array level, same N
                akw = dict(kw) if kw else {'p2_plus': 0}
                sub_a = dict(base, mode=mname, entry='calc_fa_spectrum')
                ok, out = r.call('values', sub_a, lambda: frequency.calc_fa_spectrum(make(cname, wf, dt), **akw))
                if ok:
                    ok, aspec, afreqs = unpack2(r, 'values', sub_a, out)
                    if ok:
                        cmp_spec(r, sub_a, aspec, afreqs, rspec, rfreqs)
                        if ospec is not None:
                            r.transitions += 1
                            r.cls('object==array')
                            s4 = dict(base, mode=mname)
                            r.expect_close('object==array.values', s4, ospec, aspec, rtol=1e-12,
                                           scale=float(np.max(np.abs(rspec))))
                            r.expect_close('object==array.grid', s4, ofreqs, afreqs, rtol=1e-12,
                                           scale=float(np.max(np.abs(rfreqs))) if len(rfreqs) else 0.0)
                # trailing zeros that keep N (tree edges "append zero samples")
                if ospec is not None and not light:
                    zmax = (kw['n'] - L) if 'n' in kw else (n_default - L)
                    for z in range(1, zmax + 1):
                        wz = np.concatenate([wf, np.zeros(z)])
                        s5 = dict(base, mode=mname, zeros=z)
                        r.transitions += 1
                        r.cls('trailing-zeros-keep-N')

                        def genz():
                            s_ = make(cname, wz, dt)
                            s_.gen_fa_spectrum(**kw)
                            return s_.fa_spectrum, s_.fa_freqs
                        ok, out = r.call('trailing-zeros', s5, genz)
                        if ok:
                            r.expect_close('trailing-zeros.values', s5, out[0], ospec, rtol=1e-12,
                                           scale=float(np.max(np.abs(rspec))))
                            r.expect_close('trailing-zeros.grid', s5, out[1], ofreqs, rtol=1e-12,
                                           scale=float(np.max(np.abs(rfreqs))) if len(rfreqs) else 0.0)
                # inverse helpers (even N): fed with the reference spectrum and with the object's own
                if N % 2 == 0 and cname == 'Signal':
                    s6 = {'w': tag, 'dt': dt, 'N': N}
                    if mname == 'default' or 'n' in kw or not light:
                        inverse_checks(r, s6, rspec.copy(), dt, w, N, 'reference', rt=0)
                        if ospec is not None:
                            try:
                                fas = np.array(ospec)
                            except Exception:
                                fas = None
                            if fas is not None:
                                # the spectrum the object produced -> inverse helpers -> forward functions again
                                inverse_checks(r, dict(s6, mode=mname), fas, dt, w, N, 'implementation',
                                               rt=2 if mname == 'default' else 1)

            # ---- array-level entry points with their own rules, on objects with a history: the array-level functions
            # take the Signal object, so "dt x DFT of the record zero-padded to N" (N from the CALL's arguments) must hold
            # whatever spectrum that object was asked to generate / has handed out before; all array-level calls of one
            # history run on the SAME object, and afterwards the object must still hold the spectrum of its own history
            # (an array-level query leaves the object it is given unchanged).
            for hname, hkw in histories_for(L, full_cross):
                sub_h = dict(base, history=hname)

                def prepare():
                    s_ = make(cname, wf, dt)
                    if hname == 'lazy-read':
                        _ = (s_.fa_spectrum, s_.fa_freqs)
                    elif hname != 'fresh':
                        s_.gen_fa_spectrum(**hkw)
                    return s_
                ok, sh = r.call('values', dict(sub_h, entry='object-history'), prepare)
                if not ok:
                    continue
                n_hist = fr.n_rule(L, (hkw or {}).get('p2_plus', 0), (hkw or {}).get('n'))
                r.cls('array-level-on-fresh-object' if hname == 'fresh' else
                      'array-level-after-default-spectrum' if n_hist == n_default else 'array-level-after-non-default-spectrum')
                for ename, fn, N in array_entries(L, full_cross, hname):
                    r.states += 1
                    if hname != 'fresh':
                        r.transitions += 1
                    r.cls('unpadded' if N == L and 'unpadded' in ename else 'padded-default' if 'generate' in ename else
                          'array-level-mode')
                    r.cls('odd-N' if N % 2 else 'even-N')
                    if N % 2 and N >= 5:
                        r.cls('grid-nonempty-odd-N')
                    rspec, rfreqs, rtop = ref.get(N, dt)
                    sub = dict(sub_h, mode='N=%d' % N, entry=ename) if hname != 'fresh' else dict(base, mode='N=%d' % N, entry=ename)
                    ok, out = r.call('values', sub, fn, sh)
                    if ok:
                        ok, aspec, afreqs = unpack2(r, 'values', sub, out)
                        if ok:
                            cmp_spec(r, sub, aspec, afreqs, rspec, rfreqs)
                if hname != 'fresh':
                    # the object after the array-level queries: still the spectrum of its own history
                    sub = dict(sub_h, mode='N=%d' % n_hist, entry='object-after-array-level-calls')
                    ok, out = r.call('values', sub, lambda: (sh.fa_spectrum, sh.fa_freqs))
                    if ok:
                        rspec, rfreqs, rtop = ref.get(n_hist, dt)
                        cmp_spec(r, sub, out[0], out[1], rspec, rfreqs)
    return r


# ------------------------------------------------------------------------------ objects with a history, containers, patterns
HIST = ('nothing', 'everything', 'gen_fa_spectrum(p2_plus=1)', 'gen_fa_spectrum(n=odd)')


def prev_lens(L):
    c = set([2, L - 1, L + 1, 2 * L + 1, (1 << fr.ceil_log2(L)) + 1])
    return sorted(v for v in c if v >= 2 and v != L)


def partner(w):
    """Another record of the same length with the same first and last sample (length 2: the reversed record)."""
    if len(w) <= 2:
        return list(reversed(w))
    return [w[0]] + [SIGMA[(SIGMA.index(v) + 1) % 3] for v in w[1:-1]] + [w[-1]]


def exercise(s):
    """Query the object in every way: lazy properties, non-default spectra, array-level functions, dominant period, smoothed
    spectrum, integrated series and the deprecated statistics methods that store results on the object.  Whether the
    auxiliary ones succeed is not this property's business."""
    calls = [lambda: (s.fa_spectrum, s.fa_freqs, s.fa_frequencies, s.fa_spectrum_abs), lambda: s.smooth_fa_spectrum,
             lambda: im.max_fa_period(s), lambda: frequency.calc_fa_spectrum(s), lambda: frequency.calc_fa_spectrum(s, p2_plus=2),
             lambda: frequency.calc_fa_spectrum(s, n=2 * s.npts + 1), lambda: frequency.generate_fa_spectrum(s),
             lambda: frequency.generate_fa_spectrum(s, n_pad=False), lambda: s.gen_fa_spectrum(p2_plus=1),
             lambda: s.gen_fa_spectrum(n=s.npts + 1), lambda: s.gen_fa_spectrum(), lambda: (s.velocity, s.displacement, s.pga, s.pgv),
             lambda: s.generate_cumulative_stats(), lambda: s.generate_duration_stats(), lambda: s.generate_peak_values()]
    for c in calls:
        try:
            c()
        except Exception:
            pass


def check_object_now(r, sub, s, ref, L, dt, fac=1, full=True):
    """The object s holds (fac x) the record of `ref` NOW: its lazy properties, the dominant period, the array-level functions
    given this object, every padding mode of gen_fa_spectrum and the default mode after them."""
    n_default = fr.n_rule(L, 0)
    rspec, rfreqs, rtop = ref.get(n_default, dt)
    rspec = fac * rspec
    r.states += 1
    r.transitions += 1
    s1 = dict(sub, mode='default', entry='object-lazy')
    ok, out = r.call('values', s1, lambda: (s.fa_spectrum, s.fa_freqs, s.fa_frequencies, s.fa_spectrum_abs))
    if ok:
        cmp_spec(r, s1, out[0], out[1], rspec, rfreqs)
        r.expect_close('grid', dict(s1, entry='object-lazy-fa_frequencies'), out[2], rfreqs, rtol=1e-9)
        r.expect_close('values', dict(s1, entry='object-lazy-fa_spectrum_abs'), out[3], np.abs(rspec), rtol=1e-9,
                       scale=float(np.max(np.abs(rspec))))
    s1 = dict(sub, mode='default')
    ok, p = r.call('max_fa_period', s1, im.max_fa_period, s)
    if ok:
        period_check(r, s1, p, rspec, n_default, dt)
    for ename, fn, N in (('calc_fa_spectrum-unpadded', lambda: frequency.calc_fa_spectrum(s), L),
                         ('calc_fa_spectrum-p2_plus=1', lambda: frequency.calc_fa_spectrum(s, p2_plus=1), 2 * n_default),
                         ('generate_fa_spectrum-padded', lambda: frequency.generate_fa_spectrum(s), n_default)):
        s1 = dict(sub, mode='N=%d' % N, entry=ename)
        r.states += 1
        ok, out = r.call('values', s1, fn)
        if ok:
            ok, aspec, afreqs = unpack2(r, 'values', s1, out)
            if ok:
                a, f, _ = ref.get(N, dt)
                cmp_spec(r, s1, aspec, afreqs, fac * a, f)
    modes = modes_for(L)[1:] if full else [('p2_plus=1', {'p2_plus': 1}), ('n=%d' % ((L + 2) | 1), {'n': (L + 2) | 1})]
    for mname, kw in modes + [('default-after-explicit', {})]:
        N = fr.n_rule(L, kw.get('p2_plus', 0), kw.get('n'))
        s1 = dict(sub, mode=mname, entry='object-gen_fa_spectrum')
        r.states += 1
        if not kw:
            r.cls('default-after-explicit')

        def gen():
            s.gen_fa_spectrum(**kw)
            return s.fa_spectrum, s.fa_freqs
        ok, out = r.call('values', s1, gen)
        if ok:
            a, f, _ = ref.get(N, dt)
            cmp_spec(r, s1, out[0], out[1], fac * a, f)
            if mname in ('p2_plus=1', 'default-after-explicit'):
                ok, p = r.call('max_fa_period', dict(sub, mode=mname), im.max_fa_period, s)
                if ok:
                    period_check(r, dict(sub, mode=mname), p, fac * a, N, dt)


def run_obj(r, w, tag):
    L = len(w)
    ref = RefCache(w)
    wf = np.array(w, dtype=float)
    r.nontrivial += 1
    n_default = fr.n_rule(L, 0)
    pw = partner(w)
    pref = RefCache(pw)
    pf = np.array(pw, dtype=float)
    for dt in DTS:
        for cname in CLASSES:
            r.cls(cname)
            base = {'w': tag, 'dt': dt, 'cls': cname}
            # ---- (1) the object held another record of another length before and was queried in some way
            for plen in prev_lens(L):
                pv = np.array(long_record(plen, 'mixed'), dtype=float)
                r.cls('history-shorter-record-before' if plen < L else 'history-longer-record-before')
                r.cls('history-across-power-of-two' if fr.n_rule(plen, 0) != n_default else 'history-same-padded-length')
                for hname in HIST:
                    sub = dict(base, prev_len=plen, before=hname)

                    def prepare():
                        s_ = make(cname, pv, dt)
                        if hname == 'everything':
                            exercise(s_)
                        elif hname == 'gen_fa_spectrum(p2_plus=1)':
                            s_.gen_fa_spectrum(p2_plus=1)
                        elif hname == 'gen_fa_spectrum(n=odd)':
                            s_.gen_fa_spectrum(n=(plen + 2) | 1)
                        s_.reset_values(wf.copy())
                        return s_
                    ok, s = r.call('values', dict(sub, entry='prepare'), prepare)
                    if ok:
                        check_object_now(r, sub, s, ref, L, dt, full=(hname in ('nothing', 'everything')))
            # ---- (2) same-length modifications of the record of an object that was queried before
            sub = dict(base, before='everything', change='add_constant')

            def prep2():
                s_ = make(cname, wf - 3.0, dt)
                exercise(s_)
                s_.add_constant(3.0)
                return s_
            ok, s = r.call('values', dict(sub, entry='prepare'), prep2)
            if ok:
                r.cls('history-add_constant')
                check_object_now(r, sub, s, ref, L, dt, full=False)
                sub = dict(base, before='everything', change='add_constant,add_series(record)')
                ok, _ = r.call('values', dict(sub, entry='prepare'), s.add_series, wf.copy())
                if ok:
                    r.cls('history-add_series')
                    check_object_now(r, sub, s, ref, L, dt, fac=2, full=False)
                    sub = dict(base, before='everything', change='add_constant,add_series(record),reset_values(partner)')
                    ok, _ = r.call('values', dict(sub, entry='prepare'), s.reset_values, pf.copy())
                    if ok:
                        check_object_now(r, sub, s, pref, L, dt, full=False)
            # ---- (3) argument containers
            conts = [('i64', lambda: np.array(w, dtype=np.int64), 1), ('i16', lambda: np.array([15000 * v for v in w], dtype=np.int16), 15000),
                     ('list', lambda: [int(v) for v in w], 1), ('tuple', lambda: tuple(float(v) for v in w), 1),
                     # complex-typed array with a vanishing imaginary part: what the library's own inverse helpers hand out
                     ('c128', lambda: np.array(w, dtype=complex), 1)]
            if min(w) >= 0:
                conts.append(('u8', lambda: np.array([125 * v for v in w], dtype=np.uint8), 125))
            for kname, mk, fac in conts:
                r.cls('container-' + kname)
                sub = dict(base, container=kname)
                ok, s = r.call('values', dict(sub, entry='construct'), lambda: make(cname, mk(), dt))
                if ok:
                    check_object_now(r, sub, s, ref, L, dt, fac=fac, full=False)
                sub = dict(base, container=kname, via='reset_values', prev_len=L + 1)

                def prep3():
                    s_ = make(cname, np.array(long_record(L + 1, 'mixed'), dtype=float), dt)
                    _ = s_.fa_spectrum
                    s_.reset_values(mk())
                    return s_
                ok, s = r.call('values', dict(sub, entry='construct'), prep3)
                if ok:
                    check_object_now(r, sub, s, ref, L, dt, fac=fac, full=False)
            # ---- (4) A, B, A on fresh objects (B: same length and end values) and two live objects
            r.cls('a-b-a')
            entries = [('object-lazy', lambda s_: (s_.fa_spectrum, s_.fa_freqs), n_default),
                       ('object-gen_fa_spectrum(p2_plus=1)', lambda s_: (s_.gen_fa_spectrum(p2_plus=1), s_.fa_spectrum, s_.fa_freqs)[1:], 2 * n_default),
                       ('object-gen_fa_spectrum(n=L+1)', lambda s_: (s_.gen_fa_spectrum(n=L + 1), s_.fa_spectrum, s_.fa_freqs)[1:], L + 1),
                       ('calc_fa_spectrum-unpadded', lambda s_: frequency.calc_fa_spectrum(s_), L),
                       ('calc_fa_spectrum-n=2L', lambda s_: frequency.calc_fa_spectrum(s_, n=2 * L), 2 * L),
                       ('generate_fa_spectrum-padded', lambda s_: frequency.generate_fa_spectrum(s_), n_default)]
            for ename, fn, N in entries:
                for step, vals, rf in (('A', wf, ref), ('B', pf, pref), ('A-again', wf, ref)):
                    sub = dict(base, mode='N=%d' % N, entry=ename, step=step)
                    r.states += 1
                    ok, out = r.call('values', sub, lambda: fn(make(cname, vals, dt)))
                    if ok:
                        ok, aspec, afreqs = unpack2(r, 'values', sub, out)
                        if ok:
                            a, f, _ = rf.get(N, dt)
                            cmp_spec(r, sub, aspec, afreqs, a, f)
            for step, vals, rf in (('A', wf, ref), ('B', pf, pref), ('A-again', wf, ref)):
                sub = dict(base, mode='default', step=step)
                ok, p = r.call('max_fa_period', sub, lambda: im.max_fa_period(make(cname, vals, dt)))
                if ok:
                    period_check(r, sub, p, rf.get(n_default, dt)[0], n_default, dt)
            r.cls('two-live-objects')
            sub = dict(base, entry='two-live-objects')

            def two():
                sa = make(cname, wf, dt)
                sb = make(cname, pf, dt)
                first = (np.array(sa.fa_spectrum), np.array(sa.fa_freqs))
                second = (np.array(sb.fa_spectrum), np.array(sb.fa_freqs))
                sa.gen_fa_spectrum(p2_plus=1)
                return first, second, (sb.fa_spectrum, sb.fa_freqs), (sa.fa_spectrum, sa.fa_freqs)
            ok, out = r.call('values', sub, two)
            if ok:
                for (step, rf, N), o in zip((('a-default', ref, n_default), ('b-default', pref, n_default),
                                              ('b-after-a.gen(p2_plus=1)', pref, n_default),
                                              ('a-after-gen(p2_plus=1)', ref, 2 * n_default)), out):
                    a, f, _ = rf.get(N, dt)
                    r.states += 1
                    cmp_spec(r, dict(sub, step=step, mode='N=%d' % N), o[0], o[1], a, f)
            # ---- (5) the caller overwrites what it was given, then asks again
            r.cls('returned-array-overwritten')
            ok, s = r.call('values', dict(base, entry='construct'), lambda: make(cname, wf, dt))
            if ok:
                for ename, fn, N in entries[3:] + [('calc_fa_spectrum-p2_plus=1', lambda s_: frequency.calc_fa_spectrum(s_, p2_plus=1), 2 * n_default),
                                                  ('generate_fa_spectrum-unpadded', lambda s_: frequency.generate_fa_spectrum(s_, n_pad=False), L)]:
                    sub = dict(base, mode='N=%d' % N, entry=ename, step='again-after-result-overwritten')
                    r.states += 1

                    def twice():
                        o = fn(s)
                        o[0][...] = 1e30
                        o[1][...] = -1.0
                        return fn(s)
                    ok, out = r.call('values', sub, twice)
                    if ok:
                        ok, aspec, afreqs = unpack2(r, 'values', sub, out)
                        if ok:
                            a, f, _ = ref.get(N, dt)
                            cmp_spec(r, sub, aspec, afreqs, a, f)
                # arrays handed out by the lazy properties are the object's own store (as sig.values is): after the caller wrote
                # into them the object must be correct again once the spectrum is regenerated / the record is reset.
                # RESTRICTED: re-reading sig.fa_spectrum WITHOUT regeneration returns the overwritten array on the unchanged
                # tree (Signal([2., 0., -1.], 0.01): a = s.fa_spectrum; a[...] = 0; s.fa_spectrum -> zeros) - not examined.
                for how in ('gen_fa_spectrum()', 'reset_values(record)'):
                    sub = dict(base, mode='default', entry='object-lazy', step='overwritten,' + how)
                    r.states += 1

                    def regen():
                        a, f = s.fa_spectrum, s.fa_freqs
                        a[...] = 1e30
                        f[...] = -1.0
                        if how == 'gen_fa_spectrum()':
                            s.gen_fa_spectrum()
                        else:
                            s.reset_values(wf.copy())
                        return s.fa_spectrum, s.fa_freqs
                    ok, out = r.call('values', sub, regen)
                    if ok:
                        a, f, _ = ref.get(n_default, dt)
                        cmp_spec(r, sub, out[0], out[1], a, f)
            if cname == 'Signal':
                rspec, rfreqs, rtop = ref.get(n_default, dt)
                want = np.array([float(v) for v in fr.padded_minus_mean_and_nyquist(w, n_default)])
                scale = float(max(abs(v) for v in w)) or 1.0
                sub = {'w': tag, 'dt': dt, 'N': n_default, 'feed': 'reference', 'step': 'again-after-result-overwritten'}

                def inv_twice():
                    fas = rspec.copy()
                    v = frequency.fas2values(fas, dt)
                    v[...] = 1e30
                    sg = frequency.fas2signal(fas, dt)
                    sg.values[...] = 1e30
                    return frequency.fas2values(fas, dt), frequency.fas2signal(fas, dt).values
                ok, out = r.call('inverse.values', sub, inv_twice)
                if ok:
                    check_series(r, dict(sub, fn='fas2values'), out[0], want, n_default, scale)
                    check_series(r, dict(sub, fn='fas2signal'), out[1], want, n_default, scale)
                # the one-sided spectrum handed over as a python list of complex numbers
                sub = {'w': tag, 'dt': dt, 'N': n_default, 'feed': 'reference', 'container': 'list'}
                ok, out = r.call('inverse.values', sub, lambda: (frequency.fas2values([complex(v) for v in rspec], dt),
                                                                 frequency.fas2signal([complex(v) for v in rspec], dt).values))
                if ok:
                    check_series(r, dict(sub, fn='fas2values'), out[0], want, n_default, scale)
                    check_series(r, dict(sub, fn='fas2signal'), out[1], want, n_default, scale)
    return r


def near_record(N, k1, k2, eps, scale):
    return [scale * (np.cos(2 * np.pi * ((k1 * t) % N) / N) + (1.0 + eps) * np.cos(2 * np.pi * ((k2 * t) % N) / N + 0.3))
            for t in range(N)]


def run_near(r, N):
    """Two harmonics whose amplitudes differ by eps relative: the dominant period is that of the larger one."""
    for k1 in range(1, N // 2):
        for k2 in range(1, N // 2):
            if k1 == k2:
                continue
            for eps in NEAR_EPS:
                for scale in NEAR_SCALES:
                    x = [float(v) for v in near_record(N, k1, k2, eps, scale)]
                    ref = RefCache(x)
                    r.nontrivial += 1
                    r.cls('near-equal-amplitudes')
                    for dt in DTS:
                        rspec, rfreqs, rtop = ref.get(N, dt)
                        for cname in CLASSES:
                            sub = {'N': N, 'k1': k1, 'k2': k2, 'eps': eps, 'scale': scale, 'dt': dt, 'cls': cname}
                            r.states += 1
                            ok, s = r.call('values', sub, lambda: make(cname, np.array(x), dt))
                            if not ok:
                                continue
                            ok, out = r.call('values', sub, lambda: (s.fa_spectrum, s.fa_freqs))
                            if ok:
                                cmp_spec(r, sub, out[0], out[1], rspec, rfreqs)
                            ok, p = r.call('max_fa_period', sub, im.max_fa_period, s)
                            if ok:
                                period_check(r, sub, p, rspec, N, dt)
                                amp = np.abs(rspec)
                                r.expect('max_fa_period', dict(sub, oracle='larger-harmonic'), int(np.argmax(amp)) == k2,
                                         'reference: the larger harmonic is not the arg-max (harness)', observed=int(np.argmax(amp)),
                                         expected=k2)
    return r


# ------------------------------------------------------------------------------ orders of reads after a change of the record
ORD_READS = ('fa_spectrum', 'fa_freqs', 'fa_frequencies', 'fa_spectrum_abs', 'max_fa_period', 'smooth_fa_spectrum',
             'generate_fa_spectrum(sig)')
ORD_MUTATORS = ('reset_values(from L+1 samples)', 'reset_values(from 2^ceil(log2 L)+1 samples)', 'add_constant', 'add_series')


def run_orders(r, w, depth3):
    """An object that held another record (spectrum, frequencies, smoothed spectrum, dominant period read) has its record changed;
    then every order of 1, 2 (and, depth3, 3) distinct reads from ORD_READS.  Whatever the order, every Fourier quantity read is
    that of the record held NOW, an array obtained by an earlier read is not modified by a later one, and afterwards the object
    reports the spectrum of its record."""
    L = len(w)
    ref = RefCache(w)
    wf = np.array(w, dtype=float)
    r.nontrivial += 1
    n_default = fr.n_rule(L, 0)
    dt = DTS[0]
    rspec, rfreqs, _ = ref.get(n_default, dt)
    peak = float(np.max(np.abs(rspec)))
    names = list(ORD_READS)
    orders = [(a,) for a in names] + [(a, b) for a in names for b in names if a != b]
    if depth3:
        orders += [(a, b, c) for a in names for b in names for c in names if len(set((a, b, c))) == 3]
    for cname in CLASSES:
        r.cls(cname)
        for mname in ORD_MUTATORS:
            r.cls('orders:' + mname)
            base = {'w': w, 'dt': dt, 'cls': cname, 'after': mname}

            def mutate():
                if mname.startswith('reset_values'):
                    plen = L + 1 if 'L+1' in mname else (1 << fr.ceil_log2(L)) + 1
                    s_ = make(cname, np.array(long_record(plen, 'mixed'), dtype=float), dt)
                elif mname == 'add_constant':
                    s_ = make(cname, wf - 3.0, dt)
                else:
                    s_ = make(cname, np.array(partner(w), dtype=float), dt)
                _ = (s_.fa_spectrum, s_.fa_freqs, s_.fa_spectrum_abs, s_.smooth_fa_spectrum)
                _ = im.max_fa_period(s_)
                if mname.startswith('reset_values'):
                    s_.reset_values(wf.copy())
                elif mname == 'add_constant':
                    s_.add_constant(3.0)
                else:
                    s_.add_series(wf - np.array(partner(w), dtype=float))
                return s_
            for order in orders:
                sub = dict(base, reads=list(order))
                r.states += 1
                r.transitions += len(order)
                ok, s = r.call('values', dict(sub, entry='prepare'), mutate)
                if not ok:
                    continue
                held = []
                for i, rname in enumerate(order):
                    s1 = dict(sub, read=i, entry=rname)
                    if rname == 'max_fa_period':
                        ok, out = r.call('max_fa_period', s1, im.max_fa_period, s)
                        if ok:
                            period_check(r, s1, out, rspec, n_default, dt)
                        continue
                    if rname == 'smooth_fa_spectrum':       # its values are another property's business; here it is a read
                        try:
                            out = s.smooth_fa_spectrum
                        except Exception:
                            continue
                    elif rname == 'generate_fa_spectrum(sig)':
                        ok, out = r.call('values', s1, frequency.generate_fa_spectrum, s)
                        if ok:
                            ok, a, f = unpack2(r, 'values', s1, out)
                            if ok:
                                cmp_spec(r, s1, a, f, rspec, rfreqs)
                        continue
                    else:
                        ok, out = r.call('values', s1, getattr, s, rname)
                        if not ok:
                            continue
                        if rname == 'fa_spectrum':
                            r.expect_close('values', s1, out, rspec, rtol=1e-9, what='spectrum vs dt*DFT of the record held now')
                        elif rname == 'fa_spectrum_abs':
                            r.expect_close('values', s1, out, np.abs(rspec), rtol=1e-9, scale=peak)
                        else:
                            r.expect_close('grid', s1, out, rfreqs, rtol=1e-9, what='frequencies vs k/(N*dt)')
                    if isinstance(out, np.ndarray):
                        held.append((rname, out, out.copy()))
                s9 = dict(sub, read='final', mode='default', entry='object-lazy')
                ok, out = r.call('values', s9, lambda: (s.fa_spectrum, s.fa_freqs))
                if ok:
                    cmp_spec(r, s9, out[0], out[1], rspec, rfreqs)
                r.n_cmp += 1
                for rname, arr, keep in held:
                    if not (arr.shape == keep.shape and np.array_equal(arr, keep)):
                        r.fail('read-leaves-object-unchanged', dict(s9, held=rname),
                               'the array obtained from %s was modified by a later read' % rname, observed=arr, expected=keep)
    return r


# ------------------------------------------------------------------------------ lengths next to powers of two, whole range
def pow2_record(L):
    """Sparse record of L samples: first, middle and last sample non-zero (the last one: nothing may be cut off)."""
    nz = {0: 2.0}
    nz[L // 2] = -1.0
    nz[L - 1] = 2.0
    return sorted(nz.items())


def sparse_reference(nz, N):
    """DFT bins 0..floor(N/2) of the record whose only non-zero samples are nz = [(t, v), ...] zero-padded to N: the explicit sum
    over the non-zero samples, X_k = sum_t v_t exp(-2 pi i ((k t) mod N) / N) with the phase index reduced in integer arithmetic,
    evaluated for all bins at once (numpy, no FFT); a few bins are re-evaluated with scalar cmath as a self-check."""
    pts = N // 2
    k = np.arange(pts + 1, dtype=np.int64)
    X = np.zeros(pts + 1, dtype=complex)
    for t, v in nz:
        X += v * np.exp(-2j * np.pi * (((k * int(t)) % N) / float(N)))
    import cmath
    import math
    for kk in sorted(set([0, 1, pts // 3, pts - 1, pts])):
        if 0 <= kk <= pts:
            sc = sum(v * cmath.exp(-2j * math.pi * ((kk * int(t)) % N) / N) for t, v in nz)
            if abs(sc - X[kk]) > 1e-12 * sum(abs(v) for t, v in nz):
                raise AssertionError('harness: vectorised reference disagrees with the scalar sum at bin %d' % kk)
    return X


def run_pow2(r, e, off):
    """One record length L = 2^e + off, off in {-1, 0, +1}: every padded entry point must use N = next power of two >= L (times
    2^p2_plus) - found here by integer arithmetic - for ALL e the tier can afford: the number of bins, the grid and the values
    (sparse record, so the explicit sum is cheap).  Un-padded and explicit-n entry points on the same object."""
    L = (1 << e) + off
    nz = pow2_record(L)
    x = np.zeros(L)
    for t, v in nz:
        x[t] = v
    r.nontrivial += 1
    r.cls('pow2-length' if fr.is_pow2(L) else 'non-pow2-length')
    r.cls({-1: 'boundary-2^e-1', 0: 'boundary-2^e', 1: 'boundary-2^e+1'}[off])
    if e >= 14:
        r.cls('boundary-e>=14')
    n_default = fr.n_rule(L, 0)
    p2s = (0, 1, 2, 3) if e <= 12 else (0, 1)
    dts = DTS if e <= 12 else DTS[:1]
    refs = {}

    def ref(N, dt):
        if N not in refs:
            refs[N] = sparse_reference(nz, N)
        X = refs[N]
        pts = N // 2
        return dt * X[:pts], np.arange(pts) / (N * dt)
    tag = 'sparse:L=2^%d%+d' % (e, off) if off else 'sparse:L=2^%d' % e
    for dt in dts:
        for cname in CLASSES:
            r.cls(cname)
            base = {'w': tag, 'dt': dt, 'cls': cname}
            ok, s = r.call('values', dict(base, entry='construct'), make, cname, x, dt)
            if not ok:
                continue
            entries = [('generate_fa_spectrum-default', lambda: frequency.generate_fa_spectrum(s), n_default),
                       ('generate_fa_spectrum-padded', lambda: frequency.generate_fa_spectrum(s, n_pad=True), n_default),
                       ('generate_fa_spectrum-unpadded', lambda: frequency.generate_fa_spectrum(s, n_pad=False), L),
                       ('calc_fa_spectrum-unpadded', lambda: frequency.calc_fa_spectrum(s), L),
                       ('calc_fa_spectrum-n=%d' % (L + 1), lambda: frequency.calc_fa_spectrum(s, n=L + 1), L + 1)]
            for p in p2s:
                entries.append(('calc_fa_spectrum-p2_plus=%d' % p, (lambda p=p: frequency.calc_fa_spectrum(s, p2_plus=p)),
                                fr.n_rule(L, p)))
            entries.append(('object-lazy', lambda: (s.fa_spectrum, s.fa_freqs), n_default))
            for p in p2s[1:]:
                entries.append(('object-gen_fa_spectrum(p2_plus=%d)' % p,
                                (lambda p=p: (s.gen_fa_spectrum(p2_plus=p), s.fa_spectrum, s.fa_freqs)[1:]), fr.n_rule(L, p)))
            entries.append(('object-gen_fa_spectrum()-after-explicit', lambda: (s.gen_fa_spectrum(), s.fa_spectrum, s.fa_freqs)[1:],
                            n_default))
            got = {}
            for ename, fn, N in entries:
                sub = dict(base, mode='N=%d' % N, entry=ename)
                r.states += 1
                r.cls('odd-N' if N % 2 else 'even-N')
                ok, out = r.call('values', sub, fn)
                if not ok:
                    continue
                ok, a, f = unpack2(r, 'values', sub, out)
                if ok:
                    rspec, rfreqs = ref(N, dt)
                    cmp_spec(r, sub, a, f, rspec, rfreqs)
                    got[ename] = (a, f)
            if 'object-lazy' in got and 'generate_fa_spectrum-default' in got:
                r.transitions += 1
                r.cls('object==array')
                s4 = dict(base, mode='default')
                rspec, rfreqs = ref(n_default, dt)
                r.expect_close('object==array.values', s4, got['object-lazy'][0], got['generate_fa_spectrum-default'][0], rtol=1e-12,
                               scale=float(np.max(np.abs(rspec))))
                r.expect_close('object==array.grid', s4, got['object-lazy'][1], got['generate_fa_spectrum-default'][1], rtol=1e-12,
                               scale=float(np.max(np.abs(rfreqs))) if len(rfreqs) else 0.0)
            s3 = dict(base, mode='default')
            ok, p = r.call('max_fa_period', s3, im.max_fa_period, s)
            if ok:
                # as period_check, on arrays: the period N dt / k of SOME bin whose amplitude is within 1e-12 of the largest
                amp = np.abs(ref(n_default, dt)[0])
                tied = np.nonzero(amp >= float(np.max(amp)) * (1 - TIE))[0]
                want = [float('inf') if k == 0 else n_default * dt / int(k) for k in tied[:50]]
                try:
                    g = float(p)
                    okp = np.ndim(p) == 0 and any((g == q) or (q != float('inf') and abs(g - q) <= 1e-9 * q)
                                                  for q in ([float('inf')] if 0 in tied else []) +
                                                  [n_default * dt / int(k) for k in tied if k > 0])
                except Exception:
                    okp = False
                r.expect('max_fa_period', s3, okp, 'period %r is not the period of a largest-amplitude bin' % (p,), observed=p,
                         expected=want)
    return r


EXTREME_SCALES = (1e-170, 1e-160, 1e150, 1e160)


def run_extreme(r, w):
    """The statement is linear and scale-free: the same word at amplitudes whose SQUARES under- or overflow (the values themselves
    and dt x DFT stay finite and normal).  Spectrum = scale x reference, and the dominant period is that of the unscaled word."""
    L = len(w)
    ref = RefCache(w)
    r.nontrivial += 1
    n_default = fr.n_rule(L, 0)
    dt = 0.01
    rspec, rfreqs, _ = ref.get(n_default, dt)
    for sc in EXTREME_SCALES:
        r.cls('extreme-scale-%.0e' % sc)
        wf = np.array(w, dtype=float) * sc
        for cname in CLASSES:
            sub = {'w': w, 'scale': sc, 'dt': dt, 'cls': cname, 'mode': 'default'}
            r.states += 1
            ok, out = r.call('values', dict(sub, entry='object-lazy'), lambda: (lambda s_: (s_.fa_spectrum, s_.fa_freqs))(make(cname, wf, dt)))
            if ok:
                ok, a, f = unpack2(r, 'values', dict(sub, entry='object-lazy'), out)
                if ok:
                    try:
                        a1 = np.asarray(a) / sc
                    except Exception:
                        a1 = a
                    cmp_spec(r, dict(sub, entry='object-lazy'), a1, f, rspec, rfreqs)
            ok, p = r.call('max_fa_period', sub, lambda: im.max_fa_period(make(cname, wf, dt)))
            if ok:
                period_check(r, sub, p, rspec, n_default, dt)
    return r


# ------------------------------------------------------------------------------ linearity
def spectra(entry, cname, vals, dt, L):
    s = make(cname, vals, dt)
    if entry == 'object-lazy':
        return s.fa_spectrum
    if entry == 'object-p2_plus=1':
        s.gen_fa_spectrum(p2_plus=1)
        return s.fa_spectrum
    if entry == 'object-n=L+1':
        s.gen_fa_spectrum(n=L + 1)
        return s.fa_spectrum
    if entry == 'calc_fa_spectrum-unpadded':
        return frequency.calc_fa_spectrum(s)[0]
    if entry == 'calc_fa_spectrum-n=2L':
        return frequency.calc_fa_spectrum(s, n=2 * L)[0]
    if entry == 'generate_fa_spectrum-padded':
        return frequency.generate_fa_spectrum(s)[0]
    raise KeyError(entry)


LIN_ENTRIES = ('object-lazy', 'object-p2_plus=1', 'object-n=L+1', 'calc_fa_spectrum-unpadded', 'calc_fa_spectrum-n=2L',
               'generate_fa_spectrum-padded')


def run_pairs(r, x):
    L = len(x)
    xf = np.array(x, dtype=float)
    r.nontrivial += 1
    ys = [list(y) for y in words(SIGMA, L, L, nonzero=True)]
    for dt in DTS:
        for cname in CLASSES:
            for entry in LIN_ENTRIES:
                base = {'x': x, 'dt': dt, 'cls': cname, 'entry': entry}
                ok, sx = r.call('linearity', base, spectra, entry, cname, xf, dt, L)
                if not ok:
                    continue
                for y in ys:
                    sub = dict(base, y=y)
                    yf = np.array(y, dtype=float)
                    r.states += 1
                    r.transitions += 1
                    r.cls('linearity-pair')
                    ok, out = r.call('linearity', sub,
                                     lambda: (spectra(entry, cname, yf, dt, L),
                                              spectra(entry, cname, LIN_A * xf + LIN_B * yf, dt, L)))
                    if not ok:
                        continue
                    sy, sz = out
                    try:
                        want = LIN_A * np.asarray(sx) + LIN_B * np.asarray(sy)
                        scale = float(np.max(abs(LIN_A) * np.abs(sx) + abs(LIN_B) * np.abs(sy)))
                    except Exception as e:
                        r.fail('linearity', sub, 'malformed spectra: %s' % e, observed=(sx, sy))
                        continue
                    r.expect_close('linearity', sub, sz, want, rtol=1e-12, scale=scale,
                                   what='S(2x-3y) vs 2S(x)-3S(y)')
    return r


# ------------------------------------------------------------------------------ inverse family
def inv_records(N):
    recs = []
    for t in range(N):
        recs.append(('impulse@%d' % t, [0] * t + [2] + [0] * (N - 1 - t)))
    recs.append(('mixed', [SIGMA[(t * t + t // 2) % 3] for t in range(N)]))
    recs.append(('alternating', [2 if t % 2 == 0 else -1 for t in range(N)]))
    if N >= 6:
        recs.append(('short-mixed', [SIGMA[(t * t + t // 2 + 1) % 3] for t in range(N - 3)]))
    return recs


def run_inverse(r, N):
    for name, x in inv_records(N):
        if not any(x):
            continue
        r.nontrivial += 1
        ref = RefCache(x)
        for dt in DTS:
            r.states += 1
            r.cls('even-N')
            rspec, rfreqs, rtop = ref.get(N, dt)
            sub = {'N': N, 'rec': name, 'dt': dt}
            inverse_checks(r, sub, rspec.copy(), dt, x, N, 'reference', rt=1)
            if not name.startswith('impulse') or name in ('impulse@0', 'impulse@1', 'impulse@%d' % (N - 1)):
                def own():
                    s = eqsig.Signal(np.array(x, dtype=float), dt)
                    if len(x) == N:
                        return frequency.calc_fa_spectrum(s)[0]
                    s.gen_fa_spectrum(n=N)
                    return s.fa_spectrum
                ok, fas = r.call('values', dict(sub, entry='spectrum-for-roundtrip'), own)
                if ok:
                    r.expect_close('values', dict(sub, entry='spectrum-for-roundtrip'), fas, rspec, rtol=1e-9)
                    try:
                        fas = np.array(fas)
                    except Exception:
                        continue
                    inverse_checks(r, sub, fas, dt, x, N, 'implementation')
    return r


# ------------------------------------------------------------------------------ entry points
def run_case(case):
    r = Res()
    k = case['k']
    if k == 'word':
        return check_record(r, case['w'], case['w'], full_cross=bool(case.get('cross')))
    if k == 'long':
        w = long_record(case['L'], case['pat'])
        return check_record(r, w, 'long:%s:L=%d' % (case['pat'], case['L']), light=True)
    if k == 'obj':
        if 'w' in case:
            return run_obj(r, case['w'], case['w'])
        return run_obj(r, long_record(case['L'], case['pat']), 'long:%s:L=%d' % (case['pat'], case['L']))
    if k == 'scaled':
        sc = float(case['scale'])
        r.cls('scaled-%.0e' % sc)
        if 'w' in case:
            w, tag = case['w'], {'w': case['w'], 'scale': sc}
        else:
            w, tag = long_record(case['L'], case['pat']), 'long:%s:L=%d:scale=%g' % (case['pat'], case['L'], sc)
        return check_record(r, [sc * v for v in w], tag, light=True, dts=SCALED_DTS)
    if k == 'extreme':
        return run_extreme(r, case['w'])
    if k == 'near':
        return run_near(r, case['N'])
    if k == 'pow2':
        return run_pow2(r, case['e'], case['off'])
    if k == 'orders':
        return run_orders(r, case['w'], bool(case.get('deep')))
    if k == 'pair':
        return run_pairs(r, case['x'])
    if k == 'inv':
        return run_inverse(r, case['N'])
    raise ValueError('unknown case kind %r' % (k,))


def snippet(case, v):
    sub = v.get('sub') or {}
    k = case['k']
    if k == 'pow2':
        L = (1 << case['e']) + case['off']
        return ("import numpy as np, eqsig\nfrom eqsig.fns import frequency\n"
                "sub = %r\nL = %d   # 2^%d %+d\nx = np.zeros(L)\nfor t, v in %r: x[t] = v\n"
                "s = eqsig.Signal(x, sub['dt'])\nN = 1\nwhile N < L: N *= 2\n"
                "print('npts', L, 'next power of two', N, 'expected bins', N // 2)\n"
                "print('generate_fa_spectrum bins', len(frequency.generate_fa_spectrum(s)[0]))\n"
                "print('calc_fa_spectrum(p2_plus=0) bins', len(frequency.calc_fa_spectrum(s, p2_plus=0)[0]), '(p2_plus=1)',\n"
                "      len(frequency.calc_fa_spectrum(s, p2_plus=1)[0]), 'expected', N)\n"
                "print('object bins', len(s.fa_spectrum), 'df', s.fa_freqs[1], 'expected', 1 / (N * s.dt))\n"
                % (sub, L, case['e'], case['off'], pow2_record(L)))
    if k == 'extreme':
        rec = [float(sub.get('scale', 1)) * x for x in case['w']]
    elif k in ('word', 'obj', 'scaled') and 'w' in case:
        rec = [float(case.get('scale', 1)) * x for x in case['w']]
    elif k in ('long', 'obj', 'scaled'):
        rec = [float(case.get('scale', 1)) * x for x in long_record(case['L'], case['pat'])]
    elif k == 'pair':
        rec = case['x']
    elif k == 'near':
        rec = [float(x) for x in near_record(case['N'], sub.get('k1', 1), sub.get('k2', 2), sub.get('eps', 1e-6), sub.get('scale', 1.0))]
    else:
        rec = dict(inv_records(case['N'])).get(sub.get('rec'))
        sub = dict(sub, mode='n=%d' % case['N'])
    pre = ''
    if 'prev_len' in sub:
        pre = ("# object history: constructed with another record of length %d, queried (%s), then reset_values(rec)\n"
               "s = eqsig.Signal(np.array(%r, float), sub['dt']); s.fa_spectrum; s.reset_values(np.array(rec, float))\n"
               % (sub['prev_len'], sub.get('before'), long_record(int(sub['prev_len']), 'mixed')))
    return ("import numpy as np, eqsig\nfrom eqsig.fns import frequency\n"
            "sub = %r\nrec = %r\n"
            "s = eqsig.Signal(np.array(rec, float), sub['dt']); kw = {}\n%s"
            "m = str(sub.get('mode', ''))\n"
            "if m.startswith('n='): kw = {'n': int(m[2:])}\n"
            "if m.startswith('p2_plus='): kw = {'p2_plus': int(m[8:])}\n"
            "s.gen_fa_spectrum(**kw); N = kw.get('n') or 2 * len(s.fa_spectrum)\n"
            "print('spectrum', s.fa_spectrum); print('freqs', s.fa_freqs, 'expected k/(N dt):', np.arange(N // 2) / (N * s.dt))\n"
            "print('max_fa_period', eqsig.im.max_fa_period(s), 'abs', abs(s.fa_spectrum))\n"
            "print('len fas2values', len(frequency.fas2values(s.fa_spectrum, s.dt)), 'N', N)\n"
            "if 'then' in sub:   # round trip: the object the inverse helper returns, fed back into the forward functions\n"
            "    s2 = frequency.fas2signal(s.fa_spectrum, s.dt); print('round trip', s2.values.dtype, s2.fa_spectrum, 'built from', s.fa_spectrum)\n"
            "print('npts', s.npts, '-> default N = next power of two >= npts; sub[mode] names the N of the statement')\n"
            % (sub, rec, pre))
