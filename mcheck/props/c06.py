"""C06 - Fourier amplitude spectrum = dt x DFT of the zero-padded record, on the stated grid.

Engine T x G.  Every non-zero word over {-1,0,2} of length 2..L is a record; at every node the
real code runs under the complete menu dt x {Signal, AccSignal} x padding mode x entry point and
is compared with a naive O(N^2) DFT (explicit double sum; N from the statement's rule by integer
arithmetic).  The statement's consequences are checked as relations between executions
(object == array level, linearity on all pairs, trailing zeros that keep N = the tree edge
"append a zero sample", Parseval with the reference supplying the bin the one-sided spectrum
omits) and the inverse helpers / dominant-period measure against exact references.
The array-level functions take the Signal object: they are run on a fresh object and - all on the same
object - on objects with a history (default spectrum read before; spectrum generated with non-default
arguments before), and the object is re-read afterwards.

Pool-case kinds:
  word   one record with all configurations inside
  long   deterministic longer records around powers of two (lengths the word tree cannot reach)
  pair   one word x with every word y of the same length: spectrum(2x-3y) = 2 S(x) - 3 S(y)
  inv    one even N: inverse helpers on the spectra of a basis (all impulses) and of mixed records
"""
import numpy as np

from ..target import eqsig, frequency, im
from ..result import Res
from ..compare import words
from ..refs import freq_ref as fr

SIGMA = (-1, 0, 2)
DTS = (0.01, 0.5)
CLASSES = ('Signal', 'AccSignal')
LIN_A, LIN_B = 2.0, -3.0
TIE = 1e-12


# ------------------------------------------------------------------------------ enumeration
def build(tier, seed):
    quick = tier == 'quick'
    L = 7 if quick else 9
    LP = 4 if quick else 5
    LX = 4 if quick else 6      # words up to this length: complete cross (object history x array-level entry point)
    inv_n = list(range(2, 42, 2)) if quick else list(range(2, 66, 2)) + [96, 100, 128, 130, 200, 256]
    longs = [8, 15, 16, 17, 31, 32, 33] if quick else [8, 15, 16, 17, 31, 32, 33, 63, 64, 65, 100, 127, 128, 129, 255,
                                                      256, 257]
    cases = []
    for w in words(SIGMA, 2, L, nonzero=True):
        cases.append({'k': 'word', 'w': list(w), 'cross': len(w) <= LX})
    for n in longs:
        for pat in ('first', 'last', 'mixed'):
            cases.append({'k': 'long', 'L': n, 'pat': pat})
    for x in words(SIGMA, 2, LP, nonzero=True):
        cases.append({'k': 'pair', 'x': list(x)})
    for n in inv_n:
        cases.append({'k': 'inv', 'N': n})
    return {
        'cases': cases,
        'rule': 'all non-zero words over {-1,0,2} of length 2..%d (one pool case per word) x dt in %s x {Signal, AccSignal} '
                'x padding modes {default, p2_plus 1..3, n in {L, L+1, 2L, next odd > L+1}} x entry points {object lazy '
                'properties, object gen_fa_spectrum / generate_fa_spectrum, calc_fa_spectrum (p2_plus 0..3, n, unpadded), '
                'generate_fa_spectrum (padded, unpadded)}; the array-level entry points run on a fresh object and, all on the '
                'same object, after each object history {default spectrum read lazily, gen_fa_spectrum(p2_plus=1), '
                'gen_fa_spectrum(n = next odd > L+1)} (words of length <= %d: every padding mode as history x calc_fa_spectrum in '
                'every padding mode), followed by a re-read of the object; + 3 deterministic records for each length in %s; + all ordered '
                'pairs of words of equal length <= %d (linearity); + inverse helpers for every even N in %s on all impulses '
                'and mixed records; non-trivial = record not identically zero' % (L, list(DTS), LX, longs, LP, inv_n),
        'bounds': {'alphabet': SIGMA, 'max_len': L, 'dt': DTS, 'p2_plus': [0, 1, 2, 3], 'n': ['L', 'L+1', '2L', '(L+2)|1'],
                   'pair_max_len': LP, 'history_full_cross_max_len': LX,
                   'object_history_before_array_level_call': ['fresh', 'lazy-read', 'gen_fa_spectrum(p2_plus=1)',
                                                              'gen_fa_spectrum(n=(L+2)|1)', 'every padding mode (short words)'], 'inverse_even_N': inv_n, 'long_lengths': longs, 'tie_tolerance': TIE},
        'required_classes': ['odd-N', 'even-N', 'pow2-length', 'non-pow2-length', 'p2_plus>0', 'explicit-n', 'n=npts',
                             'n>npts', 'unpadded', 'padded-default', 'Signal', 'AccSignal', 'int-input',
                             'grid-nonempty-odd-N', 'argmax-unique', 'argmax-tie', 'argmax-bin0', 'argmax-positive-bin',
                             'argmax-abs-differs-from-complex-order', 'linearity-pair', 'trailing-zeros-keep-N',
                             'parseval-even-N', 'parseval-odd-N', 'inverse-pow2-N', 'inverse-non-pow2-N',
                             'inverse-roundtrip', 'inverse-nonzero-mean', 'inverse-nonzero-nyquist', 'object==array',
                             'array-level-on-fresh-object', 'array-level-after-default-spectrum',
                             'array-level-after-non-default-spectrum'],
        'assumptions': ['sample values outside {-1,0,2} (and their linear combinations 2x-3y) are not examined',
                        'record lengths above the bound only through the listed long / inverse families',
                        'dt only on the menu; requested n >= npts (zero padding, never truncation)',
                        'bins k = 0..N/2-1 is read as 0..floor(N/2)-1 for odd N',
                        'inverse helpers only for even N (the one-sided spectrum of an odd N does not determine the record)',
                        'reference: naive double-sum DFT in double precision, N by integer arithmetic; comparisons at 1e-9 of '
                        'the series peak; arg-max ties within 1e-12 of the maximum accept every tied bin'],
    }


def long_record(n, pat):
    if pat == 'first':
        return [2] + [0] * (n - 1)
    if pat == 'last':
        return [0] * (n - 1) + [-1]
    return [SIGMA[(t * t + t // 2) % 3] for t in range(n)]


def modes_for(L):
    ms = [('default', {}), ('p2_plus=1', {'p2_plus': 1}), ('p2_plus=2', {'p2_plus': 2}), ('p2_plus=3', {'p2_plus': 3})]
    for n in (L, L + 1, 2 * L, (L + 2) | 1):
        ms.append(('n=%d' % n, {'n': n}))
    return ms


def histories_for(L, full):
    """What the object handed to an array-level function has done before: nothing; its default spectrum was read through the
    lazy properties; gen_fa_spectrum with non-default arguments (full: every padding mode of modes_for; otherwise one
    p2_plus and one explicit n whose N is odd, hence never the default power of two)."""
    hs = [('fresh', None), ('lazy-read', None)]
    if full:
        hs += [('gen_fa_spectrum(%s)' % mname, kw) for mname, kw in modes_for(L)]
    else:
        hs += [('gen_fa_spectrum(p2_plus=1)', {'p2_plus': 1}), ('gen_fa_spectrum(n=%d)' % ((L + 2) | 1), {'n': (L + 2) | 1})]
    return hs


def array_entries(L, full, history):
    """(name, fn(sig), N of the statement) for the array-level functions on an object with a history: the four entry points
    with their own rule + calc_fa_spectrum(p2_plus=0) (full: calc_fa_spectrum in every padding mode)."""
    n_default = fr.n_rule(L, 0)
    ents = [('calc_fa_spectrum-unpadded', lambda s: frequency.calc_fa_spectrum(s), L),
            ('generate_fa_spectrum-unpadded', lambda s: frequency.generate_fa_spectrum(s, n_pad=False), L),
            ('generate_fa_spectrum-padded', lambda s: frequency.generate_fa_spectrum(s, n_pad=True), n_default),
            ('generate_fa_spectrum-default', lambda s: frequency.generate_fa_spectrum(s), n_default)]
    if history == 'fresh':      # calc_fa_spectrum in every padding mode on a fresh object: the mode loop of check_record
        return ents
    for mname, kw in (modes_for(L) if full else [('default', {})]):
        akw = dict(kw) if kw else {'p2_plus': 0}
        ents.append(('calc_fa_spectrum-%s' % ('p2_plus=0' if not kw else mname),
                     (lambda s, akw=akw: frequency.calc_fa_spectrum(s, **akw)),
                     fr.n_rule(L, akw.get('p2_plus', 0), akw.get('n'))))
    return ents


# ------------------------------------------------------------------------------ helpers
class RefCache(object):
    """Reference spectra of one record, per N (the DFT does not depend on dt)."""

    def __init__(self, w):
        self.w = w
        self.X = {}

    def get(self, N, dt):
        if N not in self.X:
            self.X[N] = fr.naive_dft(self.w, N, range(0, N // 2 + 1))
        X = self.X[N]
        pts = N // 2
        spec = np.array([dt * v for v in X[:pts]], dtype=complex)
        freqs = np.array([k / (N * dt) for k in range(pts)], dtype=float)
        return spec, freqs, dt * X[pts]


def make(cls, vals, dt):
    return getattr(eqsig, cls)(vals, dt)


def unpack2(r, claim, sub, out):
    try:
        a, f = out
        return True, a, f
    except Exception:
        r.fail(claim, sub, 'result is not a (spectrum, frequencies) pair', observed=out)
        return False, None, None


def cmp_spec(r, sub, spec, freqs, rspec, rfreqs):
    ok1 = r.expect_close('values', sub, spec, rspec, rtol=1e-9, what='spectrum vs dt*DFT, bins 0..floor(N/2)-1')
    ok2 = r.expect_close('grid', sub, freqs, rfreqs, rtol=1e-9, what='frequencies vs k/(N*dt)')
    return ok1 and ok2


def period_check(r, sub, got, rspec, N, dt):
    """Returned period must be the period N*dt/k of SOME bin whose amplitude is within 1e-12 of the largest."""
    amp = [abs(v) for v in rspec]
    mx = max(amp)
    tied = [k for k, a in enumerate(amp) if a >= mx * (1 - TIE)]
    r.cls('argmax-tie' if len(tied) > 1 else 'argmax-unique')
    r.cls('argmax-bin0' if 0 in tied else 'argmax-positive-bin')
    # does the complex (lexicographic real, imag) order pick a bin outside the tied set?
    lex = max(range(len(rspec)), key=lambda k: (round(rspec[k].real, 9), round(rspec[k].imag, 9)))
    if lex not in tied:
        r.cls('argmax-abs-differs-from-complex-order')
    want = [float('inf') if k == 0 else N * dt / k for k in tied]
    try:
        g = float(got)
        if np.ndim(got) != 0:
            raise ValueError('not a scalar')
    except Exception:
        return r.fail('max_fa_period', sub, 'result is not a scalar period', observed=got, expected=want)
    ok = any((g == p) or (p != float('inf') and abs(g - p) <= 1e-9 * p) for p in want)
    return r.expect('max_fa_period', sub, ok, 'period %r is not the period of a largest-amplitude bin (bins %r of %d)'
                    % (g, tied, len(amp)), observed=g, expected=want)


def inverse_checks(r, sub, fas, dt, x, N, feed):
    """fas2values / fas2signal on a one-sided spectrum of an even N."""
    want = np.array([float(v) for v in fr.padded_minus_mean_and_nyquist(x, N)])
    scale = float(max(abs(v) for v in x)) or 1.0
    r.cls('inverse-pow2-N' if fr.is_pow2(N) else 'inverse-non-pow2-N')
    if feed == 'implementation':
        r.cls('inverse-roundtrip')
    xpad = list(x) + [0] * (N - len(x))
    if sum(xpad) != 0:
        r.cls('inverse-nonzero-mean')
    if sum(v if t % 2 == 0 else -v for t, v in enumerate(xpad)) != 0:
        r.cls('inverse-nonzero-nyquist')
    s2 = dict(sub, feed=feed)
    # the spectrum handed to the helpers (for feed='implementation' it is the array the object / array function returned, i.e. the
    # object's own cached spectrum) must still be dt x DFT afterwards: snapshot it around every helper call
    snap = np.array(fas, copy=True) if isinstance(fas, np.ndarray) else None

    def spectrum_unchanged(fn):
        if snap is None:
            return
        r.n_cmp += 1
        if not (isinstance(fas, np.ndarray) and fas.shape == snap.shape and np.array_equal(fas, snap)):
            r.fail('inverse.spectrum-unchanged', dict(s2, fn=fn), '%s modified the spectrum it was given (it is no longer dt x DFT of the record)' % fn,
                   observed=fas, expected=snap)
            try:
                fas[...] = snap
            except Exception:
                pass
    ok, v = r.call('inverse.values', dict(s2, fn='fas2values'), frequency.fas2values, fas, dt)
    spectrum_unchanged('fas2values')
    if ok:
        check_series(r, dict(s2, fn='fas2values'), v, want, N, scale)
    for stype, cname in (('signal', 'Signal'), ('acc_signal', 'AccSignal')):
        s3 = dict(s2, fn='fas2signal', stype=stype)
        ok, sg = r.call('inverse.values', s3, frequency.fas2signal, fas, dt, stype=stype)
        spectrum_unchanged('fas2signal')
        if not ok:
            continue
        try:
            vals, sdt, tname = sg.values, sg.dt, type(sg).__name__
        except Exception:
            r.fail('inverse.signal', s3, 'result has no values/dt', observed=sg)
            continue
        check_series(r, s3, vals, want, N, scale)
        r.expect('inverse.signal', s3, tname == cname and sdt == dt, 'wrong object type or dt', observed=(tname, sdt),
                 expected=(cname, dt))
    if feed == 'reference':
        # default stype is the plain Signal
        ok, sg = r.call('inverse.signal', dict(s2, fn='fas2signal', stype='default'), frequency.fas2signal, fas, dt)
        if ok:
            r.expect('inverse.signal', dict(s2, fn='fas2signal', stype='default'), type(sg).__name__ == 'Signal',
                     'default stype does not give a Signal', observed=type(sg).__name__)


def check_series(r, sub, got, want, N, scale):
    try:
        n = len(got)
    except Exception:
        return r.fail('inverse.length', sub, 'result has no length', observed=got)
    if not r.expect('inverse.length', sub, n == N, 'reconstructed record has %d samples, padded record has %d' % (n, N),
                    observed=n, expected=N):
        return False
    return r.expect_close('inverse.values', sub, got, want.astype(complex), rtol=1e-9, scale=scale,
                          what='padded record minus mean and Nyquist component')


# ------------------------------------------------------------------------------ one record
def check_record(r, w, tag, light=False, full_cross=False):
    """All configurations for one record.  tag identifies the record in violation keys."""
    L = len(w)
    ref = RefCache(w)
    r.nontrivial += 1
    r.cls('pow2-length' if fr.is_pow2(L) else 'non-pow2-length')
    wf = np.array(w, dtype=float)
    sumsq = sum(v * v for v in w)
    modes = modes_for(L)
    n_default = fr.n_rule(L, 0)
    for dt in DTS:
        for cname in CLASSES:
            r.cls(cname)
            base = {'w': tag, 'dt': dt, 'cls': cname}
            # ---- lazy properties of a fresh object (default padding)
            rspec, rfreqs, rtop = ref.get(n_default, dt)
            r.states += 1
            r.cls('padded-default')

            def lazy():
                s = make(cname, wf, dt)
                return s.fa_spectrum, s.fa_freqs, s.fa_frequencies, s.fa_spectrum_abs
            sub = dict(base, mode='default', entry='object-lazy')
            ok, out = r.call('values', sub, lazy)
            if ok:
                cmp_spec(r, sub, out[0], out[1], rspec, rfreqs)
                r.expect_close('grid', dict(sub, entry='object-lazy-fa_frequencies'), out[2], rfreqs, rtol=1e-9)
                r.expect_close('values', dict(sub, entry='object-lazy-fa_spectrum_abs'), out[3], np.abs(rspec), rtol=1e-9,
                               scale=float(np.max(np.abs(rspec))))

            def lazy_freq_first():
                s = make(cname, wf, dt)
                f = s.fa_freqs
                return s.fa_spectrum, f
            sub = dict(base, mode='default', entry='object-lazy-freqs-first')
            ok, out = r.call('values', sub, lazy_freq_first)
            if ok:
                cmp_spec(r, sub, out[0], out[1], rspec, rfreqs)
            if cname == 'Signal':
                r.cls('int-input')

                def lazy_int():
                    s = make(cname, np.array(w, dtype=np.int64), dt)
                    return s.fa_spectrum, s.fa_freqs
                sub = dict(base, mode='default', entry='object-lazy-int64')
                ok, out = r.call('values', sub, lazy_int)
                if ok:
                    cmp_spec(r, sub, out[0], out[1], rspec, rfreqs)

            def gen_method():
                s = make(cname, wf, dt)
                s.generate_fa_spectrum()
                return s.fa_spectrum, s.fa_freqs
            sub = dict(base, mode='default', entry='object-generate_fa_spectrum')
            ok, out = r.call('values', sub, gen_method)
            if ok:
                cmp_spec(r, sub, out[0], out[1], rspec, rfreqs)

            # ---- every padding mode: object gen_fa_spectrum and array-level calc_fa_spectrum
            for mname, kw in modes:
                N = fr.n_rule(L, kw.get('p2_plus', 0), kw.get('n'))
                r.states += 1
                r.cls('odd-N' if N % 2 else 'even-N')
                if N % 2 and N >= 5:
                    r.cls('grid-nonempty-odd-N')
                if kw.get('p2_plus', 0) > 0:
                    r.cls('p2_plus>0')
                if 'n' in kw:
                    r.cls('explicit-n')
                    r.cls('n=npts' if kw['n'] == L else 'n>npts')
                rspec, rfreqs, rtop = ref.get(N, dt)
                sub = dict(base, mode=mname, entry='object-gen_fa_spectrum')
                s = None

                def gen():
                    s_ = make(cname, wf, dt)
                    s_.gen_fa_spectrum(**kw)
                    return s_
                ok, s = r.call('values', sub, gen)
                ospec = ofreqs = None
                if ok:
                    ok, out = r.call('values', sub, lambda: (s.fa_spectrum, s.fa_freqs))
                    if ok:
                        ospec, ofreqs = out
                        cmp_spec(r, sub, ospec, ofreqs, rspec, rfreqs)
                        # Parseval: dt*sum x^2 = (1/(N dt)) sum_{k<N} |F_k|^2 ; missing top bin from the reference
                        try:
                            rhs = fr.parseval_rhs([complex(v) for v in np.asarray(ospec).tolist()], rtop, N, dt)
                            r.cls('parseval-odd-N' if N % 2 else 'parseval-even-N')
                            r.expect_close('parseval', sub, rhs, dt * sumsq, rtol=1e-9)
                        except Exception as e:
                            r.fail('parseval', sub, 'cannot evaluate the energy sum of the returned spectrum: %s' % e,
                                   observed=ospec)
                    # dominant period of the spectrum the object now holds
                    s3 = dict(base, mode=mname)
                    ok, p = r.call('max_fa_period', s3, im.max_fa_period, s)
                    if ok:
                        period_check(r, s3, p, rspec, N, dt)
                # array level, same N
                akw = dict(kw) if kw else {'p2_plus': 0}
                sub_a = dict(base, mode=mname, entry='calc_fa_spectrum')
                ok, out = r.call('values', sub_a, lambda: frequency.calc_fa_spectrum(make(cname, wf, dt), **akw))
                if ok:
                    ok, aspec, afreqs = unpack2(r, 'values', sub_a, out)
                    if ok:
                        cmp_spec(r, sub_a, aspec, afreqs, rspec, rfreqs)
                        if ospec is not None:
                            r.transitions += 1
                            r.cls('object==array')
                            s4 = dict(base, mode=mname)
                            r.expect_close('object==array.values', s4, ospec, aspec, rtol=1e-12,
                                           scale=float(np.max(np.abs(rspec))))
                            r.expect_close('object==array.grid', s4, ofreqs, afreqs, rtol=1e-12,
                                           scale=float(np.max(np.abs(rfreqs))) if len(rfreqs) else 0.0)
                # trailing zeros that keep N (tree edges "append zero samples")
                if ospec is not None and not light:
                    zmax = (kw['n'] - L) if 'n' in kw else (n_default - L)
                    for z in range(1, zmax + 1):
                        wz = np.concatenate([wf, np.zeros(z)])
                        s5 = dict(base, mode=mname, zeros=z)
                        r.transitions += 1
                        r.cls('trailing-zeros-keep-N')

                        def genz():
                            s_ = make(cname, wz, dt)
                            s_.gen_fa_spectrum(**kw)
                            return s_.fa_spectrum, s_.fa_freqs
                        ok, out = r.call('trailing-zeros', s5, genz)
                        if ok:
                            r.expect_close('trailing-zeros.values', s5, out[0], ospec, rtol=1e-12,
                                           scale=float(np.max(np.abs(rspec))))
                            r.expect_close('trailing-zeros.grid', s5, out[1], ofreqs, rtol=1e-12,
                                           scale=float(np.max(np.abs(rfreqs))) if len(rfreqs) else 0.0)
                # inverse helpers (even N): fed with the reference spectrum and with the object's own
                if N % 2 == 0 and cname == 'Signal':
                    s6 = {'w': tag, 'dt': dt, 'N': N}
                    if mname == 'default' or 'n' in kw or not light:
                        inverse_checks(r, s6, rspec.copy(), dt, w, N, 'reference')
                        if ospec is not None:
                            try:
                                fas = np.array(ospec)
                            except Exception:
                                fas = None
                            if fas is not None:
                                inverse_checks(r, dict(s6, mode=mname), fas, dt, w, N, 'implementation')

            # ---- array-level entry points with their own rules, on objects with a history: the array-level functions
            # take the Signal object, so "dt x DFT of the record zero-padded to N" (N from the CALL's arguments) must hold
            # whatever spectrum that object was asked to generate / has handed out before; all array-level calls of one
            # history run on the SAME object, and afterwards the object must still hold the spectrum of its own history
            # (an array-level query leaves the object it is given unchanged).
            for hname, hkw in histories_for(L, full_cross):
                sub_h = dict(base, history=hname)

                def prepare():
                    s_ = make(cname, wf, dt)
                    if hname == 'lazy-read':
                        _ = (s_.fa_spectrum, s_.fa_freqs)
                    elif hname != 'fresh':
                        s_.gen_fa_spectrum(**hkw)
                    return s_
                ok, sh = r.call('values', dict(sub_h, entry='object-history'), prepare)
                if not ok:
                    continue
                n_hist = fr.n_rule(L, (hkw or {}).get('p2_plus', 0), (hkw or {}).get('n'))
                r.cls('array-level-on-fresh-object' if hname == 'fresh' else
                      'array-level-after-default-spectrum' if n_hist == n_default else 'array-level-after-non-default-spectrum')
                for ename, fn, N in array_entries(L, full_cross, hname):
                    r.states += 1
                    if hname != 'fresh':
                        r.transitions += 1
                    r.cls('unpadded' if N == L and 'unpadded' in ename else 'padded-default' if 'generate' in ename else
                          'array-level-mode')
                    r.cls('odd-N' if N % 2 else 'even-N')
                    if N % 2 and N >= 5:
                        r.cls('grid-nonempty-odd-N')
                    rspec, rfreqs, rtop = ref.get(N, dt)
                    sub = dict(sub_h, mode='N=%d' % N, entry=ename) if hname != 'fresh' else dict(base, mode='N=%d' % N, entry=ename)
                    ok, out = r.call('values', sub, fn, sh)
                    if ok:
                        ok, aspec, afreqs = unpack2(r, 'values', sub, out)
                        if ok:
                            cmp_spec(r, sub, aspec, afreqs, rspec, rfreqs)
                if hname != 'fresh':
                    # the object after the array-level queries: still the spectrum of its own history
                    sub = dict(sub_h, mode='N=%d' % n_hist, entry='object-after-array-level-calls')
                    ok, out = r.call('values', sub, lambda: (sh.fa_spectrum, sh.fa_freqs))
                    if ok:
                        rspec, rfreqs, rtop = ref.get(n_hist, dt)
                        cmp_spec(r, sub, out[0], out[1], rspec, rfreqs)
    return r


# ------------------------------------------------------------------------------ linearity
def spectra(entry, cname, vals, dt, L):
    s = make(cname, vals, dt)
    if entry == 'object-lazy':
        return s.fa_spectrum
    if entry == 'object-p2_plus=1':
        s.gen_fa_spectrum(p2_plus=1)
        return s.fa_spectrum
    if entry == 'object-n=L+1':
        s.gen_fa_spectrum(n=L + 1)
        return s.fa_spectrum
    if entry == 'calc_fa_spectrum-unpadded':
        return frequency.calc_fa_spectrum(s)[0]
    if entry == 'calc_fa_spectrum-n=2L':
        return frequency.calc_fa_spectrum(s, n=2 * L)[0]
    if entry == 'generate_fa_spectrum-padded':
        return frequency.generate_fa_spectrum(s)[0]
    raise KeyError(entry)


LIN_ENTRIES = ('object-lazy', 'object-p2_plus=1', 'object-n=L+1', 'calc_fa_spectrum-unpadded', 'calc_fa_spectrum-n=2L',
               'generate_fa_spectrum-padded')


def run_pairs(r, x):
    L = len(x)
    xf = np.array(x, dtype=float)
    r.nontrivial += 1
    ys = [list(y) for y in words(SIGMA, L, L, nonzero=True)]
    for dt in DTS:
        for cname in CLASSES:
            for entry in LIN_ENTRIES:
                base = {'x': x, 'dt': dt, 'cls': cname, 'entry': entry}
                ok, sx = r.call('linearity', base, spectra, entry, cname, xf, dt, L)
                if not ok:
                    continue
                for y in ys:
                    sub = dict(base, y=y)
                    yf = np.array(y, dtype=float)
                    r.states += 1
                    r.transitions += 1
                    r.cls('linearity-pair')
                    ok, out = r.call('linearity', sub,
                                     lambda: (spectra(entry, cname, yf, dt, L),
                                              spectra(entry, cname, LIN_A * xf + LIN_B * yf, dt, L)))
                    if not ok:
                        continue
                    sy, sz = out
                    try:
                        want = LIN_A * np.asarray(sx) + LIN_B * np.asarray(sy)
                        scale = float(np.max(abs(LIN_A) * np.abs(sx) + abs(LIN_B) * np.abs(sy)))
                    except Exception as e:
                        r.fail('linearity', sub, 'malformed spectra: %s' % e, observed=(sx, sy))
                        continue
                    r.expect_close('linearity', sub, sz, want, rtol=1e-12, scale=scale,
                                   what='S(2x-3y) vs 2S(x)-3S(y)')
    return r


# ------------------------------------------------------------------------------ inverse family
def inv_records(N):
    recs = []
    for t in range(N):
        recs.append(('impulse@%d' % t, [0] * t + [2] + [0] * (N - 1 - t)))
    recs.append(('mixed', [SIGMA[(t * t + t // 2) % 3] for t in range(N)]))
    recs.append(('alternating', [2 if t % 2 == 0 else -1 for t in range(N)]))
    if N >= 6:
        recs.append(('short-mixed', [SIGMA[(t * t + t // 2 + 1) % 3] for t in range(N - 3)]))
    return recs


def run_inverse(r, N):
    for name, x in inv_records(N):
        if not any(x):
            continue
        r.nontrivial += 1
        ref = RefCache(x)
        for dt in DTS:
            r.states += 1
            r.cls('even-N')
            rspec, rfreqs, rtop = ref.get(N, dt)
            sub = {'N': N, 'rec': name, 'dt': dt}
            inverse_checks(r, sub, rspec.copy(), dt, x, N, 'reference')
            if not name.startswith('impulse') or name in ('impulse@0', 'impulse@1', 'impulse@%d' % (N - 1)):
                def own():
                    s = eqsig.Signal(np.array(x, dtype=float), dt)
                    if len(x) == N:
                        return frequency.calc_fa_spectrum(s)[0]
                    s.gen_fa_spectrum(n=N)
                    return s.fa_spectrum
                ok, fas = r.call('values', dict(sub, entry='spectrum-for-roundtrip'), own)
                if ok:
                    r.expect_close('values', dict(sub, entry='spectrum-for-roundtrip'), fas, rspec, rtol=1e-9)
                    try:
                        fas = np.array(fas)
                    except Exception:
                        continue
                    inverse_checks(r, sub, fas, dt, x, N, 'implementation')
    return r


# ------------------------------------------------------------------------------ entry points
def run_case(case):
    r = Res()
    k = case['k']
    if k == 'word':
        return check_record(r, case['w'], case['w'], full_cross=bool(case.get('cross')))
    if k == 'long':
        w = long_record(case['L'], case['pat'])
        return check_record(r, w, 'long:%s:L=%d' % (case['pat'], case['L']), light=True)
    if k == 'pair':
        return run_pairs(r, case['x'])
    if k == 'inv':
        return run_inverse(r, case['N'])
    raise ValueError('unknown case kind %r' % (k,))


def snippet(case, v):
    sub = v.get('sub') or {}
    if case['k'] == 'word':
        rec = case['w']
    elif case['k'] == 'long':
        rec = long_record(case['L'], case['pat'])
    elif case['k'] == 'pair':
        rec = case['x']
    else:
        rec = dict(inv_records(case['N'])).get(sub.get('rec'))
        sub = dict(sub, mode='n=%d' % case['N'])
    return ("import numpy as np, eqsig\nfrom eqsig.fns import frequency\n"
            "sub = %r\nrec = %r\n"
            "s = eqsig.Signal(np.array(rec, float), sub['dt']); kw = {}\n"
            "m = str(sub.get('mode', ''))\n"
            "if m.startswith('n='): kw = {'n': int(m[2:])}\n"
            "if m.startswith('p2_plus='): kw = {'p2_plus': int(m[8:])}\n"
            "s.gen_fa_spectrum(**kw); N = kw.get('n') or 2 * len(s.fa_spectrum)\n"
            "print('spectrum', s.fa_spectrum); print('freqs', s.fa_freqs, 'expected k/(N dt):', np.arange(N // 2) / (N * s.dt))\n"
            "print('max_fa_period', eqsig.im.max_fa_period(s), 'abs', abs(s.fa_spectrum))\n"
            "print('len fas2values', len(frequency.fas2values(s.fa_spectrum, s.dt)), 'N', N)\n"
            % (sub, rec))
