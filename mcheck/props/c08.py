"""C08 - velocity / displacement are cumulative integrals; PGA/PGV/PGD are max abs.

Engine T (input-history tree): every word over {-2..2} of length 2..L is a record; a tree
edge appends one sample.  At every node the real code runs under the full configuration
menu (dt x trap x entry point x dtype) and is compared with an exact-rational reference;
the tree edge is a differential oracle (the integrals are causal: output on the prefix is
the prefix of the output).
"""
from fractions import Fraction

import itertools

import numpy as np

from ..target import eqsig, displacements, im
from ..result import Res
from ..compare import words
from . import c04

SIGMA = (-2, -1, 0, 1, 2)
DTS = (0.005, 0.01, 0.5, 1.0)
ODD_DTS = (1.0 / 1024, 1.0 / 3, 1e-9, 0.012345678912345, 2.5e-5, 7.0)   # not multiples of 1e-8 / far from the usual sampling steps
PEAK_NAMES = ('pga', 'pgv', 'pgd')


def build(tier, seed):
    L = 6 if tier == 'quick' else 8
    cases = [list(w) for w in words(SIGMA, 2, L)]
    # long records with closed-form / exactly summable content (size-dependent paths, accumulation of rounding in low precision)
    longs = [['long', kind, nlong, dty] for kind in ('const', 'linear', 'sawtooth') for nlong in ((20000,) if tier == 'quick' else (20000, 70001))
             for dty in ('float64', 'float32', 'int64')]
    step = max(1, len(cases) // len(longs))
    for j, c in enumerate(longs):
        cases.insert(j * step, c)
    return {
        'cases': cases,
        'rule': 'all words over {-2..2} of length 2..%d (one pool case per word) x dt in %s x trap in {T,F} x '
                '{array fn float64, array fn int64, alias fn, AccSignal lazy properties, AccSignal explicit '
                'generator}; non-trivial = word not identically zero' % (L, list(DTS)),
        'bounds': {'alphabet': SIGMA, 'max_len': L, 'dt': DTS, 'trap': [True, False]},
        'required_classes': ['trap', 'rect', 'const-acc', 'linear-acc', 'neg-peak-dominant', 'pos-peak-dominant',
                             'prefix-edge', 'int-input', 'object-reused', 'dtype-variant', 'extreme-scale', 'object-after-edit', 'object-after-query', 'narrow-int-record', 'peak-read-order', 'odd-dt', 'low-precision-record', 'long-closed-form', 'peaks-after-explicit-generator'],
        'assumptions': ['sample values outside {-2..2} and lengths above the bound are not examined',
                        'dt only on the menu', 'reference: exact rational cumulative sums (fractions.Fraction)'],
    }


def ref_series(w, dt, trap):
    """Exact rational v, d.  Written from the statement, not from the code."""
    h = Fraction(dt)
    a = [Fraction(x) for x in w]
    v = [Fraction(0)]
    d = [Fraction(0)]
    for i in range(1, len(a)):
        if trap:
            v.append(v[-1] + h * (a[i] + a[i - 1]) / 2)
        else:
            v.append(v[-1] + h * a[i - 1])
    for i in range(1, len(a)):
        if trap:
            d.append(d[-1] + h * (v[i] + v[i - 1]) / 2)
        else:
            d.append(d[-1] + h * v[i])
    return v, d


def fl(xs):
    return np.array([float(x) for x in xs])


def long_record(kind, n):
    i = np.arange(n)
    if kind == 'const':
        return np.full(n, 2, dtype=np.int64), 1
    if kind == 'linear':
        return i.astype(np.int64), 1024            # a_i = i / 1024 (exact in single precision up to 2^24)
    return ((i % 7) - 3).astype(np.int64), 1        # sawtooth over {-3..3}


def run_long(case):
    r = Res()
    _, kind, n, dty = case
    num, den = long_record(kind, n)
    r.nontrivial += 1
    r.cls('long-closed-form')
    rec = (num / den).astype(dty) if dty != 'int64' else None
    if dty == 'int64':
        if den != 1:
            r.disabled['long linear record is not integer valued'] += 1
            return r
        rec = num.copy()
    for dt in (0.01, 0.5):
        for trap in (True, False):
            # exact integer cumulative sums: v_i = dt/(2 den) * V_i, d_i = dt^2/(4 den) * D_i (trapezoid); v_i = dt/den * V_i, d_i = dt^2/den * D_i (rectangle)
            a = [int(x) for x in num]
            V = [0] * n
            D = [0] * n
            if trap:
                for i in range(1, n):
                    V[i] = V[i - 1] + a[i] + a[i - 1]
                for i in range(1, n):
                    D[i] = D[i - 1] + V[i] + V[i - 1]
                vr = np.array([float(Fraction(x) * Fraction(dt) / (2 * den)) for x in V[:: max(1, n // 400)]])
                dr = np.array([float(Fraction(x) * Fraction(dt) ** 2 / (4 * den)) for x in D[:: max(1, n // 400)]])
            else:
                for i in range(1, n):
                    V[i] = V[i - 1] + a[i - 1]
                for i in range(1, n):
                    D[i] = D[i - 1] + V[i]
                vr = np.array([float(Fraction(x) * Fraction(dt) / den) for x in V[:: max(1, n // 400)]])
                dr = np.array([float(Fraction(x) * Fraction(dt) ** 2 / den) for x in D[:: max(1, n // 400)]])
            tolr = 1e-9 if dty != 'float32' else 1e-6
            sv, sd = float(np.max(np.abs(vr))) or 1.0, float(np.max(np.abs(dr))) or 1.0
            for ent, fn in (('array', lambda: displacements.calc_velo_and_disp_from_accel_arr(rec, dt, trap=trap)),
                            ('object', lambda: (lambda s_: (s_.generate_displacement_and_velocity_series(trap=trap), (s_.velocity, s_.displacement))[1])(
                                eqsig.AccSignal(rec, dt)))):
                sub = {'long': kind, 'n': n, 'record': dty, 'dt': dt, 'trap': trap, 'entry': ent}
                r.states += 1
                ok, out = r.call('series', sub, fn)
                if not ok:
                    continue
                try:
                    v, d = (np.asarray(x, dtype=float) for x in out)
                    assert v.shape == (n,) and d.shape == (n,), 'series of the record length expected, got %r %r' % (v.shape, d.shape)
                    v, d = v[:: max(1, n // 400)], d[:: max(1, n // 400)]
                except Exception as e:
                    r.fail('series', sub, 'malformed result: %s' % e)
                    continue
                r.expect_close('series.velocity', sub, v, vr, rtol=0, atol=tolr * sv, what='every %d-th sample' % max(1, n // 400))
                r.expect_close('series.displacement', sub, d, dr, rtol=0, atol=tolr * sd, what='every %d-th sample' % max(1, n // 400))
    return r


def run_case(w):
    if w and isinstance(w[0], str):
        return run_long(w)
    r = Res()
    n = len(w)
    nz = any(w)
    if nz:
        r.nontrivial += 1
    amax = max(abs(x) for x in w)
    is_const = len(set(w)) == 1 and nz
    diffs = set(w[i + 1] - w[i] for i in range(n - 1))
    is_lin = len(diffs) == 1 and diffs != {0} and n >= 3
    if is_const:
        r.cls('const-acc')
    if is_lin:
        r.cls('linear-acc')
    if -min(w) > max(w):
        r.cls('neg-peak-dominant')
    elif max(w) > -min(w):
        r.cls('pos-peak-dominant')
    for dt in DTS:
        for trap in (True, False):
            sub = {'w': w, 'dt': dt, 'trap': trap}
            r.cls('trap' if trap else 'rect')
            r.states += 1
            vref, dref = ref_series(w, dt, trap)
            vr, dr = fl(vref), fl(dref)
            at_v = 1e-13 * amax * dt * n
            at_d = at_v * dt * n
            outs = {}
            a_f = np.array(w, dtype=float)
            a_i = np.array(w, dtype=np.int64)
            entries = [
                ('array-f64', lambda: displacements.calc_velo_and_disp_from_accel_arr(a_f, dt, trap=trap)),
                ('array-i64', lambda: displacements.calc_velo_and_disp_from_accel_arr(a_i, dt, trap=trap)),
                ('alias', lambda: displacements.velocity_and_displacement_from_acceleration(a_f, dt, trap=trap)),
                ('alias-positional', lambda: displacements.velocity_and_displacement_from_acceleration(a_f, dt, trap)),
            ]
            # python sequences (the record is documented as array_like; the rectangle path used to raise TypeError for them - repaired)
            entries.append(('array-list', lambda: displacements.calc_velo_and_disp_from_accel_arr([float(x) for x in w], dt, trap=trap)))
            entries.append(('array-tuple-int', lambda: displacements.calc_velo_and_disp_from_accel_arr(tuple(w), dt, trap=trap)))

            # sequences on one object: an explicit request for one rule after the other rule's series already exist
            def obj_after_lazy():
                s = eqsig.AccSignal(np.array(w, dtype=float), dt)
                s.velocity
                s.pgd
                s.generate_displacement_and_velocity_series(trap=trap)
                return s.velocity, s.displacement

            def obj_after_other_rule():
                s = eqsig.AccSignal(np.array(w, dtype=float), dt)
                s.generate_displacement_and_velocity_series(trap=not trap)
                s.generate_displacement_and_velocity_series(trap=trap)
                return s.velocity, s.displacement
            entries.append(('object-generate-after-lazy-read', obj_after_lazy))
            entries.append(('object-generate-after-other-rule', obj_after_other_rule))

            def obj_explicit():
                s = eqsig.AccSignal(np.array(w, dtype=float), dt)
                s.generate_displacement_and_velocity_series(trap=trap)
                return s.velocity, s.displacement
            entries.append(('object-generate', obj_explicit))
            if trap:
                def obj_lazy():
                    s = eqsig.AccSignal(np.array(w, dtype=float), dt)
                    return s.velocity, s.displacement
                entries.append(('object-lazy', obj_lazy))
            r.cls('int-input')
            for name, fn in entries:
                s2 = dict(sub, entry=name)
                ok, out = r.call('series', s2, fn)
                if not ok:
                    continue
                try:
                    v, d = out
                except Exception:
                    r.fail('series', s2, 'result is not a (velocity, displacement) pair', observed=out)
                    continue
                outs[name] = (v, d)
                r.expect_close('series.velocity', s2, v, vr, rtol=1e-9, atol=at_v)
                r.expect_close('series.displacement', s2, d, dr, rtol=1e-9, atol=at_d)
                try:
                    r.expect('series.start-zero', s2, float(np.asarray(v)[0]) == 0.0 and float(np.asarray(d)[0]) == 0.0,
                             'series do not start at zero', observed=(v, d))
                except Exception:
                    r.fail('series.start-zero', s2, 'cannot read first element', observed=(v, d))
            # narrow / unsigned integer records near the top of their range (digitiser counts): pairwise sums leave the dtype
            if n <= 5 and dt == DTS[0]:
                shifted_w = [int(x) + 2 for x in w]
                for nm, base, k, dty in (('int8x50', w, 50, np.int8), ('int16x15000', w, 15000, np.int16), ('int32x1e9', w, 10 ** 9, np.int32),
                                         ('uint8x60', shifted_w, 60, np.uint8), ('uint16x16000', shifted_w, 16000, np.uint16)):
                    rec = (np.array(base, dtype=np.int64) * k).astype(dty)
                    vb, db = (vref, dref) if base is w else ref_series(base, dt, trap)
                    vwant, dwant = fl(vb) * k, fl(db) * k
                    r.cls('narrow-int-record')
                    for ent, fn in (('array', lambda: displacements.calc_velo_and_disp_from_accel_arr(rec, dt, trap=trap)),
                                    ('object', lambda: (lambda s_: (s_.generate_displacement_and_velocity_series(trap=trap), (s_.velocity, s_.displacement))[1])(
                                        eqsig.AccSignal(rec, dt)))):
                        s2 = dict(sub, entry=ent, record=nm)
                        ok, out = r.call('series', s2, fn)
                        if not ok:
                            continue
                        try:
                            v, d = out
                        except Exception:
                            r.fail('series', s2, 'result is not a (velocity, displacement) pair', observed=out)
                            continue
                        r.expect_close('series.velocity', s2, v, vwant, rtol=1e-9, atol=at_v * k)
                        r.expect_close('series.displacement', s2, d, dwant, rtol=1e-9, atol=at_d * k)
            # closed forms (independent of the increment recursion)
            if trap and (is_const or is_lin) and 'array-f64' in outs:
                t = np.arange(n) * dt
                s_ = (w[1] - w[0]) / dt
                r.expect_close('closed-form.velocity', sub, outs['array-f64'][0], w[0] * t + s_ * t ** 2 / 2,
                               rtol=1e-9, atol=at_v)
                if is_const:
                    r.expect_close('closed-form.displacement', sub, outs['array-f64'][1], w[0] * t ** 2 / 2,
                                   rtol=1e-9, atol=at_d)
            # tree edge: causal => output on the prefix is the prefix of the output
            if n >= 3 and 'array-f64' in outs:
                r.transitions += 1
                r.cls('prefix-edge')
                ok, out = r.call('prefix', sub, displacements.calc_velo_and_disp_from_accel_arr,
                                 np.array(w[:-1], dtype=float), dt, trap=trap)
                if ok:
                    try:
                        pv, pd = out
                        r.expect_close('prefix.velocity', sub, np.asarray(outs['array-f64'][0])[:-1], pv, rtol=1e-12,
                                       atol=at_v)
                        r.expect_close('prefix.displacement', sub, np.asarray(outs['array-f64'][1])[:-1], pd, rtol=1e-12,
                                       atol=at_d)
                    except Exception as e:
                        r.fail('prefix', sub, 'malformed result: %s' % e, observed=out)
            # linear map: a -> -3a
            if nz and 'array-f64' in outs:
                ok, out = r.call('scaling', sub, displacements.calc_velo_and_disp_from_accel_arr, -3.0 * a_f, dt, trap=trap)
                if ok:
                    try:
                        r.expect_close('scaling.velocity', sub, out[0], -3.0 * np.asarray(outs['array-f64'][0]), rtol=1e-12, atol=at_v)
                        r.expect_close('scaling.displacement', sub, out[1], -3.0 * np.asarray(outs['array-f64'][1]), rtol=1e-12, atol=at_d)
                    except Exception as e:
                        r.fail('scaling', sub, 'malformed result: %s' % e, observed=out)
        # peaks (object level integrates with the trapezoid rule)
        sub = {'w': w, 'dt': dt}
        vref, dref = ref_series(w, dt, True)
        want = (float(amax), float(max(abs(x) for x in vref)), float(max(abs(x) for x in dref)))
        for scale in (1.0, -3.0):
            s2 = dict(sub, scale=scale)

            def peaks():
                s = eqsig.AccSignal(np.array(w, dtype=float) * scale, dt)
                return s.pga, s.pgv, s.pgd
            ok, out = r.call('peaks', s2, peaks)
            if ok:
                r.expect_close('peaks.object', s2, out, np.array(want) * abs(scale), rtol=1e-9, atol=1e-300)
            # every order in which the three lazy peaks can be read on a fresh object (each one must integrate / search for itself),
            # and each derived series / peak as the FIRST read after the record was replaced
            if scale == 1.0 and n <= 5 and dt == DTS[1]:
                for order in itertools.permutations((0, 1, 2)):
                    s3 = dict(sub, read_order=[PEAK_NAMES[k] for k in order])

                    def ordered():
                        s = eqsig.AccSignal(np.array(w, dtype=float), dt)
                        got = {}
                        for k in order:
                            got[k] = getattr(s, PEAK_NAMES[k])
                        return got[0], got[1], got[2]
                    ok, out = r.call('peaks', s3, ordered)
                    if ok:
                        r.cls('peak-read-order')
                        r.expect_close('peaks.object-read-order', s3, out, np.array(want), rtol=1e-9, atol=1e-300)
                w_other = [x + 1 for x in w] + [1]
                for first_read in ('pgv', 'pgd', 'velocity', 'displacement'):
                    s3 = dict(sub, first_read_after_reset=first_read, held_before=w_other)

                    def first_after_reset():
                        s = eqsig.AccSignal(np.array(w_other, dtype=float), dt)
                        s.pga, s.pgv, s.pgd
                        s.reset_values(np.array(w, dtype=float))
                        return getattr(s, first_read)
                    ok, out = r.call('peaks', s3, first_after_reset)
                    if ok:
                        wanted = {'pgv': want[1], 'pgd': want[2], 'velocity': fl(vref), 'displacement': fl(dref)}[first_read]
                        r.expect_close('peaks.object-first-read-after-reset_values', s3, out, wanted, rtol=1e-9, atol=1e-13 * amax * dt * n)
            # the peaks are those of the series the object holds: after the explicit generator with either rule (called on a fresh object,
            # after a lazy peak and after a lazy series read), PGV / PGD are the largest |value| of that rule's series
            if scale == 1.0 and n <= 5:
                for trap_ in (False, True):
                    vr_, dr_ = ref_series(w, dt, trap_)
                    wantp = (float(max(abs(x) for x in vr_)), float(max(abs(x) for x in dr_)))
                    for pre in (None, 'pgv', 'pgd', 'velocity'):
                        s3 = dict(sub, generator_trap=trap_, read_before_generator=pre)

                        def gen_then_peaks():
                            s = eqsig.AccSignal(np.array(w, dtype=float), dt)
                            if pre:
                                getattr(s, pre)
                            s.generate_displacement_and_velocity_series(trap=trap_)
                            return s.pgv, s.pgd, np.array(s.velocity), np.array(s.displacement)
                        ok, out = r.call('peaks', s3, gen_then_peaks)
                        if ok:
                            r.cls('peaks-after-explicit-generator')
                            try:
                                r.expect_close('peaks.object-after-generator', s3, out[:2], wantp, rtol=1e-9, atol=1e-300)
                                r.expect_close('peaks.object-after-generator.series', s3, out[2], fl(vr_), rtol=1e-9, atol=1e-13 * amax * dt * n)
                                r.expect_close('peaks.object-after-generator.series', dict(s3, series='displacement'), out[3], fl(dr_), rtol=1e-9,
                                               atol=1e-13 * amax * dt * dt * n * n)
                            except Exception as e:
                                r.fail('peaks.object-after-generator', s3, 'malformed: %s' % e, observed=out)
            # the same object after its record has been replaced: read one peak, replace the values by scale*w, read all peaks
            if scale != 1.0:
                for first_read in ('pga', 'pgv', 'pgd'):
                    s3 = dict(sub, scale=scale, first_read=first_read)

                    def reuse():
                        s = eqsig.AccSignal(np.array(w, dtype=float), dt)
                        getattr(s, first_read)
                        s.reset_values(np.array(w, dtype=float) * scale)
                        return s.pga, s.pgv, s.pgd
                    ok, out = r.call('peaks', s3, reuse)
                    if ok:
                        r.cls('object-reused')
                        r.expect_close('peaks.object-after-reset_values', s3, out, np.array(want) * abs(scale), rtol=1e-9, atol=1e-300)
            for nm, ser in (('a', [Fraction(x) for x in w]), ('v', vref), ('d', dref)):
                arr = fl(ser) * scale
                if len(arr) == 0:
                    continue
                ok, out = r.call('peaks', s2, im.calc_peak, arr)
                if ok:
                    r.expect_close('peaks.calc_peak', dict(s2, series=nm), out, float(np.max(np.abs(arr))), rtol=1e-12,
                                   atol=1e-300)
    # ---- records held in single / half precision: the integrals are those of the record's VALUES (all values of the alphabet are exact in
    # both types); tolerance 1e-6 of the series' scale, i.e. an implementation working in single precision on these short words passes,
    # one that lets half-precision rounding accumulate does not
    if n <= 5 and nz:
        for dtx in (DTS[1], DTS[3]):
            for trap in (True, False):
                vref, dref = ref_series(w, dtx, trap)
                vr, dr = fl(vref), fl(dref)
                sv, sd = max(float(np.max(np.abs(vr))), amax * dtx), max(float(np.max(np.abs(dr))), amax * dtx * dtx)
                for nm, dty in (('float32', np.float32), ('float16', np.float16)):
                    rec = np.array(w, dtype=dty)
                    r.cls('low-precision-record')
                    for ent, fn in (('array', lambda: displacements.calc_velo_and_disp_from_accel_arr(rec, dtx, trap=trap)),
                                    ('object', lambda: (lambda s_: (s_.generate_displacement_and_velocity_series(trap=trap), (s_.velocity, s_.displacement))[1])(
                                        eqsig.AccSignal(rec, dtx)))):
                        s2 = {'w': w, 'dt': dtx, 'trap': trap, 'entry': ent, 'record': nm}
                        ok, out = r.call('series', s2, fn)
                        if not ok:
                            continue
                        try:
                            v, d = out
                        except Exception:
                            r.fail('series', s2, 'result is not a (velocity, displacement) pair', observed=out)
                            continue
                        r.expect_close('series.velocity', s2, v, vr, rtol=0, atol=1e-6 * sv)
                        r.expect_close('series.displacement', s2, d, dr, rtol=0, atol=1e-6 * sd)
    # ---- time steps that are not round decimal numbers (the step is used as given: no rounding, at array and at object level)
    if n <= 4 and nz:
        for dtx in ODD_DTS:
            for trap in (True, False):
                sub = {'w': w, 'dt': dtx, 'trap': trap}
                vref, dref = ref_series(w, dtx, trap)
                vr, dr = fl(vref), fl(dref)
                r.cls('odd-dt')

                def obj_dtx():
                    s = eqsig.AccSignal(np.array(w, dtype=float), dtx)
                    s.generate_displacement_and_velocity_series(trap=trap)
                    return s.velocity, s.displacement, s.dt
                for ent, fn in (('array-f64', lambda: displacements.calc_velo_and_disp_from_accel_arr(np.array(w, dtype=float), dtx, trap=trap) + (dtx,)),
                                ('object-generate', obj_dtx)):
                    s2 = dict(sub, entry=ent)
                    ok, out = r.call('series', s2, fn)
                    if not ok:
                        continue
                    try:
                        v, d, dt_held = out
                    except Exception:
                        r.fail('series', s2, 'malformed result', observed=out)
                        continue
                    r.expect_close('series.velocity', s2, v, vr, rtol=1e-12, atol=1e-300)
                    r.expect_close('series.displacement', s2, d, dr, rtol=1e-12, atol=1e-300)
                    r.expect('series.dt-kept', s2, dt_held == dtx, 'the object reports a different time step than it was given', observed=dt_held, expected=dtx)
    # ---- containers / dtypes of the record for the peaks (unsigned: a negated minimum wraps around) and extreme scales
    shifted = [int(x) + 2 for x in w]                      # {0..4}
    for nm, arr in (('uint8', np.array(shifted, dtype=np.uint8)), ('uint16', np.array(shifted, dtype=np.uint16)), ('int8', np.array(w, dtype=np.int8)),
                    ('float32', np.array(w, dtype=np.float32))):
        vals = shifted if nm.startswith('uint') else w
        want_pk = float(max(abs(x) for x in vals))
        sub = {'w': w, 'input': nm}
        r.cls('dtype-variant')
        ok, out = r.call('peaks', sub, im.calc_peak, arr)
        if ok:
            r.expect_close('peaks.calc_peak', sub, out, want_pk, rtol=1e-12, atol=1e-300)
        ok, out = r.call('peaks', sub, lambda: eqsig.AccSignal(arr, 0.01).pga)
        if ok:
            r.expect_close('peaks.object', sub, out, want_pk, rtol=1e-12, atol=1e-300)
    if n <= 5 and nz:
        for scale in (1e-9, 1e9, 1e-160, 1e150):
            sub = {'w': w, 'dt': 0.01, 'scale': scale}
            vref, dref = ref_series(w, 0.01, True)
            ok, out = r.call('scaling', sub, displacements.calc_velo_and_disp_from_accel_arr, np.array(w, dtype=float) * scale, 0.01)
            if ok:
                r.cls('extreme-scale')
                try:
                    r.expect_close('scaling.velocity', sub, out[0], fl(vref) * scale, rtol=1e-9, atol=0)
                    r.expect_close('scaling.displacement', sub, out[1], fl(dref) * scale, rtol=1e-9, atol=0)
                except Exception as e:
                    r.fail('scaling', sub, 'malformed result: %s' % e, observed=out)
    # ---- the object after other public queries on it (functions that read the cached series must not edit them)
    if n <= 4 and nz:
        vref, dref = ref_series(w, 0.01, True)
        for qname in ('calc_unit_kinetic_energy', 'calc_isv', 'calc_integral_of_abs_velocity', 'calc_cumulative_abs_displacement', 'calc_cav',
                      'calc_arias_intensity', 'calc_integral_of_abs_acceleration'):
            sub = {'w': w, 'after_query': 'im.' + qname}

            def after_query():
                s = eqsig.AccSignal(np.array(w, dtype=float), 0.01)
                getattr(im, qname)(s)
                return s.velocity, s.displacement, s.pgv, s.pgd
            ok, out = r.call('object-after-query', sub, after_query)
            if ok:
                r.cls('object-after-query')
                try:
                    r.expect_close('object-after-query.velocity', sub, out[0], fl(vref), rtol=1e-9, atol=1e-300)
                    r.expect_close('object-after-query.displacement', sub, out[1], fl(dref), rtol=1e-9, atol=1e-300)
                    r.expect_close('object-after-query.peaks', sub, out[2:], (float(max(abs(x) for x in vref)), float(max(abs(x) for x in dref))), rtol=1e-9, atol=1e-300)
                except Exception as e:
                    r.fail('object-after-query', sub, 'malformed: %s' % e)
    # ---- the object after every public edit: velocity / displacement / peaks are the integrals and peaks of the CURRENT record
    if n == 4 and nz:
        rec = np.array((list(w) * 6)[:20], dtype=float)       # tiled: the filters need some length
        ops, kind = c04.build_ops('AccSignal')
        for name, op in ops.items():
            if kind[name][0] != 'mut':
                continue
            sub = {'w': w, 'after': name}
            s = eqsig.AccSignal(rec.copy(), 0.01)
            s._mc_n0 = len(rec)
            try:
                s.pga, s.pgv, s.pgd        # everything derived is cached before the edit
                op(s)
            except Exception:
                r.disabled['%s raises on the tiled record' % name] += 1
                continue
            try:
                cur = np.asarray(s.values, dtype=float)
                dt_ = 0.01
                v_ = np.concatenate([[0.0], np.cumsum((cur[1:] + cur[:-1]) * dt_ / 2)])
                d_ = np.concatenate([[0.0], np.cumsum((v_[1:] + v_[:-1]) * dt_ / 2)])
                r.cls('object-after-edit')
                r.expect_close('object-after-edit.velocity', sub, s.velocity, v_, rtol=1e-9, atol=1e-300)
                r.expect_close('object-after-edit.displacement', sub, s.displacement, d_, rtol=1e-9, atol=1e-300)
                r.expect_close('object-after-edit.peaks', sub, (s.pga, s.pgv, s.pgd), (np.max(np.abs(cur)), np.max(np.abs(v_)), np.max(np.abs(d_))), rtol=1e-9, atol=1e-300)
            except Exception as e:
                r.fail('object-after-edit', sub, 'cannot read the object after %s: %s' % (name, e))
    return r


def snippet(case, v):
    if case and isinstance(case[0], str):
        return ("import numpy as np, eqsig\nfrom eqsig import displacements\nfrom mcheck.props.c08 import long_record   # run with PYTHONPATH=/verif\n"
                "sub = %r\nnum, den = long_record(sub['long'], sub['n']); rec = (num / den).astype(sub['record'])\n"
                "v, d = displacements.calc_velo_and_disp_from_accel_arr(rec, sub['dt'], trap=sub['trap']); print(v[-3:], d[-3:])\n"
                "s = eqsig.AccSignal(rec, sub['dt']); s.generate_displacement_and_velocity_series(trap=sub['trap']); print(s.velocity[-3:], s.displacement[-3:])\n"
                % (v.get('sub'),))
    return ("import numpy as np, eqsig\nfrom eqsig import displacements\n"
            "w = %r\nsub = %r\n"
            "print(displacements.calc_velo_and_disp_from_accel_arr(np.array(w, float), sub['dt'], trap=sub.get('trap', True)))\n"
            "s = eqsig.AccSignal(np.array(w, float), sub['dt']); print(s.velocity, s.displacement, s.pga, s.pgv, s.pgd)\n"
            % (case, v.get('sub')))
