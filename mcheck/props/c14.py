"""C14 - resampling keeps the record: bounded step, retained samples, band-limited exact.

Engine G x T.  A pool case is one (dt, target_dt, length) grid point; inside it every record
of that length (all words over {-1,0,2} for the short lengths, one smooth record for the
longer ones) is pushed through the three entry points with even in {True, False}.

Oracles (all written from the property text, none from the code):
  step rule       new_dt <= target (1e-12 rel) and dt/new_dt or new_dt/dt is an integer (1e-9);
  refinement      out[j*f] == in[j] bit for bit;
  decimation      out[j] == in[j*m] (1e-9 of the record's scale);
  range, duration, parity, type of the returned object;
  Fourier         the step rule and parity on every case; where the new grid tiles the same period
                  the output must be the samples s(j*new_dt) of the (unique) band-limited periodic
                  signal s: checked for every word that is band-limited below both Nyquist
                  frequencies (trigonometric interpolant by a direct DFT sum) and for every on-grid
                  harmonic (cos and sin) and pair combination below the new Nyquist frequency.
"""
import itertools
import math

import numpy as np

from ..target import eqsig, time_step
from ..result import Res

SIG = (-1, 0, 2)
DTS = (0.005, 0.01, 0.02, 0.025, 0.03, 0.04, 0.05, 0.07, 0.1, 0.2, 0.25, 0.3, 0.5, 1.0)
EXTRA_TARGETS = (0.0123, 0.0333333, 0.29999999999999993, 0.30000000000000004)
ADJACENT = (0.29999999999999993, 0.30000000000000004, 0.09999999999999999, 0.10000000000000002)
MENU = {
    'quick': {'dts': DTS, 'targets': DTS + EXTRA_TARGETS, 'lens': (4, 5, 9, 12, 31), 'word_lens': (4, 5), 'pair_cap': 6},
    'thorough': {'dts': DTS + (0.001, 0.0125, 2.0),
                 'targets': DTS + EXTRA_TARGETS + (0.001, 0.0125, 2.0, 0.015, 0.6, 0.09999999999999999,
                                                   0.10000000000000002),
                 'lens': (4, 5, 6, 7, 9, 12, 16, 31, 64), 'word_lens': (4, 5, 6, 7), 'pair_cap': None},
}
_cfg = {}


def in_domain(dt, tg, n):
    return (n - 1) * dt >= 2 * max(dt, tg) * (1 - 1e-12)


def build(tier, seed):
    m = MENU[tier]
    cases = []
    for n in m['lens']:
        for dt in m['dts']:
            for tg in m['targets']:
                if in_domain(dt, tg, n):
                    cases.append([dt, tg, n, tier])
    return {
        'cases': cases,
        'rule': 'every (dt, target) in menu x targets with (n-1)*dt >= 2*max(dt,target), n in %s; records: all words over '
                '{-1,0,2} for n in %s, one smooth record otherwise; x even in {T,F} x {interp_array_to_approx_dt, '
                'interp_to_approx_dt, resample_to_approx_dt}; Fourier family: every on-grid cos/sin harmonic and pair '
                'combination strictly below both Nyquist frequencies%s; non-trivial = non-constant record whose step '
                'actually changes' % (list(m['lens']), list(m['word_lens']),
                                      '' if m['pair_cap'] is None else
                                      ' (pairs among the %d lowest and %d highest harmonics for n > 12)'
                                      % (m['pair_cap'], m['pair_cap'])),
        'bounds': {'alphabet': SIG, 'dt': m['dts'], 'target_dt': m['targets'], 'lengths': m['lens'],
                   'word_lengths': m['word_lens'], 'even': [True, False]},
        'required_classes': ['refinement', 'decimation', 'same-step', 'unchanged-step-below-2x', 'non-commensurate',
                             'rounding-adjacent-quotient', 'even-trimmed', 'even-natural', 'odd-length-output',
                             'array-entry', 'object-entry', 'fourier-entry', 'fourier-refine-exact',
                             'fourier-decimate-exact', 'fourier-nontile', 'fourier-word-exact',
                             'fourier-word-not-bandlimited'],
        'assumptions': ['duration of a record = (npts-1)*dt for the domain condition; npts*dt in the duration claim',
                        'values outside {-1,0,2} only through the smooth records and the harmonic family',
                        'dt, target only on the menus',
                        'Fourier exactness is asserted only where npts*dt/new_dt is an integer of the requested parity '
                        '(otherwise no periodic resampling onto that step exists)'],
    }


def smooth(n):
    return [3.0 * math.cos(1.3 * j) - 1.0 + 0.1 * j for j in range(n)]


# ------------------------------------------------------------------------------ oracles
def step_rule(r, pre, sub, dt, tg, ndt):
    """returns ('refine', f) / ('decimate', m) / None"""
    try:
        ndt = float(ndt)
    except Exception:
        r.fail(pre + '.step', sub, 'returned step is not a number', observed=ndt)
        return None
    if not (math.isfinite(ndt) and ndt > 0):
        r.fail(pre + '.step', sub, 'returned step is not a positive finite number', observed=ndt)
        return None
    r.expect(pre + '.step-not-above-target', sub, ndt <= tg * (1 + 1e-12),
             'new step %r exceeds the target %r' % (ndt, tg), observed=ndt, expected='<= %r' % tg)
    q = dt / ndt
    f = int(round(q))
    r.n_cmp += 1
    if f >= 1 and abs(q - f) <= 1e-9:
        return ('refine', f)
    qi = ndt / dt
    m = int(round(qi))
    if m >= 1 and abs(qi - m) <= 1e-9:
        return ('decimate', m)
    r.fail(pre + '.step-ratio-integer', sub, 'neither dt/new_dt = %r nor new_dt/dt = %r is an integer' % (q, qi),
           observed=ndt)
    return None


def as_vec(v):
    try:
        a = np.asarray(v)
        if a.ndim != 1 or a.dtype.kind not in 'fiu':
            return None
        return a
    except Exception:
        return None


def check_interp(r, pre, sub, x, dt, tg, even, vals, ndt):
    n = len(x)
    mode = step_rule(r, pre, sub, dt, tg, ndt)
    out = as_vec(vals)
    if out is None:
        r.fail(pre + '.values', sub, 'returned values are not a one-dimensional numeric array', observed=vals)
        return mode
    lo, hi = float(np.min(x)), float(np.max(x))
    scale = max(abs(lo), abs(hi), 1e-300)
    if even:
        r.expect(pre + '.even-length', sub, len(out) % 2 == 0, 'odd length %d although even=True' % len(out),
                 observed=len(out))
    elif len(out) % 2:
        r.cls('odd-length-output')
    if len(out) == 0:
        r.fail(pre + '.values', sub, 'empty output')
        return mode
    r.expect(pre + '.range', sub, bool(np.all(np.isfinite(out))) and float(np.min(out)) >= lo - 1e-9 * scale and
             float(np.max(out)) <= hi + 1e-9 * scale, 'values leave the input range [%r, %r]' % (lo, hi), observed=out)
    if mode is None:
        return None
    kind, k = mode
    fdt = float(ndt)
    r.expect(pre + '.duration', sub, abs(len(out) * fdt - n * dt) < 2 * max(dt, fdt) * (1 + 1e-12),
             'covered duration changes from %r to %r (two steps = %r)' % (n * dt, len(out) * fdt, 2 * max(dt, fdt)),
             observed=len(out))
    r.transitions += 1
    if kind == 'refine':
        idx = [j for j in range(n) if j * k < len(out)]
        got = out[[j * k for j in idx]]
        want = x[idx]
        same = got.shape == want.shape and got.dtype.kind == 'f' and bool(np.all(got == want))
        r.expect(pre + '.samples-retained', sub, same, 'original samples do not reappear unchanged at out[j*%d]' % k,
                 observed=got, expected=want)
    else:
        if (len(out) - 1) * k > n - 1:
            r.expect(pre + '.subsequence', sub, False, 'output of %d samples with step ratio %d runs past the %d input '
                     'samples' % (len(out), k, n), observed=out)
        else:
            r.expect_close(pre + '.subsequence', sub, out, x[::k][:len(out)], rtol=1e-9, scale=scale,
                           what='output vs in[j*%d]' % k)
    return mode


def dft_coeffs(x):
    """c_k, k = 0..n//2, by the defining sum."""
    n = len(x)
    out = []
    for k in range(n // 2 + 1):
        re = sum(x[j] * math.cos(2 * math.pi * ((j * k) % n) / n) for j in range(n)) / n
        im_ = -sum(x[j] * math.sin(2 * math.pi * ((j * k) % n) / n) for j in range(n)) / n
        out.append((re, im_))
    return out


def trig_eval(coef, n, kmax, nn, count):
    """Samples j = 0..count-1 of the trigonometric interpolant on a grid of nn points per period,
    using harmonics 0..kmax."""
    j = np.arange(count)
    s = np.full(count, coef[0][0], dtype=float)
    for k in range(1, kmax + 1):
        ph = 2 * math.pi * ((j * k) % nn) / nn
        s += 2 * (coef[k][0] * np.cos(ph) - coef[k][1] * np.sin(ph))
    return s


def tile_points(n, mode, even):
    """Number of points of the new grid over the same period, or None if the grid does not tile it."""
    kind, k = mode
    if kind == 'refine':
        nn = n * k
    else:
        if n % k:
            return None
        nn = n // k
    if nn < 1 or (even and nn % 2):
        return None
    return nn


def resample_call(r, sub, x, dt, tg, even):
    """-> (values, dt) or None"""
    def run():
        return time_step.resample_to_approx_dt(eqsig.AccSignal(np.array(x, dtype=float), dt), target_dt=tg, even=even)
    ok, obj = r.call('fourier.returns', sub, run)
    if not ok:
        return None
    r.n_cmp += 1
    if not isinstance(obj, eqsig.AccSignal):
        r.fail('fourier.object', sub, 'result is not an AccSignal', observed=type(obj).__name__)
        return None
    try:
        return obj.values, obj.dt, obj.npts
    except Exception as e:
        r.fail('fourier.object', sub, 'cannot read values/dt/npts: %s' % e)
        return None


def check_fourier_basic(r, sub, n, dt, tg, even, res):
    vals, ndt, npts = res
    mode = step_rule(r, 'fourier', sub, dt, tg, ndt)
    out = as_vec(vals)
    if out is None:
        r.fail('fourier.values', sub, 'values are not a one-dimensional numeric array', observed=vals)
        return None, None
    r.expect('fourier.object', sub, npts == len(out), 'npts %r != number of values %d' % (npts, len(out)))
    if even:
        r.expect('fourier.even-length', sub, len(out) % 2 == 0, 'odd length %d although even=True' % len(out),
                 observed=len(out))
    return mode, out


def harmonic_family(n, nn, cap):
    """[(label, input samples, expected output samples)] strictly below both Nyquist frequencies."""
    kmax = (min(n, nn) - 1) // 2          # largest k with k < min(n, nn)/2
    ji = np.arange(n)
    jo = np.arange(nn)
    single = []
    for k in range(kmax + 1):
        pi_ = 2 * math.pi * ((ji * k) % n) / n
        po = 2 * math.pi * ((jo * k) % nn) / nn
        single.append((['cos', k], np.cos(pi_), np.cos(po)))
        if k:
            single.append((['sin', k], np.sin(pi_), np.sin(po)))
    fam = list(single)
    if cap is not None and n > 12 and len(single) > 2 * cap:
        pool = single[:cap] + single[-cap:]
    else:
        pool = single
    for a, b in itertools.combinations(range(len(pool)), 2):
        la, xa, ya = pool[a]
        lb, xb, yb = pool[b]
        fam.append(([2] + la + [-1] + lb, 2 * xa - xb, 2 * ya - yb))
    return fam


# ------------------------------------------------------------------------------ one grid point
def run_case(case):
    r = Res()
    dt, tg, n, tier = case
    m = MENU[tier]
    if dt == tg:
        r.cls('same-step')
    q = dt / tg if dt > tg else tg / dt
    if abs(q - round(q)) > 1e-6:
        r.cls('non-commensurate')
    elif q != round(q) or tg in ADJACENT:
        r.cls('rounding-adjacent-quotient')
    if n in m['word_lens']:
        records = [(list(w), list(w)) for w in itertools.product(SIG, repeat=n)]
    else:
        records = [('smooth', smooth(n))]
    for even in (True, False):
        fam_done = False
        for label, rec in records:
            x = np.array(rec, dtype=float)
            nonconst = len(set(rec)) > 1
            base = {'dt': dt, 'target': tg, 'n': n, 'even': even, 'rec': label}
            # ---- array level
            sub = dict(base, entry='array')
            r.states += 1
            r.cls('array-entry')
            ok, res = r.call('interp.returns', sub, time_step.interp_array_to_approx_dt, x.copy(), dt, target_dt=tg,
                             even=even)
            mode = None
            if ok:
                try:
                    vals, ndt = res
                except Exception:
                    r.fail('interp.returns', sub, 'result is not a (values, dt) pair', observed=res)
                else:
                    mode = check_interp(r, 'interp', sub, x, dt, tg, even, vals, ndt)
                    if mode is not None:
                        kind, k = mode
                        nat = n * k if kind == 'refine' else int(math.ceil(n / k))
                        if k == 1:
                            if dt != tg:
                                r.cls('unchanged-step-below-2x')
                        else:
                            r.cls('refinement' if kind == 'refine' else 'decimation')
                            if nonconst:
                                r.nontrivial += 1
                        if even:
                            r.cls('even-trimmed' if nat % 2 else 'even-natural')
            # ---- object level
            sub = dict(base, entry='object')
            r.states += 1
            r.cls('object-entry')

            def run_obj():
                return time_step.interp_to_approx_dt(eqsig.AccSignal(x.copy(), dt), target_dt=tg, even=even)
            ok, obj = r.call('interp.returns', sub, run_obj)
            if ok:
                r.n_cmp += 1
                if not isinstance(obj, eqsig.AccSignal):
                    r.fail('interp.object', sub, 'result is not an AccSignal', observed=type(obj).__name__)
                else:
                    try:
                        vals, ndt, npts = obj.values, obj.dt, obj.npts
                    except Exception as e:
                        r.fail('interp.object', sub, 'cannot read values/dt/npts: %s' % e)
                    else:
                        check_interp(r, 'interp', sub, x, dt, tg, even, vals, ndt)
                        r.expect('interp.object', sub, npts == len(vals), 'npts %r != number of values %d'
                                 % (npts, len(vals)))
            # ---- periodic resampling of the record itself
            sub = dict(base, entry='resample')
            r.states += 1
            r.cls('fourier-entry')
            res = resample_call(r, sub, x, dt, tg, even)
            fmode = None
            if res is not None:
                fmode, out = check_fourier_basic(r, sub, n, dt, tg, even, res)
                nn = tile_points(n, fmode, even) if fmode is not None else None
                if fmode is not None and nn is None:
                    r.cls('fourier-nontile')
                if nn is not None:
                    coef = dft_coeffs(rec)
                    scale = max(abs(v) for v in rec) or 1.0
                    kmax = (min(n, nn) - 1) // 2
                    if all(math.hypot(*coef[k]) <= 1e-12 * scale for k in range(kmax + 1, n // 2 + 1)):
                        r.cls('fourier-word-exact')
                        r.transitions += 1
                        want = trig_eval(coef, n, kmax, nn, len(out))
                        r.expect_close('fourier.band-limited-exact', sub, out, want, rtol=1e-9, atol=1e-9 * scale,
                                       what='record is band-limited below both Nyquist frequencies; output vs s(j*new_dt)')
                    else:
                        r.cls('fourier-word-not-bandlimited')
            # ---- harmonic family (once per (dt, target, n, even))
            if fam_done:
                continue
            fam_done = True
            # the step does not depend on the values: take the mode from the exact-rational rule of the statement
            # only through the implementation's own answer on this grid point; if the call above failed, probe
            # with the first harmonic instead
            probe_mode = fmode
            if probe_mode is None:
                sub = dict(base, entry='resample', rec=None, sig=['cos', 0])
                res = resample_call(r, sub, [1.0] * n, dt, tg, even)
                if res is not None:
                    probe_mode, _ = check_fourier_basic(r, sub, n, dt, tg, even, res)
            if probe_mode is None:
                r.disabled['harmonic family not observable: resampling fails or breaks the step rule'] += 1
                continue
            nn = tile_points(n, probe_mode, even)
            if nn is None:
                continue
            for lab, xin, yout in harmonic_family(n, nn, m['pair_cap']):
                sub = {'dt': dt, 'target': tg, 'n': n, 'even': even, 'entry': 'resample', 'sig': lab}
                r.states += 1
                res = resample_call(r, sub, xin, dt, tg, even)
                if res is None:
                    continue
                hm, out = check_fourier_basic(r, sub, n, dt, tg, even, res)
                if hm is None:
                    continue
                if hm != probe_mode:
                    r.fail('fourier.step-depends-on-values', sub, 'step ratio %r differs from %r obtained for another '
                           'record of the same grid point' % (hm, probe_mode))
                    continue
                r.transitions += 1
                r.cls('fourier-refine-exact' if hm[0] == 'refine' and hm[1] > 1 else
                      'fourier-decimate-exact' if hm[1] > 1 else 'fourier-same-exact')
                want = yout[np.arange(len(out)) % nn]       # s is periodic
                r.expect_close('fourier.band-limited-exact', sub, out, want, rtol=1e-9, scale=3.0,
                               what='on-grid harmonic below the new Nyquist frequency; output vs s(j*new_dt)')
    return r


def snippet(case, v):
    dt, tg, n = case[:3]
    return ("import math, numpy as np, eqsig\nfrom eqsig.fns import time_step as ts\n"
            "sub = %r\ndt, target, n, even = sub['dt'], sub['target'], sub['n'], sub['even']\n"
            "rec = sub.get('rec')\n"
            "x = np.array(rec if isinstance(rec, list) else [3*math.cos(1.3*j) - 1 + 0.1*j for j in range(n)], float)\n"
            "# harmonic cases ('sig' in sub): x = cos/sin(2*pi*k*arange(n)/n) as labelled\n"
            "print(ts.interp_array_to_approx_dt(x, dt, target_dt=target, even=even))\n"
            "a = ts.interp_to_approx_dt(eqsig.AccSignal(x, dt), target_dt=target, even=even); print(a.dt, a.values)\n"
            "b = ts.resample_to_approx_dt(eqsig.AccSignal(x, dt), target_dt=target, even=even); print(b.dt, b.values)\n"
            % (v.get('sub'),))
