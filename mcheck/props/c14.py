"""C14 - resampling keeps the record: bounded step, retained samples, band-limited exact.

Engine G x T.  A pool case is one (dt, target_dt, length) grid point; inside it every record
of that length (all words over {-1,0,2} for the short lengths, one smooth record for the
longer ones, the smooth record scaled by 1e-9 and 1e+6) is pushed through the three entry points
with even in {True, False}; plus, once per grid point, the argument containers / dtypes the
functions accept, and call sequences on the same object / the same argument array.

Grid-point families (all complete products of the stated menus, filtered by the property's domain
"duration >= 2*max(dt, target)" with duration = npts*dt and the steps read as the decimal numbers
the caller wrote, in exact rational arithmetic):
  grid    menu dt x menu target x menu length
  min     every (dt, target) of the menus with the SMALLEST length the domain allows and that length + 1
  near    target = dt*q*(1+eps), q in {1, 2, 3, 1/2, 1/3}, eps in {+-1e-6, +-1e-7} ("nearly equal but different")
  tscale  (dt, target) menus multiplied by 1e-6 and by 1e+3 (the step rule is scale-free in time)
  int     dt and target given as python integers (seconds)
  long    LONG records (size-dependent branches are a general class): every length of a ladder 2**p - 1, 2**p, 2**p + 1
          up to 2**16, the lengths 2**p + 2, + 3, + 4 above the two top powers, 10**p - 1, 10**p, 10**p + 1, and 5-smooth
          / not 5-smooth lengths above 2**15, x a menu of (dt, target) pairs (refinement by 2, 3, 4, decimation by 2, 3, 4,
          non-commensurate, same step, unchanged step); the smooth record through the three entry points and a menu
          of on-grid harmonics (lowest, middle, the two highest below the new Nyquist frequency, cos and sin, and their
          weighted sum) through the Fourier entry point, expectation = the harmonic evaluated at the new instants

Oracles (all written from the property text, none from the code):
  step rule       new_dt <= target (1e-12 rel) and dt/new_dt or new_dt/dt is an integer (1e-9);
  refinement      out[j*f] == in[j] bit for bit;
  decimation      out[j] == in[j*m] (1e-9 of the record's scale);
  range, duration, parity, type of the returned object;
  Fourier         the step rule and parity on every case; where the new grid tiles the same period
                  the output must be the samples s(j*new_dt) of the (unique) band-limited periodic
                  signal s: checked for every word that is band-limited below both Nyquist
                  frequencies (trigonometric interpolant by a direct DFT sum) and for every on-grid
                  harmonic (cos and sin) and pair combination below the new Nyquist frequency;
  sequences       the result is a function of (record held NOW, dt, target, even): objects that held
                  other records before / were queried before, A-B-A argument patterns, results
                  overwritten by the caller, default options after explicit ones.
"""
import itertools
import math

import numpy as np

from ..target import eqsig, time_step
from ..result import Res
from ..compare import frac, close, to_array

SIG = (-1, 0, 2)
DTS = (0.005, 0.01, 0.02, 0.025, 0.03, 0.04, 0.05, 0.07, 0.1, 0.2, 0.25, 0.3, 0.5, 1.0)
EXTRA_TARGETS = (0.0123, 0.0333333, 0.29999999999999993, 0.30000000000000004)
ADJACENT = (0.29999999999999993, 0.30000000000000004, 0.09999999999999999, 0.10000000000000002)
NEAR_RATIOS = ((1, 1), (2, 1), (3, 1), (1, 2), (1, 3))          # target ~ dt * a / b
NEAR_EPS = (-1e-6, -1e-7, 1e-7, 1e-6)
TS_SMALL = ((5e-9, 1e-8, 3e-8, 1e-7), (5e-9, 1e-8, 2e-8, 3e-8, 1e-7, 1.23e-8))       # menus x 1e-6
TS_LARGE = ((5.0, 10.0, 30.0, 100.0), (5.0, 10.0, 20.0, 30.0, 100.0, 12.3))          # menus x 1e+3
INT_STEPS = ((1, 2, 3), (1, 2, 3, 4, 6))            # python ints for dt and target
VALUE_SCALES = (1e-9, 1e6)
OBJ_CLASSES = ('AccSignal', 'Signal')
# long records: (dt, target) pairs - refinement x2, x3, x4 (quotient just above 3), decimation x2, x3, x2 (non-commensurate), x4,
# same step, unchanged step (target below 2 dt)
LONG_STEPS = ((0.01, 0.005), (0.03, 0.01), (0.01, 0.0033333), (0.005, 0.01), (0.01, 0.03), (0.005, 0.0123), (0.005, 0.02),
              (0.01, 0.01), (0.01, 0.0123))
LONG_TOP = {'quick': 16, 'thorough': 17}


def long_lens(tier):
    top = LONG_TOP[tier]
    out = set()
    for p in range(6, top + 1):
        out.update((2 ** p - 1, 2 ** p, 2 ** p + 1))
    for p in (15, 16, 17):
        if p <= top:
            out.update((2 ** p + 2, 2 ** p + 3, 2 ** p + 4))
    for p in (3, 4) + (() if tier == 'quick' else (5,)):
        out.update((10 ** p - 1, 10 ** p, 10 ** p + 1))
    out.update((36000, 36020, 40000, 40004))           # 5-smooth / not 5-smooth above 2**15
    if tier != 'quick':
        out.update((50012, 60000, 66008, 98304, 98306))
    return sorted(out)


def is_5_smooth(n):
    for p in (2, 3, 5):
        while n % p == 0:
            n //= p
    return n == 1
MENU = {
    'quick': {'dts': DTS, 'targets': DTS + EXTRA_TARGETS, 'lens': (2, 3, 4, 5, 9, 12, 31), 'word_lens': (2, 3, 4, 5),
              'pair_cap': 6, 'near_dts': (0.005, 0.01, 0.07, 0.3, 1.0), 'side_lens': (4, 12)},
    'thorough': {'dts': DTS + (0.001, 0.0125, 2.0),
                 'targets': DTS + EXTRA_TARGETS + (0.001, 0.0125, 2.0, 0.015, 0.6, 0.09999999999999999,
                                                   0.10000000000000002),
                 'lens': (2, 3, 4, 5, 6, 7, 9, 12, 16, 31, 64), 'word_lens': (2, 3, 4, 5, 6, 7), 'pair_cap': None,
                 'near_dts': DTS, 'side_lens': (4, 5, 12, 31)},
}
_cfg = {}


def in_domain(dt, tg, n):
    """The property's domain: duration >= 2*max(dt, target), duration = npts*dt (the reading under which a record of
    20 samples at 0.01 s lasts 0.2 s), the two steps taken as the decimal numbers the caller wrote (exact rationals:
    20*0.01 >= 2*0.1 holds, whatever the binary representation of 0.01 and 0.1)."""
    d, t = frac(dt), frac(tg)
    return n * d >= 2 * max(d, t)


def n_min(dt, tg):
    """Smallest record length of the domain for this (dt, target)."""
    d, t = frac(dt), frac(tg)
    q = 2 * max(d, t) / d
    return max(2, -((-q.numerator) // q.denominator))


def build(tier, seed):
    m = MENU[tier]
    cases = []
    seen = set()

    def add(dt, tg, n, fam):
        key = (repr(dt), repr(tg), n)         # 1 (int) and 1.0 are different arguments
        if key in seen or not in_domain(dt, tg, n):
            return
        seen.add(key)
        cases.append([dt, tg, n, tier, fam])
    for n in m['lens']:
        for dt in m['dts']:
            for tg in m['targets']:
                add(dt, tg, n, 'grid')
    for dt in m['dts']:
        for tg in m['targets']:
            nm = n_min(dt, tg)
            for n in (nm, nm + 1):
                add(dt, tg, n, 'min')
    for n in m['side_lens']:
        for dt in m['near_dts']:
            for a, b in NEAR_RATIOS:
                for eps in NEAR_EPS:
                    add(dt, dt * a / b * (1 + eps), n, 'near')
        for fam, (dts, tgs) in (('tscale-small', TS_SMALL), ('tscale-large', TS_LARGE), ('int-steps', INT_STEPS)):
            for dt in dts:
                for tg in tgs:
                    add(dt, tg, n, fam)
    # long records: the expensive cases, spread over the list (one per pool chunk, the longest first)
    light = cases
    cases = []
    for n in reversed(long_lens(tier)):
        for dt, tg in LONG_STEPS:
            add(dt, tg, n, 'long')
    heavy = cases
    cases = light
    stride = max(1, len(cases) // max(1, len(heavy)))
    for i, c in enumerate(heavy):
        cases.insert(min(len(cases), i * (stride + 1)), c)
    return {
        'rule_more': 'order of the two parity options alternates with the record length; option-flip sequence on one array; alternating record on the old Nyquist frequency when refining; object histories with running_average / rebase_displacement / remove_average',
        'cases': cases,
        'rule': 'grid points (dt, target, n) with n*dt >= 2*max(dt,target) (exact, decimal reading): menu dt x menu target x n in %s; '
                '+ every (dt, target) of the menus with the smallest n of the domain and that n + 1; + target = dt*q*(1+eps), q in '
                '{1,2,3,1/2,1/3}, eps in %s, dt in %s, n in %s; + menus scaled in time by 1e-6 / 1e+3 and integer-typed steps, same n.  Records: all words over '
                '{-1,0,2} for n in %s, one smooth record otherwise, always the smooth record x %s; x even in {T,F} x '
                '{interp_array_to_approx_dt, interp_to_approx_dt, resample_to_approx_dt}; per grid point and even: containers '
                '{int64, int16 and uint8 with large steps, float32, list, tuple}; sequences on one object (held another record of another '
                'length and was queried / had its lazy properties and deprecated statistics read; reset_values, add_constant, '
                'reset to a record with the same length and end values, back again), A-B-A on the same argument arrays, returned '
                'arrays overwritten by the caller, default options after explicit ones; Fourier family: every on-grid cos/sin '
                'harmonic and pair combination strictly below both Nyquist frequencies%s; non-trivial = non-constant record whose step '
                'actually changes.  Long family: n in %s x (dt, target) in %s x even in {T,F}: the smooth record through the three '
                'entry points, on-grid harmonics k in {0, 1, 3, kmax//3, kmax-1, kmax} (kmax = largest harmonic strictly below both '
                'Nyquist frequencies; cos and sin) and their weighted sum through the Fourier entry point'
                % (list(m['lens']), list(NEAR_EPS), list(m['near_dts']), list(m['side_lens']),
                                      list(m['word_lens']), list(VALUE_SCALES),
                                      '' if m['pair_cap'] is None else
                                      ' (pairs among the %d lowest and %d highest harmonics for n > 12)'
                                      % (m['pair_cap'], m['pair_cap']), long_lens(tier), list(LONG_STEPS)),
        'bounds': {'alphabet': SIG, 'dt': m['dts'], 'target_dt': m['targets'], 'lengths': m['lens'],
                   'word_lengths': m['word_lens'], 'even': [True, False], 'near_ratios': NEAR_RATIOS, 'near_eps': NEAR_EPS,
                   'near_dt': m['near_dts'], 'near_and_time_scale_lengths': m['side_lens'],
                   'time_scaled_menus': [TS_SMALL, TS_LARGE], 'integer_typed_steps': INT_STEPS, 'value_scales': VALUE_SCALES,
                   'object_classes_in_sequences': OBJ_CLASSES,
                   'containers': ['float64', 'int64', 'int16 x15000', 'uint8 x125', 'float32', 'list', 'tuple'],
                   'previous_record_lengths': ['n+3', 'max(2,n-2)'],
                   'long_lengths': long_lens(tier), 'long_steps': LONG_STEPS,
                   'long_harmonics': '0, 1, 3, kmax//3, kmax-1, kmax (cos, sin) + weighted sum'},
        'required_classes': ['refinement', 'decimation', 'same-step', 'unchanged-step-below-2x', 'non-commensurate',
                             'rounding-adjacent-quotient', 'even-trimmed', 'even-natural', 'odd-length-output',
                             'array-entry', 'object-entry', 'fourier-entry', 'fourier-refine-exact',
                             'fourier-decimate-exact', 'fourier-nontile', 'fourier-word-exact',
                             'fourier-word-not-bandlimited', 'minimum-duration-exactly', 'minimum-duration-exactly-decimation',
                             'minimum-duration-plus-one-sample', 'two-sample-record', 'near-equal-steps', 'near-integer-quotient',
                             'time-scale-small', 'time-scale-large', 'integer-typed-steps', 'value-scale-1e-09', 'value-scale-1e+06',
                             'container-i64', 'container-i16', 'container-u8', 'container-f32', 'container-list',
                             'container-tuple', 'object-history-longer-before', 'object-history-shorter-before', 'a-b-a', 'option-flip-sequence', 'object-history-in-place-edit',
                             'returned-array-overwritten', 'default-after-explicit',
                             'long-record', 'long-pow2', 'long-pow2-minus-1', 'long-pow2-plus-1', 'long-pow10',
                             'long-above-2**15-5-smooth', 'long-above-2**15-not-5-smooth', 'long-above-2**16',
                             'fourier-long-refine-exact', 'fourier-long-decimate-exact', 'fourier-long-same-exact'],
        'assumptions': ['duration of a record = npts*dt, both in the domain condition and in the duration claim; the domain '
                        'condition is evaluated exactly with dt, target read as the decimal numbers written (20 samples at 0.01 s '
                        'and target 0.1 s: duration exactly two target steps, inside the domain)',
                        'values outside {-1,0,2} only through the smooth records (x 1, 1e-9, 1e+6), the container records and the '
                        'harmonic family',
                        'dt, target only on the menus',
                        'records longer than the length menu only through the long family (lengths next to powers of two / ten up '
                        'to 2**%d + 4, smooth record + harmonic menu, fresh float64 objects, no containers / call sequences)'
                        % LONG_TOP[tier],
                        'float32 records only for the two interpolation entry points (np.interp works in double precision; the '
                        'Fourier path returns single precision for them on the unchanged tree)',
                        'Fourier exactness is asserted only where npts*dt/new_dt is an integer of the requested parity '
                        '(otherwise no periodic resampling onto that step exists); on a re-used object / another container the '
                        'Fourier result is compared with that of a fresh float64 object holding the same numbers'],
    }


def smooth(n):
    return [3.0 * math.cos(1.3 * j) - 1.0 + 0.1 * j for j in range(n)]


# ------------------------------------------------------------------------------ oracles
def step_rule(r, pre, sub, dt, tg, ndt):
    """returns ('refine', f) / ('decimate', m) / None"""
    try:
        ndt = float(ndt)
    except Exception:
        r.fail(pre + '.step', sub, 'returned step is not a number', observed=ndt)
        return None
    if not (math.isfinite(ndt) and ndt > 0):
        r.fail(pre + '.step', sub, 'returned step is not a positive finite number', observed=ndt)
        return None
    r.expect(pre + '.step-not-above-target', sub, ndt <= tg * (1 + 1e-12),
             'new step %r exceeds the target %r' % (ndt, tg), observed=ndt, expected='<= %r' % tg)
    q = dt / ndt
    f = int(round(q))
    r.n_cmp += 1
    if f >= 1 and abs(q - f) <= 1e-9:
        return ('refine', f)
    qi = ndt / dt
    m = int(round(qi))
    if m >= 1 and abs(qi - m) <= 1e-9:
        return ('decimate', m)
    r.fail(pre + '.step-ratio-integer', sub, 'neither dt/new_dt = %r nor new_dt/dt = %r is an integer' % (q, qi),
           observed=ndt)
    return None


def as_vec(v):
    try:
        a = np.asarray(v)
        if a.ndim != 1 or a.dtype.kind not in 'fiu':
            return None
        return a
    except Exception:
        return None


def check_interp(r, pre, sub, x, dt, tg, even, vals, ndt):
    n = len(x)
    mode = step_rule(r, pre, sub, dt, tg, ndt)
    out = as_vec(vals)
    if out is None:
        r.fail(pre + '.values', sub, 'returned values are not a one-dimensional numeric array', observed=vals)
        return mode
    lo, hi = float(np.min(x)), float(np.max(x))
    scale = max(abs(lo), abs(hi), 1e-300)
    if even:
        r.expect(pre + '.even-length', sub, len(out) % 2 == 0, 'odd length %d although even=True' % len(out),
                 observed=len(out))
    elif len(out) % 2:
        r.cls('odd-length-output')
    if len(out) == 0:
        r.fail(pre + '.values', sub, 'empty output')
        return mode
    r.expect(pre + '.range', sub, bool(np.all(np.isfinite(out))) and float(np.min(out)) >= lo - 1e-9 * scale and
             float(np.max(out)) <= hi + 1e-9 * scale, 'values leave the input range [%r, %r]' % (lo, hi), observed=out)
    if mode is None:
        return None
    kind, k = mode
    fdt = float(ndt)
    r.expect(pre + '.duration', sub, abs(len(out) * fdt - n * dt) < 2 * max(dt, fdt) * (1 + 1e-12),
             'covered duration changes from %r to %r (two steps = %r)' % (n * dt, len(out) * fdt, 2 * max(dt, fdt)),
             observed=len(out))
    r.transitions += 1
    if kind == 'refine':
        idx = [j for j in range(n) if j * k < len(out)]
        got = out[[j * k for j in idx]]
        want = x[idx]
        same = got.shape == want.shape and got.dtype.kind == 'f' and bool(np.all(got == want))
        r.expect(pre + '.samples-retained', sub, same, 'original samples do not reappear unchanged at out[j*%d]' % k,
                 observed=got, expected=want)
    else:
        if (len(out) - 1) * k > n - 1:
            r.expect(pre + '.subsequence', sub, False, 'output of %d samples with step ratio %d runs past the %d input '
                     'samples' % (len(out), k, n), observed=out)
        else:
            r.expect_close(pre + '.subsequence', sub, out, x[::k][:len(out)], rtol=1e-9, scale=scale,
                           what='output vs in[j*%d]' % k)
    return mode


def dft_coeffs(x):
    """c_k, k = 0..n//2, by the defining sum."""
    n = len(x)
    out = []
    for k in range(n // 2 + 1):
        re = sum(x[j] * math.cos(2 * math.pi * ((j * k) % n) / n) for j in range(n)) / n
        im_ = -sum(x[j] * math.sin(2 * math.pi * ((j * k) % n) / n) for j in range(n)) / n
        out.append((re, im_))
    return out


def trig_eval(coef, n, kmax, nn, count):
    """Samples j = 0..count-1 of the trigonometric interpolant on a grid of nn points per period,
    using harmonics 0..kmax."""
    j = np.arange(count)
    s = np.full(count, coef[0][0], dtype=float)
    for k in range(1, kmax + 1):
        ph = 2 * math.pi * ((j * k) % nn) / nn
        s += 2 * (coef[k][0] * np.cos(ph) - coef[k][1] * np.sin(ph))
    return s


def tile_points(n, mode, even):
    """Number of points of the new grid over the same period, or None if the grid does not tile it."""
    kind, k = mode
    if kind == 'refine':
        nn = n * k
    else:
        if n % k:
            return None
        nn = n // k
    if nn < 1 or (even and nn % 2):
        return None
    return nn


def resample_call(r, sub, x, dt, tg, even):
    """-> (values, dt) or None"""
    def run():
        return time_step.resample_to_approx_dt(eqsig.AccSignal(np.array(x, dtype=float), dt), target_dt=tg, even=even)
    ok, obj = r.call('fourier.returns', sub, run)
    if not ok:
        return None
    r.n_cmp += 1
    if not isinstance(obj, eqsig.AccSignal):
        r.fail('fourier.object', sub, 'result is not an AccSignal', observed=type(obj).__name__)
        return None
    try:
        return obj.values, obj.dt, obj.npts
    except Exception as e:
        r.fail('fourier.object', sub, 'cannot read values/dt/npts: %s' % e)
        return None


def check_fourier_basic(r, sub, n, dt, tg, even, res):
    vals, ndt, npts = res
    mode = step_rule(r, 'fourier', sub, dt, tg, ndt)
    out = as_vec(vals)
    if out is None:
        r.fail('fourier.values', sub, 'values are not a one-dimensional numeric array', observed=vals)
        return None, None
    r.expect('fourier.object', sub, npts == len(out), 'npts %r != number of values %d' % (npts, len(out)))
    if even:
        r.expect('fourier.even-length', sub, len(out) % 2 == 0, 'odd length %d although even=True' % len(out),
                 observed=len(out))
    return mode, out


def harmonic_family(n, nn, cap):
    """[(label, input samples, expected output samples)] strictly below both Nyquist frequencies."""
    kmax = (min(n, nn) - 1) // 2          # largest k with k < min(n, nn)/2
    ji = np.arange(n)
    jo = np.arange(nn)
    single = []
    for k in range(kmax + 1):
        pi_ = 2 * math.pi * ((ji * k) % n) / n
        po = 2 * math.pi * ((jo * k) % nn) / nn
        single.append((['cos', k], np.cos(pi_), np.cos(po)))
        if k:
            single.append((['sin', k], np.sin(pi_), np.sin(po)))
    if n % 2 == 0 and nn > n:
        # refinement of an even-length record: the alternating record cos(pi j) sits exactly ON the old Nyquist frequency - periodic over
        # the record and strictly below the new one, so the statement covers it (its bin needs splitting between +f and -f)
        k = n // 2
        single.append((['cos', k, 'on the old Nyquist frequency'], np.cos(math.pi * (ji % 2)), np.cos(2 * math.pi * ((jo * k) % nn) / nn)))
    fam = list(single)
    if cap is not None and n > 12 and len(single) > 2 * cap:
        pool = single[:cap] + single[-cap:]
    else:
        pool = single
    for a, b in itertools.combinations(range(len(pool)), 2):
        la, xa, ya = pool[a]
        lb, xb, yb = pool[b]
        fam.append(([2] + la + [-1] + lb, 2 * xa - xb, 2 * ya - yb))
    return fam


def expect_close_long(r, claim, sub, got, want, rtol, scale, what=''):
    """Res.expect_close for long series: same verdict, but a mismatch is reported with its worst sample (index, value,
    expected value) instead of the whole series."""
    r.n_cmp += 1
    ok, err, why = close(got, want, rtol=rtol, scale=scale)
    if ok:
        return True
    g, w = to_array(got), to_array(want)
    obs, exp = None, None
    if g is not None and w is not None and g.shape == w.shape and g.size:
        with np.errstate(all='ignore'):
            d = np.abs(g - w)
            d = np.where(np.isfinite(d), d, np.inf)
        i = int(np.argmax(d))
        obs = {'worst_sample': i, 'of': int(g.size), 'value': float(g[i])}
        exp = {'value': float(w[i])}
    elif g is not None:
        obs = {'shape': list(g.shape)}
        exp = {'shape': list(w.shape)} if w is not None else None
    else:
        obs = type(got).__name__
    return r.fail(claim, sub, (what + ': ' if what else '') + why, err=err, observed=obs, expected=exp)


def harmonic_menu(n, nn):
    """Long records: [(label, input samples, expected output samples)] for a MENU of on-grid harmonics strictly below both
    Nyquist frequencies (lowest, a middle one, the two highest; cos and sin) and the weighted sum of all of them."""
    kmax = (min(n, nn) - 1) // 2
    ji = np.arange(n)
    jo = np.arange(nn)
    fam = []
    for k in sorted(set(k for k in (0, 1, 3, kmax // 3, kmax - 1, kmax) if 0 <= k <= kmax)):
        pi_ = 2 * math.pi * ((ji * k) % n) / n
        po = 2 * math.pi * ((jo * k) % nn) / nn
        fam.append((['cos', k], np.cos(pi_), np.cos(po)))
        if k:
            fam.append((['sin', k], np.sin(pi_), np.sin(po)))
    xin = np.zeros(n)
    yout = np.zeros(nn)
    for i, (lab, xa, ya) in enumerate(fam):
        c = (-1) ** i / (1.0 + i)
        xin += c * xa
        yout += c * ya
    fam.append((['weighted-sum-of-menu'], xin, yout))
    return fam


# ------------------------------------------------------------------------------ records, containers, histories
def mixed(n):
    return [SIG[(t * t + t // 2) % 3] for t in range(n)]


def partner(rec):
    """Another record with the same length and the same first / last value (n = 2: the reversed record)."""
    if len(rec) <= 2:
        return list(reversed(rec))
    return [rec[0]] + [0.25 - 0.5 * v for v in rec[1:-1]] + [rec[-1]]


def containers_for(n):
    """(name, factory of the argument object, also for the Fourier path?)  The numbers of each container are what the
    oracle sees (np.array(container, dtype=float)): narrow / unsigned integer types carry large steps."""
    mx = mixed(n)
    sm = smooth(n)
    return [('i64', lambda: np.array(mx, dtype=np.int64), True),
            ('i16', lambda: np.array([15000 * v for v in mx], dtype=np.int16), True),
            ('u8', lambda: np.array([125 * abs(v) if t % 3 else 250 - 125 * abs(v) for t, v in enumerate(mx)], dtype=np.uint8), True),
            ('f32', lambda: np.array(sm, dtype=np.float32), False),
            ('list', lambda: [float(v) for v in sm], True),
            ('tuple', lambda: tuple(int(v) for v in mx), True)]


def exercise(s):
    """Read the lazy properties and call the auxiliary / deprecated public methods that store results on the object.
    Whether these succeed is not this property's business."""
    for name in ('fa_spectrum', 'fa_freqs', 'smooth_fa_spectrum', 'velocity', 'displacement', 'pga', 'pgv', 'pgd'):
        try:
            getattr(s, name)
        except Exception:
            pass
    for name in ('generate_displacement_and_velocity_series', 'generate_peak_values', 'generate_cumulative_stats',
                 'generate_duration_stats'):
        try:
            getattr(s, name)()
        except Exception:
            pass


def same_bits(a, b):
    try:
        a = np.asarray(a)
        b = np.asarray(b)
        return a.shape == b.shape and bool(np.array_equal(a, b))
    except Exception:
        return False


def interp_pair(r, sub, res):
    try:
        vals, ndt = res
        return True, vals, ndt
    except Exception:
        r.fail('interp.returns', sub, 'result is not a (values, dt) pair', observed=res)
        return False, None, None


def interp_obj(r, sub, obj):
    """-> (values, dt) of the AccSignal returned by interp_to_approx_dt, or None"""
    r.n_cmp += 1
    if not isinstance(obj, eqsig.AccSignal):
        r.fail('interp.object', sub, 'result is not an AccSignal', observed=type(obj).__name__)
        return None
    try:
        vals, ndt, npts = obj.values, obj.dt, obj.npts
    except Exception as e:
        r.fail('interp.object', sub, 'cannot read values/dt/npts: %s' % e)
        return None
    r.expect('interp.object', sub, npts == len(vals), 'npts %r != number of values %d' % (npts, len(vals)))
    return vals, ndt


def resample_obj(r, sub, obj):
    r.n_cmp += 1
    if not isinstance(obj, eqsig.AccSignal):
        r.fail('fourier.object', sub, 'result is not an AccSignal', observed=type(obj).__name__)
        return None
    try:
        return obj.values, obj.dt, obj.npts
    except Exception as e:
        r.fail('fourier.object', sub, 'cannot read values/dt/npts: %s' % e)
        return None


def fresh_resample(x, dt, tg, even):
    """Periodic resampling of the same numbers on a fresh float64 object (None if that fails: reported elsewhere)."""
    try:
        o = time_step.resample_to_approx_dt(eqsig.AccSignal(np.array(x, dtype=float), dt), target_dt=tg, even=even)
        return np.array(o.values, dtype=float), float(o.dt)
    except Exception:
        return None


def check_resample_like_fresh(r, sub, res, x, dt, tg, even):
    n = len(x)
    mode, out = check_fourier_basic(r, sub, n, dt, tg, even, res)
    if out is None:
        return
    fr = fresh_resample(x, dt, tg, even)
    if fr is None:
        return
    r.transitions += 1
    scale = float(np.max(np.abs(x))) or 1.0
    r.expect_close('fourier.function-of-record', sub, out, fr[0], rtol=1e-9, scale=max(scale, float(np.max(np.abs(fr[0])))),
                   what='values vs those for a fresh float64 object holding the same numbers')
    r.expect_close('fourier.function-of-record', sub, res[1], fr[1], rtol=1e-12, what='step vs fresh object')


def run_containers(r, base, dt, tg, n, even):
    for cname, make, fourier_too in containers_for(n):
        r.cls('container-' + cname)
        x = np.array(make(), dtype=float)
        sub = dict(base, rec='container:' + cname, entry='array')
        r.states += 1
        arg = make()
        ok, res = r.call('interp.returns', sub, time_step.interp_array_to_approx_dt, arg, dt, target_dt=tg, even=even)
        r.expect('argument-unchanged', sub, same_bits(np.array(arg, dtype=float), x) and type(arg) is type(make()),
                 'argument container modified', observed=arg, expected=x)
        if ok:
            ok, vals, ndt = interp_pair(r, sub, res)
            if ok:
                check_interp(r, 'interp', sub, x, dt, tg, even, vals, ndt)
        sub = dict(base, rec='container:' + cname, entry='object')
        r.states += 1
        ok, obj = r.call('interp.returns', sub, lambda: time_step.interp_to_approx_dt(eqsig.AccSignal(make(), dt),
                                                                                      target_dt=tg, even=even))
        if ok:
            got = interp_obj(r, sub, obj)
            if got is not None:
                check_interp(r, 'interp', sub, x, dt, tg, even, got[0], got[1])
        if fourier_too:
            sub = dict(base, rec='container:' + cname, entry='resample')
            r.states += 1
            ok, obj = r.call('fourier.returns', sub, lambda: time_step.resample_to_approx_dt(eqsig.AccSignal(make(), dt),
                                                                                             target_dt=tg, even=even))
            if ok:
                res = resample_obj(r, sub, obj)
                if res is not None:
                    check_resample_like_fresh(r, sub, res, x, dt, tg, even)


def run_sequences(r, base, dt, tg, n, even, rec_a):
    """Call sequences.  Every result must be the one for the record held / passed NOW."""
    A = np.array(rec_a, dtype=float)
    B = np.array(partner(rec_a), dtype=float)
    C_ADD = 5.0
    # ---- array level: the same argument arrays, A-B-A, the first result overwritten by the caller before the third call
    sub = dict(base, rec='seq', entry='array')
    snapA = A.copy()
    r.cls('a-b-a')
    r.cls('returned-array-overwritten')
    first = None
    for step, arr in (('A', A), ('B', B), ('A-again', A)):
        s2 = dict(sub, step=step)
        r.states += 1
        ok, res = r.call('interp.returns', s2, time_step.interp_array_to_approx_dt, arr, dt, target_dt=tg, even=even)
        if not ok:
            continue
        ok, vals, ndt = interp_pair(r, s2, res)
        if not ok:
            continue
        check_interp(r, 'interp', s2, arr.copy(), dt, tg, even, vals, ndt)
        if step == 'A':
            try:
                first = (np.array(vals, copy=True), float(ndt))
                vals[...] = 1e30          # the caller owns what it was given
            except Exception:
                first = None
        elif step == 'A-again' and first is not None:
            r.transitions += 1
            r.expect('same-call-same-result', s2, same_bits(vals, first[0]) and float(ndt) == first[1],
                     'third call (A, B, A; first result overwritten by the caller) differs from the first', observed=vals,
                     expected=first[0])
    r.expect('argument-unchanged', sub, same_bits(A, snapA), 'argument array modified', observed=A, expected=snapA)
    # the other parity option first, then this one, then the other again (same record, same steps)
    r.cls('option-flip-sequence')
    for step, ev in (('other-option', not even), ('this-option', even), ('other-option-again', not even)):
        s2 = dict(sub, step=step, even_of_this_call=ev)
        r.states += 1
        ok, res = r.call('interp.returns', s2, time_step.interp_array_to_approx_dt, A, dt, target_dt=tg, even=ev)
        if ok:
            ok, vals, ndt = interp_pair(r, s2, res)
            if ok:
                check_interp(r, 'interp', s2, A.copy(), dt, tg, ev, vals, ndt)
    # default options after explicit ones (target_dt=0.01, even=True are the documented defaults)
    if in_domain(dt, 0.01, n):
        r.cls('default-after-explicit')
        s2 = dict(sub, step='defaults-after-explicit')
        r.states += 1
        ok, res = r.call('interp.returns', s2, time_step.interp_array_to_approx_dt, A, dt)
        if ok:
            ok, vals, ndt = interp_pair(r, s2, res)
            if ok:
                check_interp(r, 'interp', s2, A, dt, 0.01, True, vals, ndt)
    # ---- object level, both object-taking functions: an object with a history
    for fname, fn in (('object', time_step.interp_to_approx_dt), ('resample', time_step.resample_to_approx_dt)):
        for plen, ocls in itertools.product(sorted(set([n + 3, max(2, n - 2)]) - set([n])), OBJ_CLASSES):
            r.cls('object-history-longer-before' if plen > n else 'object-history-shorter-before')
            sub = dict(base, rec='seq', entry=fname, prev_len=plen, cls=ocls)
            try:
                s = getattr(eqsig, ocls)(np.array(smooth(plen)), dt)
                exercise(s)
            except Exception as e:
                r.fail('interp.returns' if fname == 'object' else 'fourier.returns', sub, 'cannot prepare the object: %s' % e)
                continue
            try:
                fn(s, target_dt=tg, even=even)      # the previous record may lie outside the domain: not examined
            except Exception:
                pass
            first = None
            steps = (('reset_values(A)', lambda: s.reset_values(A.copy()), A),
                     ('add_constant', lambda: s.add_constant(C_ADD), A + C_ADD),
                     ('reset_values(B)', lambda: s.reset_values(B.copy()), B),
                     ('reset_values(A)-again', lambda: s.reset_values(A.copy()), A),
                     ('after-statistics', lambda: exercise(s), A),
                     ('defaults-after-explicit', None, A),
                     # edits that rewrite the stored record without going through reset_values: the record examined is the one the
                     # object holds afterwards
                     ('running_average(3)', lambda: s.running_average(3), None),
                     ('rebase_displacement', (lambda: s.rebase_displacement()) if hasattr(s, 'rebase_displacement') else (lambda: s.running_average(2)), None),
                     ('remove_average', lambda: s.remove_average(), None))
            for step, change, x in steps:
                s2 = dict(sub, step=step)
                pre = 'interp' if fname == 'object' else 'fourier'
                tg2, even2 = tg, even
                if change is None:
                    if not in_domain(dt, 0.01, n):
                        continue
                    tg2, even2 = 0.01, True
                else:
                    ok, _ = r.call(pre + '.returns', s2, change)
                    if not ok:
                        break
                    if x is None:
                        try:
                            x = np.array(s.values, dtype=float)
                            if x.shape != A.shape or not np.all(np.isfinite(x)):
                                break
                            r.cls('object-history-in-place-edit')
                        except Exception:
                            break
                r.states += 1
                r.transitions += 1
                if change is None:
                    ok, obj = r.call(pre + '.returns', s2, fn, s)
                else:
                    ok, obj = r.call(pre + '.returns', s2, fn, s, target_dt=tg, even=even)
                if not ok:
                    continue
                if fname == 'object':
                    got = interp_obj(r, s2, obj)
                    if got is None:
                        continue
                    check_interp(r, 'interp', s2, x, dt, tg2, even2, got[0], got[1])
                else:
                    got = resample_obj(r, s2, obj)
                    if got is None:
                        continue
                    check_resample_like_fresh(r, s2, got, x, dt, tg2, even2)
                if step == 'reset_values(A)':
                    try:
                        first = (np.array(got[0], copy=True), float(got[1]))
                        got[0][...] = 1e30        # the caller owns the returned object
                    except Exception:
                        first = None
                elif step == 'reset_values(A)-again' and first is not None:
                    r.expect('same-call-same-result', s2, same_bits(got[0], first[0]) and float(got[1]) == first[1],
                             'same record on the same object: result differs from the earlier one (which the caller had '
                             'overwritten)', observed=got[0], expected=first[0])
                # the query leaves the object's record alone
                r.expect('argument-unchanged', s2, same_bits(s.values, x), 'the record held by the object changed',
                         observed=s.values, expected=x)


# ------------------------------------------------------------------------------ one grid point
def run_case(case):
    r = Res()
    dt, tg, n, tier = case[:4]
    fam = case[4] if len(case) > 4 else 'grid'
    m = MENU[tier]
    if dt == tg:
        r.cls('same-step')
    q = dt / tg if dt > tg else tg / dt
    if fam == 'near':
        r.cls('near-equal-steps' if round(q) == 1 else 'near-integer-quotient')
    elif abs(q - round(q)) > 1e-6:
        r.cls('non-commensurate')
    elif q != round(q) or tg in ADJACENT:
        r.cls('rounding-adjacent-quotient')
    if fam.startswith('tscale'):
        r.cls('time-scale-small' if fam == 'tscale-small' else 'time-scale-large')
    if fam == 'int-steps':
        r.cls('integer-typed-steps')
    d_, t_ = frac(dt), frac(tg)
    if n * d_ == 2 * max(d_, t_):
        r.cls('minimum-duration-exactly')
        if t_ > d_:
            r.cls('minimum-duration-exactly-decimation')
    elif n == n_min(dt, tg) + 1:
        r.cls('minimum-duration-plus-one-sample')
    if n == 2:
        r.cls('two-sample-record')
    long_ = fam == 'long'
    if long_:
        r.cls('long-record')
        for p in range(6, 40):
            if n in (2 ** p - 1, 2 ** p, 2 ** p + 1):
                r.cls(('long-pow2-minus-1', 'long-pow2', 'long-pow2-plus-1')[n - 2 ** p + 1])
        if n in (10 ** 3, 10 ** 4, 10 ** 5):
            r.cls('long-pow10')
        if n > 2 ** 15:
            r.cls('long-above-2**15-5-smooth' if is_5_smooth(n) else 'long-above-2**15-not-5-smooth')
        if n > 2 ** 16:
            r.cls('long-above-2**16')
    if long_:
        records = [('smooth', smooth(n))]
    elif n in m['word_lens']:
        records = [(list(w), list(w)) for w in itertools.product(SIG, repeat=n)]
        records.append(('smooth', smooth(n)))
    else:
        records = [('smooth', smooth(n))]
    if not long_:
        for sc in VALUE_SCALES:
            records.append(('smooth*%.0e' % sc, [sc * v for v in smooth(n)]))
    # the order of the two options alternates with the parity of the length (odd lengths, whose natural refined length can be odd,
    # see even=False first): anything kept between calls must not let the first request decide the parity of the next
    for even in ((True, False) if n % 2 == 0 else (False, True)):
        fam_done = False
        base0 = {'dt': dt, 'target': tg, 'n': n, 'even': even}
        if not long_:
            run_containers(r, base0, dt, tg, n, even)
            run_sequences(r, base0, dt, tg, n, even, smooth(n))
        for label, rec in records:
            x = np.array(rec, dtype=float)
            nonconst = len(set(rec)) > 1
            if isinstance(label, str) and '*' in label:
                r.cls('value-scale-' + label.split('*')[1])
            base = {'dt': dt, 'target': tg, 'n': n, 'even': even, 'rec': label}
            # ---- array level
            sub = dict(base, entry='array')
            r.states += 1
            r.cls('array-entry')
            ok, res = r.call('interp.returns', sub, time_step.interp_array_to_approx_dt, x.copy(), dt, target_dt=tg,
                             even=even)
            mode = None
            if ok:
                ok, vals, ndt = interp_pair(r, sub, res)
                if ok:
                    mode = check_interp(r, 'interp', sub, x, dt, tg, even, vals, ndt)
                    if mode is not None:
                        kind, k = mode
                        nat = n * k if kind == 'refine' else int(math.ceil(n / k))
                        if k == 1:
                            if dt != tg:
                                r.cls('unchanged-step-below-2x')
                        else:
                            r.cls('refinement' if kind == 'refine' else 'decimation')
                            if nonconst:
                                r.nontrivial += 1
                        if even:
                            r.cls('even-trimmed' if nat % 2 else 'even-natural')
            # ---- object level
            sub = dict(base, entry='object')
            r.states += 1
            r.cls('object-entry')

            def run_obj():
                return time_step.interp_to_approx_dt(eqsig.AccSignal(x.copy(), dt), target_dt=tg, even=even)
            ok, obj = r.call('interp.returns', sub, run_obj)
            if ok:
                got = interp_obj(r, sub, obj)
                if got is not None:
                    check_interp(r, 'interp', sub, x, dt, tg, even, got[0], got[1])
            # ---- periodic resampling of the record itself
            sub = dict(base, entry='resample')
            r.states += 1
            r.cls('fourier-entry')
            res = resample_call(r, sub, x, dt, tg, even)
            fmode = None
            if res is not None:
                fmode, out = check_fourier_basic(r, sub, n, dt, tg, even, res)
                nn = tile_points(n, fmode, even) if fmode is not None else None
                if fmode is not None and nn is None:
                    r.cls('fourier-nontile')
                if nn is not None and out is not None and not long_:
                    coef = dft_coeffs(rec)
                    scale = max(abs(v) for v in rec) or 1.0
                    kmax = (min(n, nn) - 1) // 2
                    if all(math.hypot(*coef[k]) <= 1e-12 * scale for k in range(kmax + 1, n // 2 + 1)):
                        r.cls('fourier-word-exact')
                        r.transitions += 1
                        want = trig_eval(coef, n, kmax, nn, len(out))
                        r.expect_close('fourier.band-limited-exact', sub, out, want, rtol=1e-9, atol=1e-9 * scale,
                                       what='record is band-limited below both Nyquist frequencies; output vs s(j*new_dt)')
                    else:
                        r.cls('fourier-word-not-bandlimited')
            # ---- harmonic family (once per (dt, target, n, even))
            if fam_done:
                continue
            fam_done = True
            # the step does not depend on the values: take the mode from the exact-rational rule of the statement
            # only through the implementation's own answer on this grid point; if the call above failed, probe
            # with the first harmonic instead
            probe_mode = fmode
            if probe_mode is None:
                sub = dict(base, entry='resample', rec=None, sig=['cos', 0])
                res = resample_call(r, sub, [1.0] * n, dt, tg, even)
                if res is not None:
                    probe_mode, _ = check_fourier_basic(r, sub, n, dt, tg, even, res)
            if probe_mode is None:
                r.disabled['harmonic family not observable: resampling fails or breaks the step rule'] += 1
                continue
            nn = tile_points(n, probe_mode, even)
            if nn is None:
                continue
            for lab, xin, yout in (harmonic_menu(n, nn) if long_ else harmonic_family(n, nn, m['pair_cap'])):
                sub = {'dt': dt, 'target': tg, 'n': n, 'even': even, 'entry': 'resample', 'sig': lab}
                r.states += 1
                res = resample_call(r, sub, xin, dt, tg, even)
                if res is None:
                    continue
                hm, out = check_fourier_basic(r, sub, n, dt, tg, even, res)
                if hm is None:
                    continue
                if hm != probe_mode:
                    r.fail('fourier.step-depends-on-values', sub, 'step ratio %r differs from %r obtained for another '
                           'record of the same grid point' % (hm, probe_mode))
                    continue
                r.transitions += 1
                r.cls(('fourier-long-' if long_ else 'fourier-') +
                      ('refine-exact' if hm[0] == 'refine' and hm[1] > 1 else
                       'decimate-exact' if hm[1] > 1 else 'same-exact'))
                want = yout[np.arange(len(out)) % nn]       # s is periodic
                what = 'on-grid harmonic below the new Nyquist frequency; output vs s(j*new_dt)'
                if long_:
                    expect_close_long(r, 'fourier.band-limited-exact', sub, out, want, rtol=1e-9, scale=3.0, what=what)
                else:
                    r.expect_close('fourier.band-limited-exact', sub, out, want, rtol=1e-9, scale=3.0, what=what)
    return r


def snippet(case, v):
    dt, tg, n = case[:3]
    return ("import math, numpy as np, eqsig\nfrom eqsig.fns import time_step as ts\n"
            "sub = %r\ndt, target, n, even = sub['dt'], sub['target'], sub['n'], sub['even']\n"
            "rec = sub.get('rec')\n"
            "x = np.array(rec if isinstance(rec, list) else [3*math.cos(1.3*j) - 1 + 0.1*j for j in range(n)], float)\n"
            "if isinstance(rec, str) and '*' in rec: x = x * float(rec.split('*')[1])\n"
            "# harmonic cases ('sig' in sub): x = cos/sin(2*pi*k*arange(n)/n) as labelled (pairs: 2*first - second; long records: "
            "weighted sum of the menu)\n"
            "sig = sub.get('sig')\n"
            "if sig and len(sig) == 2: x = getattr(np, sig[0])(2 * np.pi * ((np.arange(n) * sig[1]) %% n) / n)\n"
            "# rec 'container:<type>': the mixed {-1,0,2} pattern (x15000 as int16, x125 as uint8) / the smooth record in that container\n"
            "print(ts.interp_array_to_approx_dt(x, dt, target_dt=target, even=even))\n"
            "a = ts.interp_to_approx_dt(eqsig.AccSignal(x, dt), target_dt=target, even=even); print(a.dt, a.values)\n"
            "b = ts.resample_to_approx_dt(eqsig.AccSignal(x, dt), target_dt=target, even=even); print(b.dt, b.values)\n"
            "if 'step' in sub:   # call sequence on one object: another record before, then this one\n"
            "    s = eqsig.AccSignal(np.array([3*math.cos(1.3*j) - 1 + 0.1*j for j in range(sub.get('prev_len', n + 3))]), dt)\n"
            "    ts.interp_to_approx_dt(s, target_dt=target, even=even); s.reset_values(x)\n"
            "    a = ts.interp_to_approx_dt(s, target_dt=target, even=even); print('re-used object:', a.dt, a.values)\n"
            % (v.get('sub'),))
