"""C16 - saved signals load back unchanged (to the format's precision).

Engine G (configuration lattice) on real files: one pool case is one (value word, dt); inside
it the complete product labels x savers x loader entry points x load factor m x load_label is
executed.  Every file is really written with the library's saver into a private
tempfile.mkdtemp() directory of the worker process, really read back with the library's
loaders, and removed again.

Oracle = the arithmetic of the text format as the property states it (nothing is taken from
the loader): same number of points, |dt' - dt| <= 0.5e-4, |v' - m v| <= |m| 0.5e-6, label
equal when requested, returned object of exactly the requested class.
"""
import atexit
import multiprocessing
import multiprocessing.util
import os
import shutil
import signal
import tempfile

import numpy as np

from ..target import eqsig, loader
from ..result import Res
from ..compare import words, to_array

VALUES = (0.0, 1.5, -2.25, 1e6, -1e-6, 123456.789012, 0.0000005)
# the DESIGN.md menu plus 1.2345: the only step with more than four significant digits (a writer using
# '%.4g' instead of '%.4f' is invisible on the other eleven)
DTS = (0.0001, 0.005, 0.01, 0.02, 0.5, 0.9999, 1.0, 1.2345, 1.5, 2.0, 12.25, 100.0)
LABELS = ('m1', 'my label', 'a, b #1')
# "labels with spaces", in general form: every label over the two-letter alphabet {letter, blank} up to a
# length bound that contains at least one letter - blanks leading, trailing, single and in runs.  These are
# separate (cheap) pool cases on a small menu of records and time steps, because the position of the
# blanks in the label is independent of the numbers stored below it.
LABEL_ALPHABET = ('a', ' ')
LABEL_RECORDS = ((0.0,), (1.5, -2.25, 123456.789012))
LABEL_DTS = (0.01, 1.5)
MS = (1.0, 2.5, -1)
SAVERS = ('save_signal:Signal', 'save_signal:AccSignal', 'save_values_and_dt')

DT_TOL = 0.5e-4 + 1e-12          # "the same time step to 4 decimals"
V_HALF = 0.5e-6 * (1 + 1e-9)     # "the same values to 6 decimals"
V_REL = 1e-12                    # binary rounding of the product m*v

CASE_TIMEOUT = 120

# ---- private scratch directory (one per process that runs cases) ----------------------------
_DIR = None
_DIR_PID = None


def _cleanup():
    global _DIR, _DIR_PID
    if _DIR is not None and _DIR_PID == os.getpid():
        shutil.rmtree(_DIR, ignore_errors=True)
        _DIR = None
        _DIR_PID = None


def _on_term(signum, frame):
    _cleanup()
    os._exit(0)


def worker_init():
    """Pool workers never run atexit handlers: they leave either through multiprocessing's own exit
    function (sentinel from Pool.terminate -> util.Finalize callbacks run) or are stopped with SIGTERM.
    Both routes are hooked; atexit covers the serial and --replay paths in the main process."""
    if multiprocessing.current_process().name != 'MainProcess':
        try:
            signal.signal(signal.SIGTERM, _on_term)
        except Exception:
            pass


def _scratch():
    global _DIR, _DIR_PID
    if _DIR is None or _DIR_PID != os.getpid() or not os.path.isdir(_DIR):
        _DIR = tempfile.mkdtemp(prefix='mc_c16_')
        _DIR_PID = os.getpid()
        atexit.register(_cleanup)
        multiprocessing.util.Finalize(None, _cleanup, exitpriority=10)
    return _DIR


# ---- enumeration ---------------------------------------------------------------------------
def build(tier, seed):
    L = 3 if tier == 'quick' else 4
    cases = []
    for w in words(range(len(VALUES)), 1, L):
        for dt in DTS:
            cases.append({'w': [VALUES[i] for i in w], 'dt': dt})
    LL = 5 if tier == 'quick' else 6
    n_lab = 0
    for lw in words(range(len(LABEL_ALPHABET)), 1, LL):
        lab = ''.join(LABEL_ALPHABET[i] for i in lw)
        if not lab.strip():
            continue        # a label without any letter is not examined (see assumptions)
        n_lab += 1
        cases.append({'kind': 'label', 'label': lab})
    return {
        'cases': cases,
        'rule': 'value cases: all value words of length 1..%d over the 7-value alphabet x %d time steps (one pool case '
                'per (word, dt)); inside each case: 3 labels x 3 savers (save_signal from a Signal, save_signal from an '
                'AccSignal, save_values_and_dt) = 9 real files, each read back through 15 loader calls '
                '(load_values_and_dt; load_signal astype signal / acc_sig / default; load_sig m default,1.0,2.5,-1; '
                'load_asig default and load_label in {F,T} x m in {1.0,2.5,-1}); non-trivial = word not identically '
                'zero.  label cases: all %d labels of length 1..%d over {letter, blank} with at least one letter '
                '(blanks leading, trailing, single, in runs; one pool case per label), each on %d records x %d time '
                'steps x the 3 savers x the same 15 loader calls; non-trivial = label contains a blank'
                % (L, len(DTS), n_lab, LL, len(LABEL_RECORDS), len(LABEL_DTS)),
        'bounds': {'values': VALUES, 'max_len': L, 'dt': DTS, 'labels': LABELS, 'm': MS, 'savers': SAVERS,
                   'label_alphabet': LABEL_ALPHABET, 'label_max_len': LL, 'label_records': LABEL_RECORDS,
                   'label_dt': LABEL_DTS,
                   'loaders': ['load_values_and_dt', 'load_signal(astype=signal)', 'load_signal(astype=acc_sig)',
                               'load_signal()', 'load_sig', 'load_asig']},
        'required_classes': ['dt>=1', 'dt<1', 'one-sample', 'multi-sample', 'label-plain', 'label-space',
                             'label-leading-space', 'label-trailing-space', 'label-space-run',
                             'label-comma-hash', 'm-default', 'm-scaled', 'm-negative', 'value-exact',
                             'value-rounded', 'value-negative', 'value-large', 'value-below-precision',
                             'returned-Signal', 'returned-AccSignal', 'label-requested', 'label-not-requested',
                             'saver-Signal', 'saver-AccSignal', 'saver-values'],
        'assumptions': ['values outside the 7-value alphabet, records longer than the bound, dt and labels outside '
                        'the menus are not examined',
                        'labels are single-line strings (the format stores the label on one line)',
                        'labels consisting of blanks only (no letter) and the empty label are not examined; white '
                        'space other than the blank (tabs, line breaks) is not examined',
                        'load_signal() with its default astype ("sig") is read as a request for a Signal',
                        'load_values_and_dt must return a one-dimensional array of npts values (a 0-d array has no '
                        'number of points)',
                        'files live in a private tempfile.mkdtemp() directory per worker and are removed after use'],
    }


def _loaders(n_m=MS):
    """(name, extra sub fields, callable(ffp), wanted class or None, m factor, label requested)."""
    out = [('load_values_and_dt', {}, lambda f: loader.load_values_and_dt(f), None, 1.0, False),
           ('load_signal', {'astype': 'signal'}, lambda f: loader.load_signal(f, astype='signal'), 'Signal', 1.0, False),
           ('load_signal', {'astype': 'acc_sig'}, lambda f: loader.load_signal(f, astype='acc_sig'), 'AccSignal', 1.0,
            False),
           ('load_signal', {'astype': None}, lambda f: loader.load_signal(f), 'Signal', 1.0, False),
           ('load_sig', {'m': None}, lambda f: loader.load_sig(f), 'Signal', 1.0, False)]
    for m in n_m:
        out.append(('load_sig', {'m': m}, (lambda f, m=m: loader.load_sig(f, m=m)), 'Signal', m, False))
    out.append(('load_asig', {'m': None, 'load_label': None}, lambda f: loader.load_asig(f), 'AccSignal', 1.0, False))
    for ll in (False, True):
        for m in n_m:
            out.append(('load_asig', {'m': m, 'load_label': ll},
                        (lambda f, m=m, ll=ll: loader.load_asig(f, load_label=ll, m=m)), 'AccSignal', m, ll))
    return out


def _save(saver, ffp, w, dt, label):
    vals = np.array(w, dtype=float)
    if saver == 'save_signal:Signal':
        loader.save_signal(ffp, eqsig.Signal(vals, dt, label=label))
    elif saver == 'save_signal:AccSignal':
        loader.save_signal(ffp, eqsig.AccSignal(vals, dt, label=label))
    else:
        loader.save_values_and_dt(ffp, vals, dt, label)


def _check_values(r, sub, got, w, m):
    """|v' - m v| <= |m| 0.5e-6 (1+1e-9) + 1e-12 |m v| elementwise; total."""
    r.n_cmp += 1
    g = to_array(got)
    want = [float(m) * v for v in w]
    if g is None:
        return r.fail('values', sub, 'non-numeric values %r' % type(got).__name__, observed=got, expected=want)
    if g.shape != (len(w),):
        return r.fail('values', sub, 'values have shape %s, expected (%d,)' % (g.shape, len(w)), observed=got,
                      expected=want)
    worst = 0.0
    exact = True
    for i, v in enumerate(w):
        tol = abs(m) * V_HALF + V_REL * abs(m * v)
        gi = float(g[i])
        if not np.isfinite(gi):
            return r.fail('values', sub, 'non-finite value at index %d' % i, observed=got, expected=want)
        d = abs(gi - m * v)
        if d != 0.0:
            exact = False
        worst = max(worst, d / tol)
    if worst > 1.0:
        return r.fail('values', sub, 'values differ from m*v by %.3g x the 6-decimal tolerance' % worst, err=worst,
                      observed=got, expected=want)
    r.cls('value-exact' if exact else 'value-rounded')
    return True


def _check_dt(r, sub, got, dt):
    r.n_cmp += 1
    try:
        d = abs(float(got) - dt)
    except Exception:
        return r.fail('dt', sub, 'time step is not a number: %r' % (got,), observed=got, expected=dt)
    if not d <= DT_TOL:
        return r.fail('dt', sub, 'time step %r differs from the saved %r by more than 0.5e-4' % (got, dt),
                      err=d / DT_TOL, observed=got, expected=dt)
    return True


def _label_classes(r, label):
    if label == 'm1':
        r.cls('label-plain')
    if ',' in label or '#' in label:
        r.cls('label-comma-hash')
    if ' ' in label:
        r.cls('label-space')
    if label.startswith(' '):
        r.cls('label-leading-space')
    if label.endswith(' '):
        r.cls('label-trailing-space')
    if '  ' in label:
        r.cls('label-space-run')


def _round_trip(r, ffp, loaders, w, dt, label, saver):
    """One real file: written with `saver`, read back through every loader call, removed."""
    classes = {'Signal': eqsig.Signal, 'AccSignal': eqsig.AccSignal}
    n = len(w)
    r.cls({'save_signal:Signal': 'saver-Signal', 'save_signal:AccSignal': 'saver-AccSignal'}.get(
        saver, 'saver-values'))
    fsub = {'w': w, 'dt': dt, 'label': label, 'saver': saver}
    r.states += 1
    try:
        ok, _ = r.call('save', fsub, _save, saver, ffp, w, dt, label)
        if not ok:
            return
        if not os.path.isfile(ffp):
            r.fail('save', fsub, 'saver returned without writing the file')
            return
        for name, extra, fn, want_cls, m, want_label in loaders:
            sub = dict(fsub, loader=name)
            sub.update(extra)
            r.states += 1
            r.transitions += 1
            if extra.get('m', 1.0) is None or name in ('load_values_and_dt', 'load_signal'):
                r.cls('m-default')
            elif m < 0:
                r.cls('m-negative')
            elif m != 1.0:
                r.cls('m-scaled')
            ok, out = r.call('load', sub, fn, ffp)
            if not ok:
                continue
            if want_cls is None:
                try:
                    vals, dt2 = out
                except Exception:
                    r.fail('load', sub, 'result is not a (values, dt) pair', observed=out)
                    continue
                try:
                    shp = tuple(np.shape(vals))
                except Exception:
                    shp = None
                r.expect('npts', sub, shp == (n,), 'values have shape %s, expected (%d,): number of points '
                         'not preserved' % (shp, n), observed=vals, expected=w)
                _check_dt(r, sub, dt2, dt)
                _check_values(r, sub, vals, w, 1.0)
                continue
            r.expect('type', sub, type(out) is classes[want_cls],
                     'returned %s, requested %s' % (type(out).__name__, want_cls),
                     observed=type(out).__name__, expected=want_cls)
            if isinstance(out, eqsig.Signal):
                r.cls('returned-' + type(out).__name__)
            else:
                continue   # nothing else can be observed on a non-signal
            try:
                got_n = [int(out.npts), len(out.values)]
            except Exception as e:
                got_n = repr(e)
            r.expect('npts', sub, got_n == [n, n], 'npts / len(values) = %s, expected %d' % (got_n, n),
                     observed=got_n, expected=[n, n])
            try:
                dt2 = out.dt
            except Exception as e:
                dt2 = repr(e)
            _check_dt(r, sub, dt2, dt)
            try:
                vals = out.values
            except Exception as e:
                vals = repr(e)
            _check_values(r, sub, vals, w, m)
            if want_label:
                r.cls('label-requested')
                try:
                    lab = out.label
                except Exception as e:
                    lab = repr(e)
                r.expect('label', sub, isinstance(lab, str) and lab == label,
                         'label %r differs from the saved %r' % (lab, label), observed=lab, expected=label)
            else:
                r.cls('label-not-requested')
    finally:
        try:
            os.remove(ffp)
        except OSError:
            pass


def _value_classes(r, w, dt):
    r.cls('dt>=1' if dt >= 1 else 'dt<1')
    r.cls('one-sample' if len(w) == 1 else 'multi-sample')
    if any(v < 0 for v in w):
        r.cls('value-negative')
    if any(abs(v) >= 1e5 for v in w):
        r.cls('value-large')
    if any(0 < abs(v) < 1e-6 for v in w):
        r.cls('value-below-precision')


def run_case(case):
    r = Res()
    ffp = os.path.join(_scratch(), 'c.txt')
    loaders = _loaders()
    if case.get('kind') == 'label':
        label = str(case['label'])
        if ' ' in label:
            r.nontrivial += 1
        for rec in LABEL_RECORDS:
            w = [float(v) for v in rec]
            for dt in LABEL_DTS:
                _value_classes(r, w, dt)
                _label_classes(r, label)
                for saver in SAVERS:
                    _round_trip(r, ffp, loaders, w, float(dt), label, saver)
        return r
    w = [float(v) for v in case['w']]
    dt = float(case['dt'])
    if any(w):
        r.nontrivial += 1
    _value_classes(r, w, dt)
    for label in LABELS:
        _label_classes(r, label)
        for saver in SAVERS:
            _round_trip(r, ffp, loaders, w, dt, label, saver)
    return r


def snippet(case, v):
    sub = v.get('sub') or {}
    return ("import numpy as np, eqsig, tempfile, os\nfrom eqsig import loader\n"
            "sub = %r\n"
            "ffp = os.path.join(tempfile.mkdtemp(), 'c.txt')\n"
            "vals = np.array(sub['w'], float)\n"
            "if sub['saver'] == 'save_values_and_dt': loader.save_values_and_dt(ffp, vals, sub['dt'], sub['label'])\n"
            "else: loader.save_signal(ffp, getattr(eqsig, sub['saver'].split(':')[1])(vals, sub['dt'], label=sub['label']))\n"
            "print(repr(open(ffp).read()))\n"
            "kw = {k: sub[k] for k in ('astype', 'm', 'load_label') if sub.get(k) is not None}\n"
            "out = getattr(loader, sub.get('loader', 'load_values_and_dt'))(ffp, **kw)\n"
            "print(type(out).__name__, out if not hasattr(out, 'values') else (out.npts, out.dt, out.label, out.values))\n"
            "os.remove(ffp); os.rmdir(os.path.dirname(ffp))\n" % (sub,))
