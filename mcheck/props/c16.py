"""C16 - saved signals load back unchanged (to the format's precision).

Engine G (configuration lattice) on real files: one pool case is one (value word, dt); inside
it the complete product labels x savers x loader entry points x load factor m x load_label is
executed.  Every file is really written with the library's saver into a private
tempfile.mkdtemp() directory of the worker process, really read back with the library's
loaders, and removed again.

Oracle = the arithmetic of the text format as the property states it (nothing is taken from
the loader): same number of points, |dt' - dt| <= 0.5e-4, |v' - m v| <= |m| 0.5e-6 (plus the
binary rounding of reading a decimal and of the product: half a unit in the last place of v, and
of m v when m is not +-1 - so a double too large to have a 6th decimal comes back exactly), label
equal when requested, returned object of exactly the requested class.

Two further families of (cheap) pool cases:
 * containers / magnitudes ("every signal", "every value sign and magnitude"): records held as float64 with
   very large values (up to 1e22, spacing of doubles above 1e-6), float32, float16, int64, int16, uint8
   arrays, Python lists and tuples of floats / ints - expected values are the exact doubles of the numbers
   handed over - through the three savers and through save_signal from a Signal / AccSignal that held
   another, longer record before (reset_values), read back by every loader call;
 * load factors next to one and far from it (1 +- 5e-6 .. 1e-5, 1 +- 1e-7, 1e-9, 1e6) on all value words of
   length <= 2 (large enough values for the 6th decimal to show the factor), with the default-option
   calls repeated after the explicit ones.
In every round trip the arguments of the saver must be left unchanged, and every array a loader returned is
overwritten in place after it was checked (the next load of the same file must not see that).

Calling conventions (the documented signatures are the public interface): next to the keyword calls every
documented optional argument of the loaders is also passed BY POSITION in the documented order
(load_signal(ffp, astype), load_sig(ffp, m), load_asig(ffp, load_label), load_asig(ffp, load_label, m)), one of
the two options of load_asig is given alone, and every loader / saver is called with all arguments by their
documented names (ffp=...).  These calls are made on every file of the label, container and load-factor cases
and of the value words of length 1.

Long records (one pool case per length): lengths B-2 .. B+2 around the sizes B a writer or reader working in
blocks of lines would use (powers of ten and of two) and around 2*10000; deterministic content (all signs, the
value alphabet interleaved with distinct multiples of 1/8), two savers x four loader calls, every value checked.
"""
import atexit
import multiprocessing
import multiprocessing.util
import os
import shutil
import signal
import tempfile

import numpy as np

from ..target import eqsig, loader
from ..result import Res
from ..compare import words, to_array, snapshot

VALUES = (0.0, 1.5, -2.25, 1e6, -1e-6, 123456.789012, 0.0000005)
# the DESIGN.md menu plus 1.2345: the only step with more than four significant digits (a writer using
# '%.4g' instead of '%.4f' is invisible on the other eleven)
DTS = (0.0001, 0.005, 0.01, 0.02, 0.5, 0.9999, 1.0, 1.2345, 1.5, 2.0, 12.25, 100.0)
LABELS = ('m1', 'my label', 'a, b #1')
# "labels with spaces", in general form: every label over the two-letter alphabet {letter, blank} up to a
# length bound that contains at least one letter - blanks leading, trailing, single and in runs.  These are
# separate (cheap) pool cases on a small menu of records and time steps, because the position of the
# blanks in the label is independent of the numbers stored below it.
LABEL_ALPHABET = ('a', ' ')
LABEL_RECORDS = ((0.0,), (1.5, -2.25, 123456.789012))
LABEL_DTS = (0.01, 1.5)
MS = (1.0, 2.5, -1)
SAVERS = ('save_signal:Signal', 'save_signal:AccSignal', 'save_values_and_dt')

# load factors "nearly equal to one but different" and far from one; run on the value words of length <= 2
MS_EXTRA = (1.000005, 0.99999, 1.0000001, 0.9999999, 1e-9, 1e6)
M_MAX_LEN = 2
# containers: name -> (constructor from the list of exact doubles, records).  Every number of a record is exactly
# representable in the container's type (asserted below), so the double the oracle expects is the number saved.
CONTAINERS = (
    ('float64-huge', lambda w: np.array(w, dtype=np.float64),
     ((3e14 + 0.7, -(7.7e12 + 0.77), 123456789012.345678, 8589934592.000001, 1e15 + 0.125, 1e22, 2.0 ** 53, 1.5),
      (1e10 + 0.5,))),
    ('float32', lambda w: np.array(w, dtype=np.float32),
     tuple(tuple(float(np.float32(v)) for v in rec) for rec in
           ((0.123456, -9.81, 123.456, -2048.123, 16777.215, 0.0, 350.2741, 1e10), (123.456,)))),
    ('float16', lambda w: np.array(w, dtype=np.float16),
     tuple(tuple(float(np.float16(v)) for v in rec) for rec in ((0.1, -2.25, 1000.5, 0.0, 65504.0), (0.1,)))),
    ('int64', lambda w: np.array([int(v) for v in w], dtype=np.int64), ((0.0, 3.0, -7.0, 123456789012.0), (5.0,))),
    ('int16', lambda w: np.array([int(v) for v in w], dtype=np.int16), ((0.0, 3.0, -7.0, 32767.0, -32768.0), (-7.0,))),
    ('uint8', lambda w: np.array([int(v) for v in w], dtype=np.uint8), ((0.0, 3.0, 255.0), (255.0,))),
    ('list-float', lambda w: [float(v) for v in w], ((0.0, 1.5, -2.25, 123456.789012), (1.5,))),
    ('tuple-float', lambda w: tuple(float(v) for v in w), ((0.0, 1.5, -2.25, 123456.789012), (1.5,))),
    ('list-int', lambda w: [int(v) for v in w], ((0.0, 3.0, -7.0), (3.0,))),
    ('tuple-int', lambda w: tuple(int(v) for v in w), ((0.0, 3.0, -7.0), (3.0,))),
)
CONTAINER_OF = dict((name, make) for name, make, recs in CONTAINERS)
CONTAINER_OF['float64'] = lambda w: np.array(w, dtype=float)
for _name, _make, _recs in CONTAINERS:
    for _rec in _recs:
        assert [float(x) for x in _make(list(_rec))] == [float(v) for v in _rec], (_name, _rec)
# savers of the container cases: the three plain ones and save_signal from an object that held another,
# longer record before (the file describes the record the object holds when it is saved)
SAVERS_REUSED = ('save_signal:Signal:reused', 'save_signal:AccSignal:reused')
SCRIBBLE = -7.5                  # written into every array a loader returned, after it was checked

# long records: lengths next to the block sizes B (lines per block) of a block-wise writer / reader; the file has
# two lines more than the record has points, so B-2 .. B+2 covers a boundary before / after either header line
LONG_BLOCKS = {'quick': (1000, 1024, 4096, 8192, 10000), 'thorough': (1000, 1024, 2048, 4096, 8192, 10000, 16384)}
LONG_TWICE = 10000               # ... and the second boundary of this block size (2*B-2 .. 2*B+2)
LONG_DTS = {'quick': (0.005,), 'thorough': (0.005, 1.5)}
LONG_LABEL = 'my label'
LONG_SAVERS = ('save_values_and_dt', 'save_signal:AccSignal')
# savers called with every argument by its documented name (container cases)
SAVERS_KEYWORDS = ('save_values_and_dt:keywords', 'save_signal:AccSignal:keywords')

DT_TOL = 0.5e-4 + 1e-12          # "the same time step to 4 decimals"
V_HALF = 0.5e-6 * (1 + 1e-9)     # "the same values to 6 decimals"

CASE_TIMEOUT = 120

# ---- private scratch directory ------------------------------------------------------------------
# The runner (mcheck/cli.py) creates one temporary directory per run before the pool is forked, exports it as
# MC_RUN_TMP and removes it after the pool has been shut down; every process that runs cases uses its own
# sub-directory of it.  (No signal handlers or finalisers in the workers: a SIGTERM handler that cleans up
# and exits while the worker holds a multiprocessing lock can dead-lock Pool.terminate().)
def _scratch():
    base = os.environ.get('MC_RUN_TMP')
    if not base or not os.path.isdir(base):
        base = tempfile.mkdtemp(prefix='mc_c16_')
        os.environ['MC_RUN_TMP'] = base
        atexit.register(shutil.rmtree, base, True)
    d = os.path.join(base, 'p%d' % os.getpid())
    os.makedirs(d, exist_ok=True)
    return d


# ---- enumeration ---------------------------------------------------------------------------
def build(tier, seed):
    L = 3 if tier == 'quick' else 4
    cases = []
    for w in words(range(len(VALUES)), 1, L):
        for dt in DTS:
            cases.append({'w': [VALUES[i] for i in w], 'dt': dt})
    LL = 5 if tier == 'quick' else 6
    n_lab = 0
    for lw in words(range(len(LABEL_ALPHABET)), 1, LL):
        lab = ''.join(LABEL_ALPHABET[i] for i in lw)
        if not lab.strip():
            continue        # a label without any letter is not examined (see assumptions)
        n_lab += 1
        cases.append({'kind': 'label', 'label': lab})
    for name, make, recs in CONTAINERS:
        for dt in LABEL_DTS:
            cases.append({'kind': 'container', 'container': name, 'dt': dt})
    n_m = 0
    for w in words(range(len(VALUES)), 1, M_MAX_LEN):
        for dt in LABEL_DTS:
            n_m += 1
            cases.append({'kind': 'm', 'w': [VALUES[i] for i in w], 'dt': dt})
    # histories of files: the same path written again with a record of another length, and results of earlier loads held by the caller
    for n1, n2 in HISTORY_LENGTHS:
        cases.append({'kind': 'history', 'n1': n1, 'n2': n2})
    long_ns = _long_lengths(tier)
    for n in long_ns:
        for dt in LONG_DTS[tier]:
            cases.append({'kind': 'long', 'n': n, 'dt': dt})
    return {
        'rule_more': "'history' cases %s (first, second record length): the same path written twice then loaded through every loader; results of earlier loads examined after later loads of other files" % ([list(h) for h in HISTORY_LENGTHS],),
        'cases': cases,
        'rule': 'value cases: all value words of length 1..%d over the 7-value alphabet x %d time steps (one pool case '
                'per (word, dt)); inside each case: 3 labels x 3 savers (save_signal from a Signal, save_signal from an '
                'AccSignal, save_values_and_dt) = 9 real files, each read back through 15 loader calls '
                '(load_values_and_dt; load_signal astype signal / acc_sig / default; load_sig m default,1.0,2.5,-1; '
                'load_asig default and load_label in {F,T} x m in {1.0,2.5,-1}); non-trivial = word not identically '
                'zero.  label cases: all %d labels of length 1..%d over {letter, blank} with at least one letter '
                '(blanks leading, trailing, single, in runs; one pool case per label), each on %d records x %d time '
                'steps x the 3 savers x the same 15 loader calls; non-trivial = label contains a blank.  container cases: '
                '%d containers (very large float64 values, float32, float16, int64, int16, uint8 arrays, lists and '
                'tuples of floats / ints; one pool case per (container, dt in %s)) x 2 records each x 5 savers (the 3 '
                'plain ones, save_signal from a Signal / AccSignal that held a longer record before) x 17 loader '
                'calls (the 15 and the default-option load_sig / load_asig repeated at the end).  load-factor cases: '
                'all %d (value word of length <= %d, dt) x 3 savers x load_sig / load_asig (load_label F,T) with m in '
                '%s next to the 15 + 2 calls.  Every returned array is overwritten after its check; the saver must '
                'leave its arguments unchanged.  calling conventions: on every file of the label / container / '
                'load-factor cases and of the value words of length 1 additionally load_signal(ffp, astype), '
                'load_sig(ffp, m), load_asig(ffp, load_label), load_asig(ffp, load_label, m) with the options BY '
                'POSITION (all astype / m / load_label values of the keyword calls), load_asig with one option alone, '
                'and every loader with all arguments by name (ffp=...); container cases also through the savers '
                'called with all arguments by name.  long-record cases: %d lengths (B-2..B+2 for block sizes B in %s '
                'and around 2*%d) x dt in %s x savers %s x 4 loader calls; non-trivial = every long record'
                % (L, len(DTS), n_lab, LL, len(LABEL_RECORDS), len(LABEL_DTS), len(CONTAINERS), list(LABEL_DTS),
                   n_m, M_MAX_LEN, list(MS_EXTRA), len(long_ns), list(LONG_BLOCKS[tier]), LONG_TWICE,
                   list(LONG_DTS[tier]), list(LONG_SAVERS)),
        'bounds': {'values': VALUES, 'max_len': L, 'dt': DTS, 'labels': LABELS, 'm': MS, 'savers': SAVERS,
                   'label_alphabet': LABEL_ALPHABET, 'label_max_len': LL, 'label_records': LABEL_RECORDS,
                   'label_dt': LABEL_DTS, 'm_next_to_one_and_extreme': MS_EXTRA, 'm_extra_max_len': M_MAX_LEN,
                   'containers': [[name, [list(rec) for rec in recs]] for name, make, recs in CONTAINERS],
                   'container_dt': LABEL_DTS,
                   'container_savers': list(SAVERS) + list(SAVERS_REUSED) + list(SAVERS_KEYWORDS),
                   'long_record_lengths': long_ns, 'long_record_dt': LONG_DTS[tier], 'long_record_savers': LONG_SAVERS,
                   'calling_conventions': ['keywords for the options (all cases)', 'options by position',
                                           'one option of load_asig alone', 'all arguments by name'],
                   'loaders': ['load_values_and_dt', 'load_signal(astype=signal)', 'load_signal(astype=acc_sig)',
                               'load_signal()', 'load_sig', 'load_asig']},
        'required_classes': ['same-path-written-twice', 'second-record-shorter', 'earlier-load-result-held', 'dt>=1', 'dt<1', 'one-sample', 'multi-sample', 'label-plain', 'label-space',
                             'label-leading-space', 'label-trailing-space', 'label-space-run',
                             'label-comma-hash', 'm-default', 'm-scaled', 'm-negative', 'value-exact',
                             'value-rounded', 'value-negative', 'value-large', 'value-below-precision',
                             'returned-Signal', 'returned-AccSignal', 'label-requested', 'label-not-requested',
                             'saver-Signal', 'saver-AccSignal', 'saver-values', 'saver-reused-object',
                             'container-float32', 'container-float16', 'container-float64-huge', 'container-int64',
                             'container-int16', 'container-uint8', 'container-list-float', 'container-list-int',
                             'container-tuple-float', 'container-tuple-int', 'value-beyond-6-decimals-exact',
                             'm-next-to-one', 'm-tiny', 'm-huge', 'm-next-to-one-visible',
                             'default-after-explicit', 'result-overwritten', 'saver-arguments-unchanged',
                             'call-options-by-position', 'call-positional-label-requested',
                             'call-positional-m-scaled', 'call-one-option-alone', 'call-all-arguments-by-name',
                             'saver-all-arguments-by-name', 'long-record', 'long-record-over-10000-lines'],
        'assumptions': ['values outside the 7-value alphabet, records longer than the bound, dt and labels outside '
                        'the menus are not examined',
                        'labels are single-line strings (the format stores the label on one line)',
                        'labels consisting of blanks only (no letter) and the empty label are not examined; white '
                        'space other than the blank (tabs, line breaks) is not examined',
                        'load_signal() with its default astype ("sig") is read as a request for a Signal',
                        'load_values_and_dt must return a one-dimensional array of npts values (a 0-d array has no '
                        'number of points)',
                        'files live in a private tempfile.mkdtemp() directory per worker and are removed after use',
                        '"to 6 decimals": the file holds the value rounded to 6 decimals, reading it gives the nearest '
                        'double, multiplying by m rounds once more: |v\' - m v| <= |m| (0.5e-6 + ulp(v)/2) + 1.5 ulp(m v) '
                        '(last term only when m is not +-1).  A double with ulp > 1e-6 therefore loads back exactly',
                        'the documented signatures load_signal(ffp, astype), load_sig(ffp, m), load_asig(ffp, load_label, '
                        'm), save_values_and_dt(ffp, values, dt, label), save_signal(ffp, signal) are the public '
                        'interface: an option passed by position in the documented order, or any argument passed by its '
                        'documented name, means the same as in the keyword calls',
                        'long records: v_i = alphabet value (i // 3) mod 7 when i is a multiple of 3, else '
                        '((7919 i) mod 20011 - 10005) / 8 (distinct for i < 20011, exact in 6 decimals)',
                        'a record handed over in a narrower type (float32, float16, integers, Python numbers) is the '
                        'sequence of the exact values of its elements; nothing is assumed about the dtype the loader '
                        'returns',
                        'the saver leaves the array / object it is given unchanged; arrays returned by a loader belong '
                        'to the caller (they are overwritten after the check and the file is loaded again by the next '
                        'call)'],
    }


def _long_lengths(tier):
    ns = set()
    for b in LONG_BLOCKS[tier] + (2 * LONG_TWICE,):
        ns.update(range(b - 2, b + 3))
    return sorted(ns)


def _long_record(n):
    """Deterministic long record: every third sample runs through the value alphabet, the others are distinct
    multiples of 1/8 of both signs (a dropped, repeated or merged line shows at every later index)."""
    return [float(VALUES[(i // 3) % len(VALUES)]) if i % 3 == 0 else ((7919 * i) % 20011 - 10005) / 8.0
            for i in range(n)]


def _loaders(n_m=MS, trailing_defaults=False, conventions=False):
    """(name, extra sub fields, callable(ffp), wanted class or None, m factor, label requested).
    trailing_defaults: the default-option calls of load_sig / load_asig once more after all explicit ones.
    conventions: additionally the options by position (documented order), one option of load_asig alone, and all
    arguments by their documented names."""
    out = [('load_values_and_dt', {}, lambda f: loader.load_values_and_dt(f), None, 1.0, False),
           ('load_signal', {'astype': 'signal'}, lambda f: loader.load_signal(f, astype='signal'), 'Signal', 1.0, False),
           ('load_signal', {'astype': 'acc_sig'}, lambda f: loader.load_signal(f, astype='acc_sig'), 'AccSignal', 1.0,
            False),
           ('load_signal', {'astype': None}, lambda f: loader.load_signal(f), 'Signal', 1.0, False),
           ('load_sig', {'m': None}, lambda f: loader.load_sig(f), 'Signal', 1.0, False)]
    for m in n_m:
        out.append(('load_sig', {'m': m}, (lambda f, m=m: loader.load_sig(f, m=m)), 'Signal', m, False))
    out.append(('load_asig', {'m': None, 'load_label': None}, lambda f: loader.load_asig(f), 'AccSignal', 1.0, False))
    for ll in (False, True):
        for m in n_m:
            out.append(('load_asig', {'m': m, 'load_label': ll},
                        (lambda f, m=m, ll=ll: loader.load_asig(f, load_label=ll, m=m)), 'AccSignal', m, ll))
    if conventions:
        pos = {'call': 'options by position'}
        out.append(('load_signal', dict(pos, astype='signal'), lambda f: loader.load_signal(f, 'signal'), 'Signal', 1.0,
                    False))
        out.append(('load_signal', dict(pos, astype='acc_sig'), lambda f: loader.load_signal(f, 'acc_sig'), 'AccSignal',
                    1.0, False))
        for m in n_m:
            out.append(('load_sig', dict(pos, m=m), (lambda f, m=m: loader.load_sig(f, m)), 'Signal', m, False))
        for ll in (False, True):
            out.append(('load_asig', dict(pos, m=None, load_label=ll), (lambda f, ll=ll: loader.load_asig(f, ll)),
                        'AccSignal', 1.0, ll))
            for m in n_m:
                out.append(('load_asig', dict(pos, m=m, load_label=ll),
                            (lambda f, m=m, ll=ll: loader.load_asig(f, ll, m)), 'AccSignal', m, ll))
        one = {'call': 'one option alone'}
        out.append(('load_asig', dict(one, m=None, load_label=True), lambda f: loader.load_asig(f, load_label=True),
                    'AccSignal', 1.0, True))
        for m in n_m:
            out.append(('load_asig', dict(one, m=m, load_label=None), (lambda f, m=m: loader.load_asig(f, m=m)),
                        'AccSignal', m, False))
        byname = {'call': 'all arguments by name'}
        m2 = n_m[1] if len(n_m) > 1 else n_m[0]
        out.append(('load_values_and_dt', dict(byname), lambda f: loader.load_values_and_dt(ffp=f), None, 1.0, False))
        out.append(('load_signal', dict(byname, astype='acc_sig'), lambda f: loader.load_signal(astype='acc_sig', ffp=f),
                    'AccSignal', 1.0, False))
        out.append(('load_sig', dict(byname, m=m2), (lambda f: loader.load_sig(m=m2, ffp=f)), 'Signal', m2, False))
        out.append(('load_asig', dict(byname, m=m2, load_label=True),
                    (lambda f: loader.load_asig(m=m2, load_label=True, ffp=f)), 'AccSignal', m2, True))
    if trailing_defaults:
        out.append(('load_sig', {'m': None, 'after': 'explicit calls'}, lambda f: loader.load_sig(f), 'Signal', 1.0, False))
        out.append(('load_asig', {'m': None, 'load_label': None, 'after': 'explicit calls'},
                    lambda f: loader.load_asig(f), 'AccSignal', 1.0, False))
    return out


def _long_loaders():
    m = MS[1]
    return [('load_values_and_dt', {}, lambda f: loader.load_values_and_dt(f), None, 1.0, False),
            ('load_signal', {'astype': 'acc_sig'}, lambda f: loader.load_signal(f, astype='acc_sig'), 'AccSignal', 1.0,
             False),
            ('load_sig', {'m': None}, lambda f: loader.load_sig(f), 'Signal', 1.0, False),
            ('load_asig', {'m': m, 'load_label': True}, lambda f: loader.load_asig(f, load_label=True, m=m),
             'AccSignal', m, True)]


def _state(obj):
    """What the saver was given, as comparable bytes (array / list / tuple, or the visible state of a signal)."""
    if isinstance(obj, eqsig.Signal):
        return ('sig', type(obj).__name__, snapshot(obj.values), repr(obj.dt), repr(obj.label), int(obj.npts))
    return snapshot(obj)


def _save(saver, ffp, w, dt, label, container='float64'):
    """Returns (state of the saver's argument before the call, after the call)."""
    vals = CONTAINER_OF[container](w)
    parts = saver.split(':')
    if parts[0] == 'save_signal':
        cls = eqsig.Signal if parts[1] == 'Signal' else eqsig.AccSignal
        if parts[-1] == 'reused':
            # the object held another, longer record before (and was used) and is then given this one
            sig = cls(np.array([9.5, -9.5] * (len(w) // 2 + 2)), dt, label=label)
            for nm in ('npts', 'time', 'velocity', 'displacement', 'pga'):
                try:
                    getattr(sig, nm)
                except Exception:   # noqa
                    pass
            sig.reset_values(vals)
        else:
            sig = cls(vals, dt, label=label)
        before = _state(sig)
        if parts[-1] == 'keywords':
            loader.save_signal(signal=sig, ffp=ffp)
        else:
            loader.save_signal(ffp, sig)
        return before, _state(sig)
    before = _state(vals)
    if parts[-1] == 'keywords':
        loader.save_values_and_dt(label=label, dt=dt, values=vals, ffp=ffp)
    else:
        loader.save_values_and_dt(ffp, vals, dt, label)
    return before, _state(vals)


def _check_values(r, sub, got, w, m):
    """|v' - m v| <= |m| (0.5e-6 (1+1e-9) + ulp(v)/2) + 1.5 ulp(m v) [m not +-1] elementwise; total."""
    r.n_cmp += 1
    g = to_array(got)
    want = [float(m) * v for v in w]
    if g is None:
        return r.fail('values', sub, 'non-numeric values %r' % type(got).__name__, observed=got, expected=want)
    if g.shape != (len(w),):
        return r.fail('values', sub, 'values have shape %s, expected (%d,)' % (g.shape, len(w)), observed=got,
                      expected=want)
    if len(w) > 64:
        # long records: the same bound, evaluated with array operations
        wa = np.array(w, dtype=float)
        ga = g.astype(float)
        if not np.all(np.isfinite(ga)):
            i = int(np.argmax(~np.isfinite(ga)))
            return r.fail('values', sub, 'non-finite value at index %d' % i, observed=ga[max(0, i - 2):i + 3],
                          expected=want[max(0, i - 2):i + 3])
        tol = abs(m) * (V_HALF + 0.5 * np.spacing(np.abs(wa)))
        if abs(m) != 1:
            tol = tol + 1.5 * np.spacing(np.abs(m * wa))
        d = np.abs(ga - m * wa)
        ratio = d / tol
        i = int(np.argmax(ratio))
        if ratio[i] > 1.0:
            return r.fail('values', sub, 'values differ from m*v by %.3g x the 6-decimal tolerance, first at index %d'
                          % (float(ratio[i]), int(np.argmax(ratio > 1.0))), err=float(ratio[i]),
                          observed=ga[max(0, i - 2):i + 3], expected=want[max(0, i - 2):i + 3])
        r.cls('value-exact' if not d.any() else 'value-rounded')
        return True
    worst = 0.0
    exact = True
    for i, v in enumerate(w):
        tol = abs(m) * (V_HALF + 0.5 * float(np.spacing(abs(v))))
        if abs(m) != 1:
            tol += 1.5 * float(np.spacing(abs(m * v)))
        gi = float(g[i])
        if not np.isfinite(gi):
            return r.fail('values', sub, 'non-finite value at index %d' % i, observed=got, expected=want)
        d = abs(gi - m * v)
        if d != 0.0:
            exact = False
        worst = max(worst, d / tol)
    if worst > 1.0:
        return r.fail('values', sub, 'values differ from m*v by %.3g x the 6-decimal tolerance' % worst, err=worst,
                      observed=got, expected=want)
    r.cls('value-exact' if exact else 'value-rounded')
    return True


def _check_dt(r, sub, got, dt):
    r.n_cmp += 1
    try:
        d = abs(float(got) - dt)
    except Exception:
        return r.fail('dt', sub, 'time step is not a number: %r' % (got,), observed=got, expected=dt)
    if not d <= DT_TOL:
        return r.fail('dt', sub, 'time step %r differs from the saved %r by more than 0.5e-4' % (got, dt),
                      err=d / DT_TOL, observed=got, expected=dt)
    return True


def _label_classes(r, label):
    if label == 'm1':
        r.cls('label-plain')
    if ',' in label or '#' in label:
        r.cls('label-comma-hash')
    if ' ' in label:
        r.cls('label-space')
    if label.startswith(' '):
        r.cls('label-leading-space')
    if label.endswith(' '):
        r.cls('label-trailing-space')
    if '  ' in label:
        r.cls('label-space-run')


def _overwrite(r, arr):
    """The caller owns what a loader returned: overwrite it in place (after it was checked)."""
    try:
        if isinstance(arr, np.ndarray) and arr.size and arr.flags.writeable:
            arr[...] = SCRIBBLE
            r.cls('result-overwritten')
    except Exception:   # noqa
        pass


def _round_trip(r, ffp, loaders, w, dt, label, saver, container='float64', ident=None):
    """One real file: written with `saver`, read back through every loader call, removed.
    ident: identification of the record in the violation keys when the record itself is too long for that."""
    classes = {'Signal': eqsig.Signal, 'AccSignal': eqsig.AccSignal}
    n = len(w)
    r.cls('saver-reused-object' if saver.endswith(':reused') else 'saver-all-arguments-by-name'
          if saver.endswith(':keywords') else
          {'save_signal:Signal': 'saver-Signal', 'save_signal:AccSignal': 'saver-AccSignal'}.get(saver, 'saver-values'))
    fsub = dict(ident if ident is not None else {'w': w}, dt=dt, label=label, saver=saver)
    if container != 'float64':
        fsub['container'] = container
        r.cls('container-' + container)
    r.states += 1
    try:
        ok, st = r.call('save', fsub, _save, saver, ffp, w, dt, label, container)
        if not ok:
            return
        if not os.path.isfile(ffp):
            r.fail('save', fsub, 'saver returned without writing the file')
            return
        r.cls('saver-arguments-unchanged')
        r.expect('save.purity', fsub, st[0] == st[1], 'the saver modified the array / signal it was given',
                 observed=st[1][:3], expected=st[0][:3])
        for name, extra, fn, want_cls, m, want_label in loaders:
            sub = dict(fsub, loader=name)
            sub.update(extra)
            r.states += 1
            r.transitions += 1
            conv = extra.get('call')
            if conv == 'options by position':
                r.cls('call-options-by-position')
                if want_label and label != 'm1':
                    r.cls('call-positional-label-requested')
                if abs(m) != 1 and any(w):
                    r.cls('call-positional-m-scaled')
            elif conv:
                r.cls('call-one-option-alone' if conv == 'one option alone' else 'call-all-arguments-by-name')
            if extra.get('m', 1.0) is None or name in ('load_values_and_dt', 'load_signal'):
                r.cls('m-default')
                if extra.get('after'):
                    r.cls('default-after-explicit')
            elif m < 0:
                r.cls('m-negative')
            elif 0 < abs(m - 1.0) < 1e-4:
                r.cls('m-next-to-one')
                if any(abs(m - 1.0) * abs(v) > 4 * V_HALF for v in w):
                    r.cls('m-next-to-one-visible')      # taking m for 1 would be outside the tolerance
            elif m != 1.0:
                r.cls('m-tiny' if m < 1e-6 else 'm-huge' if m > 1e5 else 'm-scaled')
            ok, out = r.call('load', sub, fn, ffp)
            if not ok:
                continue
            if want_cls is None:
                try:
                    vals, dt2 = out
                except Exception:
                    r.fail('load', sub, 'result is not a (values, dt) pair', observed=out)
                    continue
                try:
                    shp = tuple(np.shape(vals))
                except Exception:
                    shp = None
                r.expect('npts', sub, shp == (n,), 'values have shape %s, expected (%d,): number of points '
                         'not preserved' % (shp, n), observed=shp if n > 64 else vals, expected=[n] if n > 64 else w)
                _check_dt(r, sub, dt2, dt)
                _check_values(r, sub, vals, w, 1.0)
                _overwrite(r, vals)
                continue
            r.expect('type', sub, type(out) is classes[want_cls],
                     'returned %s, requested %s' % (type(out).__name__, want_cls),
                     observed=type(out).__name__, expected=want_cls)
            if isinstance(out, eqsig.Signal):
                r.cls('returned-' + type(out).__name__)
            else:
                continue   # nothing else can be observed on a non-signal
            try:
                got_n = [int(out.npts), len(out.values)]
            except Exception as e:
                got_n = repr(e)
            r.expect('npts', sub, got_n == [n, n], 'npts / len(values) = %s, expected %d' % (got_n, n),
                     observed=got_n, expected=[n, n])
            try:
                dt2 = out.dt
            except Exception as e:
                dt2 = repr(e)
            _check_dt(r, sub, dt2, dt)
            try:
                vals = out.values
            except Exception as e:
                vals = repr(e)
            _check_values(r, sub, vals, w, m)
            _overwrite(r, vals)
            if want_label:
                r.cls('label-requested')
                try:
                    lab = out.label
                except Exception as e:
                    lab = repr(e)
                r.expect('label', sub, isinstance(lab, str) and lab == label,
                         'label %r differs from the saved %r' % (lab, label), observed=lab, expected=label)
            else:
                r.cls('label-not-requested')
    finally:
        try:
            os.remove(ffp)
        except OSError:
            pass


def _value_classes(r, w, dt):
    r.cls('dt>=1' if dt >= 1 else 'dt<1')
    r.cls('one-sample' if len(w) == 1 else 'multi-sample')
    if any(v < 0 for v in w):
        r.cls('value-negative')
    if any(abs(v) >= 1e5 for v in w):
        r.cls('value-large')
    if any(0 < abs(v) < 1e-6 for v in w):
        r.cls('value-below-precision')
    if any(float(np.spacing(abs(v))) > 1e-6 and v != round(v) for v in w):
        r.cls('value-beyond-6-decimals-exact')    # a non-integer double that has no 6th decimal: comes back exactly


HISTORY_LENGTHS = ((60, 12), (12, 60), (5, 5), (3, 1), (1, 3), (40, 39), (2000, 7))


def _hist_record(n, k):
    return [round(((i * 37 + k * 11) % 23 - 11) * 0.123456 + k, 6) for i in range(n)]


def run_history(r, case):
    n1, n2 = int(case['n1']), int(case['n2'])
    r.nontrivial += 1
    a = _hist_record(n1, 1)
    b = _hist_record(n2, 2)
    base = os.path.join(_scratch(), 'h')
    fa, fb = base + '_a.txt', base + '_b.txt'
    dt = 0.01
    loaders = _loaders(n_m=(2.5,))
    try:
        for saver in ('save_values_and_dt', 'save_signal:AccSignal', 'save_signal:Signal'):
            sub0 = {'n_first': n1, 'n_second': n2, 'saver': saver}
            # (i) the SAME path written twice: what is loaded afterwards is the second record, whatever the file held before
            ok, _ = r.call('save', dict(sub0, step='first record'), _save, saver, fa, a, dt, 'first')
            ok2, _ = r.call('save', dict(sub0, step='second record to the same path'), _save, saver, fa, b, dt, 'second')
            if ok and ok2:
                r.cls('same-path-written-twice')
                r.cls('second-record-shorter' if n2 < n1 else ('second-record-longer' if n2 > n1 else 'second-record-same-length'))
                for name, extra, fn, want_cls, m, want_label in loaders:
                    sub = dict(sub0, loader=name, sequence='save(A, path), save(B, path), load(path)')
                    sub.update(extra)
                    r.states += 1
                    ok, out = r.call('load', sub, fn, fa)
                    if not ok:
                        continue
                    try:
                        vals = out[0] if name == 'load_values_and_dt' else out.values
                    except Exception as e:
                        r.fail('load', sub, 'malformed result: %s' % e, observed=out)
                        continue
                    _check_values(r, sub, vals, b, m)
            # (ii) what the caller got from an earlier load stays what it is while other files are loaded
            ok, _ = r.call('save', dict(sub0, step='A'), _save, saver, fa, a, dt, 'first')
            ok2, _ = r.call('save', dict(sub0, step='B'), _save, saver, fb, b, dt, 'second')
            if not (ok and ok2):
                continue
            sub = dict(sub0, sequence='r = load_values_and_dt(A), other loads of A and B, r unchanged?')
            ok, first = r.call('load', sub, loader.load_values_and_dt, fa)
            if not ok:
                continue
            try:
                held = first[0]
                held_copy = np.array(held, dtype=float, copy=True)
            except Exception as e:
                r.fail('load', sub, 'malformed result: %s' % e, observed=first)
                continue
            objs = []
            for name, extra, fn, want_cls, m, want_label in loaders:
                for f_ in (fb, fa):
                    try:
                        objs.append((name, extra, m, f_, fn(f_)))
                    except Exception:
                        pass
            r.cls('earlier-load-result-held')
            r.n_cmp += 1
            try:
                same = np.asarray(held).shape == held_copy.shape and bool(np.all(np.asarray(held, dtype=float) == held_copy))
            except Exception:
                same = False
            r.expect('values.earlier-result-intact', sub, same, 'the array returned by an earlier load changed when other files were loaded',
                     observed=held, expected=held_copy)
            _check_values(r, dict(sub, loader='load_values_and_dt'), held_copy, a, 1.0)
            # ... and every object loaded in that sequence still holds its own file's values at the end
            for name, extra, m, f_, out in objs:
                s2 = dict(sub0, loader=name, file='A' if f_ == fa else 'B', sequence='loaded in a row, examined at the end')
                s2.update(extra)
                try:
                    vals = out[0] if name == 'load_values_and_dt' else out.values
                except Exception:
                    continue
                _check_values(r, s2, vals, a if f_ == fa else b, m)
    finally:
        for f_ in (fa, fb):
            try:
                os.remove(f_)
            except OSError:
                pass
    return r


def run_case(case):
    r = Res()
    if case.get('kind') == 'history':
        return run_history(r, case)
    ffp = os.path.join(_scratch(), 'c.txt')
    if case.get('kind') == 'long':
        n = int(case['n'])
        dt = float(case['dt'])
        w = _long_record(n)
        r.nontrivial += 1
        r.cls('long-record')
        if n + 2 > 10000:
            r.cls('long-record-over-10000-lines')
        _value_classes(r, w, dt)
        _label_classes(r, LONG_LABEL)
        for saver in LONG_SAVERS:
            _round_trip(r, ffp, _long_loaders(), w, dt, LONG_LABEL, saver, ident={'record': 'long', 'n': n})
        return r
    loaders = _loaders(conventions=True)
    if case.get('kind') == 'label':
        label = str(case['label'])
        if ' ' in label:
            r.nontrivial += 1
        for rec in LABEL_RECORDS:
            w = [float(v) for v in rec]
            for dt in LABEL_DTS:
                _value_classes(r, w, dt)
                _label_classes(r, label)
                for saver in SAVERS:
                    _round_trip(r, ffp, loaders, w, float(dt), label, saver)
        return r
    if case.get('kind') == 'container':
        name = case['container']
        dt = float(case['dt'])
        loaders = _loaders(trailing_defaults=True, conventions=True)
        for rec in dict((c[0], c[2]) for c in CONTAINERS)[name]:
            w = [float(v) for v in rec]
            r.nontrivial += 1
            _value_classes(r, w, dt)
            _label_classes(r, LABELS[0])
            for saver in SAVERS + SAVERS_REUSED + SAVERS_KEYWORDS:
                _round_trip(r, ffp, loaders, w, dt, LABELS[0], saver, container=name)
        return r
    w = [float(v) for v in case['w']]
    dt = float(case['dt'])
    if any(w):
        r.nontrivial += 1
    _value_classes(r, w, dt)
    if case.get('kind') == 'm':
        loaders = _loaders(n_m=MS + MS_EXTRA, trailing_defaults=True, conventions=True)
        _label_classes(r, LABELS[0])
        for saver in SAVERS:
            _round_trip(r, ffp, loaders, w, dt, LABELS[0], saver)
        return r
    if len(w) > 1:
        loaders = _loaders()        # the calling conventions are exercised on the words of length 1 (and elsewhere)
    for label in LABELS:
        _label_classes(r, label)
        for saver in SAVERS:
            _round_trip(r, ffp, loaders, w, dt, label, saver)
    return r


def snippet(case, v):
    sub = v.get('sub') or {}
    return ("import numpy as np, eqsig, tempfile, os\nfrom eqsig import loader\n"
            "sub = %r\n"
            "ffp = os.path.join(tempfile.mkdtemp(), 'c.txt')\n"
            "A = (0.0, 1.5, -2.25, 1e6, -1e-6, 123456.789012, 0.0000005)\n"
            "if sub.get('record') == 'long':\n"
            "    sub['w'] = [A[(i // 3) %% 7] if i %% 3 == 0 else ((7919 * i) %% 20011 - 10005) / 8.0 for i in range(sub['n'])]\n"
            "vals = np.array(sub['w'], float)\n"
            "c = sub.get('container', 'float64').split('-')\n"
            "if c[0] in ('list', 'tuple'): vals = {'list': list, 'tuple': tuple}[c[0]]({'float': float, 'int': int}[c[1]](v) for v in sub['w'])\n"
            "elif c[0] != 'float64': vals = np.array([int(v) for v in sub['w']] if 'int' in c[0] else sub['w'], dtype=c[0])\n"
            "if sub['saver'] == 'save_values_and_dt': loader.save_values_and_dt(ffp, vals, sub['dt'], sub['label'])\n"
            "elif sub['saver'] == 'save_values_and_dt:keywords':\n"
            "    loader.save_values_and_dt(label=sub['label'], dt=sub['dt'], values=vals, ffp=ffp)\n"
            "else:\n"
            "    cls = getattr(eqsig, sub['saver'].split(':')[1])\n"
            "    sig = cls(vals, sub['dt'], label=sub['label'])\n"
            "    if sub['saver'].endswith(':reused'):   # the object held a longer record before\n"
            "        sig = cls(np.array([9.5, -9.5] * (len(vals) // 2 + 2)), sub['dt'], label=sub['label'])\n"
            "        sig.time; getattr(sig, 'velocity', None); sig.reset_values(vals)\n"
            "    if sub['saver'].endswith(':keywords'): loader.save_signal(signal=sig, ffp=ffp)\n"
            "    else: loader.save_signal(ffp, sig)\n"
            "print(repr(open(ffp).read()[:400]))\n"
            "fn = getattr(loader, sub.get('loader', 'load_values_and_dt'))\n"
            "kw = {k: sub[k] for k in ('astype', 'm', 'load_label') if sub.get(k) is not None}\n"
            "if sub.get('call') == 'options by position':   # documented order: (ffp, astype) / (ffp, m) / (ffp, load_label, m)\n"
            "    out = fn(ffp, *[sub[k] for k in ('astype', 'load_label', 'm') if sub.get(k) is not None])\n"
            "elif sub.get('call') == 'all arguments by name': out = fn(ffp=ffp, **kw)\n"
            "else: out = fn(ffp, **kw)\n"
            "print(type(out).__name__, out if not hasattr(out, 'values') else (out.npts, out.dt, out.label, out.values))\n"
            "os.remove(ffp); os.rmdir(os.path.dirname(ffp))\n" % (sub,))
