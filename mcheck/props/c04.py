"""C04 - derived quantities of a signal object never go stale.

Engine S on the real objects.  Every transition is one real public method call on a deep copy
of a real Signal / AccSignal; after every transition every public read (on its own deep copy)
must equal the same read on a freshly constructed object with the same values, dt and
settings, and reading twice must give the same answer.  Reads are themselves transitions, so
"a read changes no other observable" is part of the same invariant.

  closure : BFS deduplicated on the cache-control state (private flags where present + the
            implementation-independent observational state: which derived families were read
            since the last change that invalidates them + the identity of the current settings)
            until no new key appears.
  exact   : all operation sequences up to the depth bound without any merging.
"""
import collections
import copy

import numpy as np

from ..target import eqsig
from ..result import Res
from ..compare import close
from .. import osm

CASE_TIMEOUT = 900
DT = 0.01
SEEDS = ('f64n60', 'i64n48', 'f64n32')   # not a power of two / integer dtype / power of two
# second menu needs a refined integration step and its shortest period is below 5 dt (the step limit dt / min_dt_ratio binds), first does not
RT = (np.array([0.2, 0.5, 1.0]), np.array([0.03, 0.5]))
SF = (np.array([1.0, 3.0, 10.0]), np.array([0.5, 2.0, 8.0, 20.0, 60.0]))   # second menu reaches beyond the Nyquist frequency (50 Hz)


def seed_values(seed):
    n = int(seed.split('n')[1])
    i = np.arange(n)
    base = np.sin(i * 0.37) + 0.3 * np.cos(i * 1.1) + 0.05 * i / n
    if seed.startswith('i64'):
        return np.round(4 * base).astype(np.int64)
    return base


def make(cls, seed):
    v = seed_values(seed)
    if cls == 'AccSignal':
        o = eqsig.AccSignal(v, DT, smooth_fa_freqs=SF[0].copy(), response_times=RT[0].copy())
    else:
        o = eqsig.Signal(v, DT, smooth_fa_freqs=SF[0].copy())
    o._mc_obs = {'v': frozenset(), 'sf': frozenset(), 'rt': frozenset()}
    o._mc_skip = frozenset()
    o._mc_n0 = len(v)
    return o


def fresh(obj):
    v = np.array(obj.values)
    if isinstance(obj, eqsig.AccSignal):
        return eqsig.AccSignal(v, obj.dt, smooth_fa_freqs=np.array(obj.smooth_fa_freqs, dtype=float),
                               response_times=np.array(obj.response_times, dtype=float))
    return eqsig.Signal(v, obj.dt, smooth_fa_freqs=np.array(obj.smooth_fa_freqs, dtype=float))


# ---- reads ---------------------------------------------------------------------------------
READS_S = ['npts', 'time', 'values', 'fa_spectrum', 'fa_spectrum_abs', 'fa_freqs', 'fa_frequencies', 'smooth_fa_spectrum',
           'smooth_fa_freqs', 'smooth_fa_frequencies', 'smooth_freq_range', 'smooth_freq_points']
READS_A = READS_S + ['velocity', 'displacement', 'pga', 'pgv', 'pgd', 's_a', 's_v', 's_d', 'response_times']
FAMILY = {'fa_spectrum': 'fa', 'fa_spectrum_abs': 'fa', 'fa_freqs': 'fa', 'fa_frequencies': 'fa', 'smooth_fa_spectrum': 'smooth',
          'velocity': 'dv', 'displacement': 'dv', 'pga': 'pga', 'pgv': 'pgv', 'pgd': 'pgd', 's_a': 'resp', 's_v': 'resp', 's_d': 'resp'}


def do_read(o, name):
    return getattr(o, name)


def _other(n):
    return eqsig.Signal(np.cos(np.arange(n) * 0.9), DT)


def _resized(o):
    """a record of a different length, in a different power-of-two bucket (toggles between n and 2n+5)"""
    v = np.asarray(o.values, dtype=float)
    n0 = getattr(o, '_mc_n0', len(v))
    if len(v) == n0:
        return np.concatenate([v * 0.5 + 0.2, v[::-1], np.linspace(-1, 1, 5)])
    return v[:n0][::-1] * 1.25 - 0.1


def _shortened(o):
    """a record a few samples shorter / longer with the same padded FFT length (toggles between n and n-7)"""
    v = np.asarray(o.values, dtype=float)
    n0 = getattr(o, '_mc_n0', len(v))
    if len(v) == n0:
        return v[:n0 - 7] * 0.8 + 0.3
    return np.concatenate([v, np.linspace(0.5, -0.5, 7)])[:n0] * 1.1 - 0.2


def _nearly_same_sf(o):
    """smoothing frequencies that differ from the current ones by a relative 8e-6 (below the default np.allclose tolerance)"""
    f = np.array(o.smooth_fa_freqs, dtype=float)
    k = getattr(o, '_mc_sfk', 0)
    o._mc_sfk = k + 1
    o.smooth_fa_freqs = f * (1 + 8e-6) if k % 2 == 0 else f / (1 + 8e-6)


def _lookalike(cur):
    """a grid with the same number of points and the same first and last value as the current one, other interior points"""
    cur = np.asarray(cur, dtype=float)
    n = len(cur)
    if n < 3:               # no interior: one more point in the middle, same ends
        return np.array([cur[0], 0.5 * (cur[0] + cur[-1]), cur[-1]]) if n == 2 else np.array([cur[0], cur[0] * 1.5 + 0.1])
    lin = np.linspace(cur[0], cur[-1], n)
    if np.allclose(cur, lin, rtol=1e-9, atol=0.0):
        return cur[0] + (cur[-1] - cur[0]) * np.linspace(0, 1, n) ** 2
    return lin


def _edit_and_reassign_rt(o):
    """the caller keeps the array it assigned, edits it in place and assigns the same container again"""
    p = np.array(_toggle(o.response_times, RT), dtype=float)
    o.response_times = p
    o.s_a               # the spectra for p are computed and cached ...
    p *= 1.5            # ... the caller edits its array ...
    o.response_times = p    # ... and assigns it again


def _toggle(cur, menu):
    return menu[1].copy() if len(cur) == len(menu[0]) else menu[0].copy()


def build_ops(cls):
    ops = collections.OrderedDict()
    kind = {}

    def add(name, k, fn, fam=None):
        ops[name] = fn
        kind[name] = (k, fam)
    for rname in (READS_A if cls == 'AccSignal' else READS_S):
        add('read:' + rname, 'read', (lambda o, rname=rname: do_read(o, rname)), FAMILY.get(rname))
    add('regen:generate_fa_spectrum', 'read', lambda o: o.generate_fa_spectrum(), 'fa')
    add('regen:generate_smooth_fa_spectrum', 'read', lambda o: o.generate_smooth_fa_spectrum(), 'smooth')
    if cls == 'AccSignal':
        add('regen:generate_response_spectrum', 'read', lambda o: o.generate_response_spectrum(), 'resp')
        add('regen:generate_displacement_and_velocity_series', 'read', lambda o: o.generate_displacement_and_velocity_series(), 'dv')
    if cls == 'AccSignal':
        # deprecated public methods that compute statistics and store them as attributes of the object (they may raise on this
        # numpy: np.trapz is gone - an operation that raises is still an operation of the history)
        add('regen:generate_cumulative_stats', 'read', lambda o: o.generate_cumulative_stats(), 'stats')
        add('regen:generate_all_motion_stats', 'read', lambda o: o.generate_all_motion_stats(), 'stats')
    # mutators (fixed, effective arguments)
    add('mut:reset_values', 'mut', lambda o: o.reset_values(np.array(o.values, dtype=float)[::-1] * 1.5 + 0.1))
    add('mut:reset_values(other length)', 'mut', lambda o: o.reset_values(_resized(o)))
    add('mut:reset_values(shorter, same power-of-two bucket)', 'mut', lambda o: o.reset_values(_shortened(o)))
    add('mut:add_constant', 'mut', lambda o: o.add_constant(0.7))
    add('mut:add_series', 'mut', lambda o: o.add_series(np.linspace(-1, 1, o.npts) ** 2))
    add('mut:add_signal', 'mut', lambda o: o.add_signal(_other(o.npts)))
    add('mut:butter_pass', 'mut', lambda o: o.butter_pass((2.0, 20.0), filter_order=2))
    add('mut:remove_average', 'mut', lambda o: o.remove_average(section=10))
    add('mut:remove_poly', 'mut', lambda o: o.remove_poly(2))
    add('mut:running_average', 'mut', lambda o: o.running_average(5))
    add('mut:running_average(window longer than the record)', 'mut', lambda o: o.running_average(2 * len(o.values) + 1))
    if cls == 'AccSignal':
        add('mut:remove_rolling_average_velocity', 'mut', lambda o: o.remove_rolling_average('velocity', freq_window=10))
        add('mut:remove_rolling_average_acc', 'mut', lambda o: o.remove_rolling_average('acc', freq_window=10))
        add('mut:rebase_displacement', 'mut', lambda o: o.rebase_displacement())
        add('mut:correct_me', 'mut', lambda o: o.correct_me())
        add('mut:set_zero_residual_velocity', 'mut', lambda o: o.set_zero_residual_velocity())
        add('mut:set_zero_residual_velocity(timezone)', 'mut', lambda o: o.set_zero_residual_velocity(timezone=(0.05, 0.2)))
        add('mut:set_zero_residual_velocity(timezone to end)', 'mut', lambda o: o.set_zero_residual_velocity(timezone=(0.05, None)))
        add('mut:set_zero_residual_displacement', 'mut', lambda o: o.set_zero_residual_displacement())
        add('mut:set_zero_residual_displacement_and_velocity(timezone)', 'mut',
            lambda o: o.set_zero_residual_displacement_and_velocity(timezone=(0.05, 0.2)))
        add('mut:set_zero_residual_displacement_and_velocity(timezone to end)', 'mut',
            lambda o: o.set_zero_residual_displacement_and_velocity(timezone=(0.05, None)))
        add('mut:set_zero_residual_displacement_and_velocity', 'mut', lambda o: o.set_zero_residual_displacement_and_velocity())
    # settings (each toggles between two menu values)
    add('set:smooth_fa_freqs', 'sf', lambda o: setattr(o, 'smooth_fa_freqs', _toggle(o.smooth_fa_freqs, SF)))
    add('set:smooth_fa_freqs(nearly the same)', 'sf', _nearly_same_sf)
    add('set:smooth_fa_freqs(same length and ends, other interior)', 'sf', lambda o: setattr(o, 'smooth_fa_freqs', _lookalike(o.smooth_fa_freqs)))
    add('set:smooth_fa_frequencies', 'sf', lambda o: setattr(o, 'smooth_fa_frequencies', _toggle(o.smooth_fa_freqs, SF)))
    add('set:set_smooth_fa_frequecies_by_range', 'sf',
        lambda o: o.set_smooth_fa_frequecies_by_range((0.5, 20.0) if abs(o.smooth_fa_freqs[0] - 0.5) > 1e-9 or len(o.smooth_fa_freqs) != 5 else (1.0, 10.0), 5))
    add('set:gen_smooth_fa_spectrum(freqs)', 'sf', lambda o: o.gen_smooth_fa_spectrum(smooth_fa_freqs=_toggle(o.smooth_fa_freqs, SF)))
    add('set:smooth_freq_range', 'sf', lambda o: setattr(o, 'smooth_freq_range', (0.4, 25.0) if abs(o.smooth_fa_freqs[0] - 0.4) > 1e-9 else (0.8, 12.0)))
    add('set:smooth_freq_points', 'sf', lambda o: setattr(o, 'smooth_freq_points', 6 if len(o.smooth_fa_freqs) != 6 else 7))
    if cls == 'AccSignal':
        add('set:response_times', 'rt', lambda o: setattr(o, 'response_times', _toggle(o.response_times, RT)))
        add('set:response_times(same container, edited in place)', 'rt', _edit_and_reassign_rt)
        add('set:response_times(same length and ends, other interior)', 'rt', lambda o: setattr(o, 'response_times', _lookalike(o.response_times)))
        add('set:gen_response_spectrum(times)', 'rt', lambda o: o.gen_response_spectrum(response_times=_toggle(o.response_times, RT)))
        add('set:response_series(times)', 'rt', lambda o: o.response_series(response_times=_toggle(o.response_times, RT)))
    # explicit generator calls with non-default arguments install a user-chosen variant of one derived family: until the next
    # operation that must invalidate that family no fresh object can report it, so the invariant skips exactly that family
    # (o._mc_skip) - and checks it again as soon as a mutator / the relevant settings change has to have thrown the variant away
    add('custom:gen_fa_spectrum(p2_plus=1)', 'custom', lambda o: o.gen_fa_spectrum(p2_plus=1), ('fa', 'smooth'))
    add('custom:gen_smooth_fa_spectrum(band=20)', 'custom', lambda o: o.gen_smooth_fa_spectrum(band=20), ('smooth',))
    if cls == 'AccSignal':
        add('custom:gen_response_spectrum(xi=0.2)', 'custom', lambda o: o.gen_response_spectrum(xi=0.2), ('resp',))
        add('custom:generate_displacement_and_velocity_series(trap=False)', 'custom',
            lambda o: o.generate_displacement_and_velocity_series(trap=False), ('dv', 'pgv', 'pgd'))
    # observational bookkeeping wrapper
    wrapped = collections.OrderedDict()
    for name, fn in ops.items():
        def w(o, name=name, fn=fn):
            k, fam = kind[name]
            obs = dict(getattr(o, '_mc_obs', {'v': frozenset(), 'sf': frozenset(), 'rt': frozenset()}))
            skip = set(getattr(o, '_mc_skip', ()))
            before = np.array(o.values, dtype=float) if k == 'mut' else None
            failed = True
            try:
                fn(o)
                failed = False
            finally:
                if k == 'mut' and failed and np.array_equal(before, np.asarray(o.values, dtype=float)):
                    pass        # the mutator raised before touching the record: nothing had to be invalidated
                elif k == 'mut':
                    obs = {'v': frozenset(), 'sf': frozenset(), 'rt': frozenset()}
                    skip = set()
                elif k == 'custom':
                    skip |= set(fam)
                    obs = {kk: vv | frozenset(fam) for kk, vv in obs.items()}
                elif k == 'sf':
                    if 'fa' not in skip:
                        skip.discard('smooth')
                    obs['sf'] = frozenset()
                    if name.startswith('set:gen_smooth'):
                        obs['sf'] = frozenset(['smooth'])
                elif k == 'rt':
                    skip.discard('resp')
                    obs['rt'] = frozenset()
                    if name.startswith('set:gen_response'):
                        obs['rt'] = frozenset(['resp'])
                elif fam is not None:
                    obs = {kk: vv | frozenset([fam]) for kk, vv in obs.items()}
                    if name.startswith('regen:'):   # an argument-free regenerator re-installs the default variant of its own family
                        if fam != 'smooth' or 'fa' not in skip:      # (a smoothed spectrum of a custom spectrum is still custom)
                            skip.discard(fam)
                o._mc_obs = obs
                o._mc_skip = frozenset(skip)
        wrapped[name] = w
    return wrapped, kind


def settings_id(o):
    sf = np.asarray(o.smooth_fa_freqs, dtype=float)
    sid = (len(sf), round(float(sf[0]), 6), round(float(sf[-1]), 6))
    if isinstance(o, eqsig.AccSignal):
        rt = np.asarray(o.response_times, dtype=float)
        return sid + (len(rt),)
    return sid


FLAGS = {'Signal': ('_cached_fa', '_cached_smooth_fa'),
         'AccSignal': ('_cached_fa', '_cached_smooth_fa', '_cached_response_spectra', '_cached_disp_and_velo')}


def coarse_settings(o):
    c = (len(o.smooth_fa_freqs) == len(SF[0]),)
    if isinstance(o, eqsig.AccSignal):
        c += (len(o.response_times) == len(RT[0]),)
    return c


def abstract_key(o):
    """cache-control state: the private flags where the implementation has them, otherwise the
    implementation-independent observational state (which derived families were read since the
    last change that should invalidate them); plus which of the two menu settings is active."""
    cls = type(o).__name__
    flags = tuple(getattr(o, a, None) for a in FLAGS[cls])
    if all(isinstance(f, (bool, np.bool_)) for f in flags):
        ctl = ('flags', flags, tuple(sorted(getattr(o, '_cached_params', None) or ())))
    else:
        obs = getattr(o, '_mc_obs', {})
        ctl = ('obs', tuple(sorted((k, tuple(sorted(v))) for k, v in obs.items())))
    return (cls, ctl, coarse_settings(o), str(np.asarray(o.values).dtype.kind), tuple(sorted(getattr(o, '_mc_skip', ()))))


_FRESH = {}
GROUPS_S = [['npts', 'time', 'values'], ['fa_spectrum', 'fa_spectrum_abs', 'fa_freqs', 'fa_frequencies'], ['smooth_fa_spectrum'],
            ['smooth_fa_freqs', 'smooth_fa_frequencies', 'smooth_freq_range', 'smooth_freq_points']]
GROUPS_A = GROUPS_S + [['velocity', 'displacement'], ['pga'], ['pgv'], ['pgd'], ['s_a', 's_v', 's_d'], ['response_times']]


def fresh_reads(obj, group):
    """reads of `group` on a freshly constructed object; memoised on (class, values, settings)"""
    v = np.ascontiguousarray(np.asarray(obj.values))
    k = (type(obj).__name__, v.dtype.str, v.tobytes(), np.asarray(obj.smooth_fa_freqs, dtype=float).tobytes(),
         np.asarray(getattr(obj, 'response_times', ()), dtype=float).tobytes(), tuple(group))
    if k not in _FRESH:
        if len(_FRESH) > 4000:
            _FRESH.clear()
        out = []
        for rname in group:
            try:
                out.append((True, do_read(fresh(obj), rname)))
            except Exception as e:
                out.append((False, '%s: %s' % (type(e).__name__, e)))
        _FRESH[k] = out
    return _FRESH[k]


def invariant_factory(cls, r, ctx):
    groups = GROUPS_A if cls == 'AccSignal' else GROUPS_S

    def invariant(obj, hist):
        probs = []
        skip = getattr(obj, '_mc_skip', ())
        for group in groups:
            if FAMILY.get(group[0], group[0]) in skip:
                continue
            c = copy.deepcopy(obj)      # one private copy per family of reads that share a cache
            wants = fresh_reads(obj, group)
            for rname, (okw, want) in zip(group, wants):
                r.n_cmp += 1
                if not okw:  # object left in a state no fresh object can be built from
                    probs.append(('unconstructible', rname, 'fresh object cannot report %s: %s' % (rname, want)))
                    continue
                try:
                    got = do_read(c, rname)
                except Exception as e:
                    probs.append(('read-raises', rname, 'read %s raises %s: %s' % (rname, type(e).__name__, str(e)[:150])))
                    continue
                ok, err, why = close(got, want, rtol=1e-9, atol=1e-300)
                if not ok:
                    probs.append(('stale', rname, '%s differs from a fresh object: %s' % (rname, why)))
                    continue
                try:
                    again = do_read(c, rname)
                    ok2, _, why2 = close(again, got, rtol=1e-12, atol=1e-300)
                except Exception as e:
                    ok2, why2 = False, 'second read raises %s' % type(e).__name__
                if not ok2:
                    probs.append(('non-idempotent', rname, 'reading %s twice gives different values: %s' % (rname, why2)))
        return probs
    return invariant


def rebuild(cls, sd, hist):
    """fresh real object + the recorded operations replayed (live objects are not shipped around)"""
    ops, kind = build_ops(cls)
    o = make(cls, sd)
    for name in hist:
        try:
            ops[name](o)
        except Exception:
            pass
    return o, ops, kind


def closure_ops(ops):
    """closure mode explores the default alphabet; the custom-variant generators (which multiply the control state by the
    set of families currently holding a user-chosen variant) are explored in exact mode only"""
    return collections.OrderedDict((n, f) for n, f in ops.items() if not n.startswith('custom:'))


def _expand_keys(arg):
    cls, sd, hist = arg
    o, ops, kind = rebuild(cls, sd, hist)
    out = []
    for name, op in closure_ops(ops).items():
        c, exc = osm.apply(op, o)
        out.append((name, abstract_key(c)))
    return out


CLOSURE_STATE_CAP = 1200


def closure_states(cls, sd, pool):
    """level-synchronous BFS on abstract keys only (no invariant here): returns the shortest
    history of every reachable abstract state, in canonical discovery order."""
    o = make(cls, sd)
    seen = collections.OrderedDict()
    seen[abstract_key(o)] = []
    frontier = [[]]
    truncated = None
    depth = 0
    while frontier:
        res = pool.map(_expand_keys, [(cls, sd, h) for h in frontier])
        nxt = []
        for h, outs in zip(frontier, res):
            for name, k in outs:
                if k not in seen:
                    seen[k] = h + [name]
                    nxt.append(h + [name])
        frontier = nxt
        depth += 1
        if len(seen) > CLOSURE_STATE_CAP:
            # an implementation whose control state does not close within the cap (the unchanged tree has 6 .. 480 states):
            # the levels completed so far are kept and checked, the run is reported as not exhaustive
            truncated = ('%s/%s: more than %d abstract states after %d complete BFS levels (%d found, %d unexpanded)'
                         % (cls, sd, CLOSURE_STATE_CAP, depth, len(seen), len(frontier)))
            break
    return list(seen.values()), truncated


def build(tier, seed):
    import multiprocessing as mp
    import os
    cases = []
    quick = tier == 'quick'
    nstates = {}
    truncated = []
    pool = mp.get_context('fork').Pool(int(os.environ.get('MC_WORKERS', '16')))
    try:
        for cls in ('Signal', 'AccSignal'):
            ops, kind = build_ops(cls)
            for sd in SEEDS:
                cases.append({'mode': 'effect', 'cls': cls, 'seed': sd})
                hists, trunc = closure_states(cls, sd, pool)
                if trunc:
                    truncated.append(trunc)
                nstates['%s/%s' % (cls, sd)] = len(hists)
                for h in hists:
                    cases.append({'mode': 'closure', 'cls': cls, 'seed': sd, 'history': h})
            for sd in (SEEDS[:1] if quick else SEEDS):
                for first in ops:
                    cases.append({'mode': 'exact', 'cls': cls, 'seed': sd, 'first': first, 'depth': 3, 'triples_only': quick})
            if not quick:
                # depth 4, restricted to the two patterns in which a second change can hide or expose what the first left behind:
                #   (read | custom) -> change -> change -> read      and      change -> (read | custom) -> change -> read
                for first in ops:
                    cases.append({'mode': 'exact', 'cls': cls, 'seed': SEEDS[0], 'first': first, 'depth': 4, 'pattern4': True})
    finally:
        pool.terminate()
        pool.join()
    return {
        'truncated': '; '.join(truncated) if truncated else None,
        'rule_more': 'settings operations that assign a grid with the same length and end values but other interior points',
        'cases': cases,
        'rule': 'engine S on real objects: (closure) BFS over the cache-control state to closure from 3 seed records x '
                '{Signal, AccSignal} - one pool case per reachable abstract state, every operation applied to its representative; '
                '(exact) all operation sequences of length <= %s without merging; alphabet = every public mutator '
                '(fixed effective arguments), every settings change (toggling between two menu values), every public read and '
                'argument-free regenerator; the fresh-object invariant is evaluated after every transition; non-trivial = transition by a '
                'mutator or settings op that changed the object'
                % ('2 plus all read->change->read triples' if quick else '3 (complete)'),
        'bounds': {'ops_Signal': len(build_ops('Signal')[0]), 'ops_AccSignal': len(build_ops('AccSignal')[0]), 'seeds': SEEDS,
                   'closure_abstract_states': nstates, 'closure_closed': True,
                   'exact_depth': 3, 'exact_depth3_restricted_to_read_change_read': quick},
        'required_classes': ['closure-state', 'exact-depth-3'] + ['effective:' + n for n in build_ops('AccSignal')[0] if n.startswith(('mut:', 'set:'))],
        'assumptions': ['generator calls with non-default arguments (p2_plus=1, band=20, xi=0.2, trap=False) install a user-chosen variant that no '
                        'fresh object with the same settings can report: they are operations of the exact mode only, and the family they '
                        'replace is exempt from the fresh-object comparison until the next operation that has to throw the variant away',
                        'closure BFS bounded by %d abstract states per class and seed record (the unchanged tree closes at 6 .. 480); '
                        'a truncated search is reported as not exhaustive' % CLOSURE_STATE_CAP,
                        'canonicalisation: DESIGN.md 2.1; the invariant is evaluated on the concrete object after every transition, before deduplication',
                        'closure: reachable abstract states are enumerated to a fixpoint in build(); a state whose representative already '
                        'violates the invariant is reported by the transition that produced it and is not expanded'],
    }


def run_case(case):
    r = Res()
    cls = case['cls']
    sd = case['seed']
    ops, kind = build_ops(cls)
    init = make(cls, sd)
    inv = invariant_factory(cls, r, {})
    base = {'cls': cls, 'seed': sd}

    def on_transition(old, name, new, exc):
        k, fam = kind[name]
        if exc is not None:
            r.disabled['%s raises %s (%s)' % (name, type(exc).__name__, sd)] += 1
        if k == 'mut':
            try:
                changed = not (np.asarray(old.values).shape == np.asarray(new.values).shape and
                               np.array_equal(np.asarray(old.values, dtype=float), np.asarray(new.values, dtype=float)))
            except Exception:
                changed = True
            if changed:
                r.nontrivial += 1
        elif k in ('sf', 'rt'):
            if settings_id(old) != settings_id(new):
                r.nontrivial += 1
        # settings are changed by the operations that set them and by nothing else (a read, a regeneration or a change of the record
        # leaves the smoothing frequencies, the response periods and the time step exactly as they were)
        for sname, setter_kind in (('smooth_fa_freqs', 'sf'), ('response_times', 'rt'), ('dt', None)):
            if k == setter_kind or not hasattr(old, sname):
                continue
            try:
                a_, b_ = np.asarray(getattr(old, sname), dtype=float), np.asarray(getattr(new, sname), dtype=float)
                same = a_.shape == b_.shape and a_.tobytes() == b_.tobytes()
            except Exception:
                same = False
            r.n_cmp += 1
            if not same:
                r.fail('setting-changed-by-other-operation', dict(base, op=name, setting=sname),
                       '%s changed %s' % (name, sname), observed=getattr(new, sname, None), expected=getattr(old, sname, None))

    if case['mode'] == 'effect':
        # non-vacuity: every mutator changes every derived quantity it should; every setting op changes its setting
        reads = READS_A if cls == 'AccSignal' else READS_S
        for name, op in ops.items():
            k, fam = kind[name]
            if k in ('read', 'custom'):
                continue
            new, exc = osm.apply(op, init)
            r.transitions += 1
            if exc is not None:
                r.disabled['%s raises %s on the initial object (%s)' % (name, type(exc).__name__, sd)] += 1
                continue
            changed = []
            for rname in reads:
                try:
                    a = do_read(fresh(init), rname)
                    b = do_read(fresh(new), rname)
                    if not close(a, b, rtol=1e-6, atol=1e-300)[0]:
                        changed.append(rname)
                except Exception:
                    pass
            if name == 'set:smooth_fa_freqs(nearly the same)':
                r.cls('effective:' + name)     # changes the frequencies by 8e-6: visible at the 1e-9 tolerance of the invariant, not at the 1e-6 of this probe
                continue
            need = {'mut': ['fa_spectrum', 'smooth_fa_spectrum'] + (['velocity', 'displacement', 'pgv', 'pgd', 's_a', 's_d'] if cls == 'AccSignal' else []),
                    'sf': ['smooth_fa_spectrum', 'smooth_fa_freqs'], 'rt': ['s_a', 's_d', 'response_times']}[k]
            if k == 'mut' and 'smooth_fa_spectrum' not in changed and all(x in changed for x in need if x != 'smooth_fa_spectrum'):
                # e.g. a constant offset on a power-of-two record only moves the zero-frequency bin, which smoothing ignores
                r.cls('effective-except-smooth:' + name)
            elif all(x in changed for x in need):
                r.cls('effective:' + name)
            else:
                r.disabled['not effective: %s on %s %s (unchanged: %s)' % (name, cls, sd, [x for x in need if x not in changed])] += 1
        r.states += 1
        # the invariant must hold in the initial state
        for p in inv(init, []):
            r.fail(p[0], dict(base, history=[], read=p[1]), p[2])
        return r

    if case['mode'] == 'closure':
        hist = list(case['history'])
        o, _, _ = rebuild(cls, sd, hist)
        r.states += 1
        r.cls('closure-state')
        r.cls('closure-depth-%d' % len(hist))
        if inv(o, hist):
            # reported by the transition that produced this state (a shorter-history case); not expanded
            r.disabled['closure state already violating - not expanded'] += 1
            return r
        viol = []
        for name, op in closure_ops(ops).items():
            c, exc = osm.apply(op, o)
            r.transitions += 1
            r.evals += 1
            on_transition(o, name, c, exc)
            for p in inv(c, hist + [name]):
                viol.append((hist + [name], p))
    else:
        first = case['first']
        depth = case['depth']

        def allow(hist, name):
            if case.get('pattern4'):
                rd = lambda nme: kind[nme][0] in ('read', 'custom')   # noqa: E731
                seq = hist + [name]
                pats = ((True, False, False, True), (False, True, False, True))
                if len(seq) == 4 and kind[name][0] != 'read':
                    return False
                return any(all(rd(seq[i]) == pat[i] for i in range(len(seq))) for pat in pats)
            if len(hist) < 2 or not case.get('triples_only'):
                return True
            return kind[hist[0]][0] in ('read', 'custom') and kind[hist[1]][0] not in ('read', 'custom') and kind[name][0] == 'read'
        out = osm.exact(init, ops, depth, inv, first=first, allow=allow, on_transition=on_transition)
        r.states += out['states']
        r.transitions += out['transitions']
        r.evals += out['transitions']
        r.cls('exact-depth-%d%s' % (depth, '-patterns' if case.get('pattern4') else ''))
        viol = out['violations']
    for hist, p in viol:
        r.fail(p[0], dict(base, mode=case['mode'], history=hist, read=p[1]), p[2] + ' after ' + ' ; '.join(hist))
    return r


def snippet(case, v):
    s = v.get('sub') or {}
    return ("# replay without the explorer: build the seed object, apply the history, compare with a fresh object\n"
            "import sys; sys.path.insert(0, '/verif'); sys.path.insert(0, '/repo')\n"
            "from mcheck.props import c04\nimport copy\n"
            "o, ops, kind = c04.rebuild(%r, %r, %r)\n"
            "print('object :', getattr(copy.deepcopy(o), %r))\nprint('fresh  :', getattr(c04.fresh(o), %r))\n"
            % (s.get('cls'), s.get('seed'), s.get('history'), s.get('read'), s.get('read')))
