"""C11 - local-peak detection is sound and complete on every series.

Engine T: the prefix tree of all words over a 5-level alphabet (every pattern of rise / fall /
flat with unequal step sizes) up to the length bound; one pool case = one sub-tree.  Every
non-constant node is run through get_peak_array_indices (ptype all/max/min; float, int and
list input) and get_n_cyc_array and compared *exactly* with a run-compression scanner and,
independently, with a direct transcription of the statement.
"""
import itertools

import numpy as np

from ..target import eqsig, peaks_and_crossings as pc
from ..result import Res
from ..refs import peaks_ref as ref

ROOT = 3   # pool cases are sub-trees rooted at words of this length (shorter words are own cases)


def _roots(alpha, lmax, tag):
    cs = []
    for n in range(2, min(ROOT, lmax) + 1):
        for w in itertools.product(alpha, repeat=n):
            cs.append({'fam': tag, 'alpha': list(alpha), 'root': list(w), 'lmax': lmax if n == ROOT else n})
    return cs


def lcg_word(seed, n, levels, stick):
    """deterministic plateau-rich word (thorough tier supplement, exact integer oracle)"""
    s = (seed * 6364136223846793005 + 1442695040888963407) % (1 << 64)
    out = []
    cur = 0
    for _ in range(n):
        s = (s * 6364136223846793005 + 1442695040888963407) % (1 << 64)
        if not out or (s >> 33) % 100 >= stick:
            s = (s * 6364136223846793005 + 1442695040888963407) % (1 << 64)
            cur = int((s >> 33) % levels) - levels // 2
        out.append(cur)
    if len(set(out)) == 1:
        out[-1] = out[0] + 1
    return out


def _stretch(alpha, lmax, ks):
    return [{'fam': 'stretch', 'alpha': list(alpha), 'root': list(w), 'lmax': lmax, 'ks': list(ks)} for w in itertools.product(alpha, repeat=2)]


def build(tier, seed):
    if tier == 'quick':
        cases = _roots((0, 1, 2, 3, 4), 7, 'S5') + _stretch((0, 1, 2, 3, 4), 5, (3, 9, 41))
        bounds = {'S5 {0..4}': 7, 'S5 words of length 2..5 with every sample held for k steps, k in': [3, 9, 41]}
    else:
        cases = (_roots((0, 1, 2, 3, 4), 8, 'S5') + _roots((-3, -2, -1, 0, 1, 2, 3), 6, 'S7') + _roots((-1, 0, 1), 11, 'S3')
                 + _stretch((0, 1, 2, 3, 4), 6, (3, 9, 41, 700)))
        bounds = {'S5 {0..4}': 8, 'S7 {-3..3}': 6, 'S3 {-1,0,1}': 11, 'S5 words of length 2..6 with every sample held for k steps, k in': [3, 9, 41, 700]}
        for j in range(64):
            sd = 64 * seed + j
            n = [50, 200, 1000, 5000][j % 4]
            cases.append({'fam': 'long', 'seed': sd, 'n': n, 'levels': [3, 5, 9][j % 3], 'stick': [30, 60, 85][(j // 4) % 3]})
        bounds['long seeded plateau-rich words'] = 'lengths 50..5000, seeds 64*VERIF_SEED..+63 (reported separately, not exhaustive)'
    return {
        'rule_more': 'peak indices after the other public functions of the module were called on the same array (record rebased to start at 0); cycle counter on large levels with tiny steps',
        'cases': cases,
        'rule': 'prefix tree of all words over the alphabet up to the length bound (pool case = sub-tree rooted at a word of '
                'length <= %d); every non-constant node x ptype {all,max,min} x input container {float64,int64,list} x '
                'cycle counter opt {all,switched} x start {origin,peak} (+ uint8, int16 x100, amplitudes 1e-9 / 1e-170 / 1e300, a large '
                'offset with tiny steps, signal objects reused after reset_values for short words); stretched family: every word of the '
                'stated length with each sample held for k steps, float64; non-trivial = non-constant word' % ROOT,
        'bounds': bounds,
        'required_classes': ['flat-start', 'flat-end', 'interior-plateau-extremum', 'interior-plateau-nonextremum',
                             'starts-rising', 'starts-falling', 'ptype-max', 'ptype-min', 'ncyc-switched', 'stretched-long-record', 'huge-first-sample', 'sibling-functions-called-before'],
        'assumptions': ['index-valued outputs are compared exactly', 'reference: run-compression scanner (mcheck/refs/peaks_ref.py)',
                        'constant series are outside the statement and skipped (counted as disabled)'],
    }


def check_word(r, w, fam, containers=('f', 'i', 'l'), label=None):
    n = len(w)
    if len(set(w)) == 1:
        r.disabled['constant-word'] += 1
        return
    r.nontrivial += 1
    r.states += 1
    idx, kinds = ref.turning_points(w)
    rs = ref.runs(w)
    if w[0] == w[1]:
        r.cls('flat-start')
    if w[-1] == w[-2]:
        r.cls('flat-end')
    for k in range(1, len(rs) - 1):
        if rs[k + 1][0] - rs[k][0] > 1:
            ext = (rs[k][1] > rs[k - 1][1]) == (rs[k][1] > rs[k + 1][1])
            r.cls('interior-plateau-extremum' if ext else 'interior-plateau-nonextremum')
    r.cls('starts-rising' if rs[1][1] > rs[0][1] else 'starts-falling')
    sub0 = {'fam': fam, 'w': w if n <= 16 else None}
    if n > 16:
        sub0['word'] = label or 'long'
    extra = ()
    if n <= 6 and min(w) >= 0 and max(w) <= 4:
        extra = ('u8', 'i16x100')     # unsigned (wrap-around on a falling step) and narrow integers with large steps
    if n <= 6:
        # the statement is exact and scale-free: the same pattern at 1e-9 of the amplitude, and riding on a large level with tiny steps
        # (steps below 1e-8 absolute / 1e-5 relative are still steps)
        extra = extra + ('x1e-9', 'offset1e3+x1e-7', 'x1e-170', 'x1e300')   # products of two steps under- / overflow at the last two
    for c in tuple(containers) + extra:
        arr = (np.array(w, dtype=float) if c == 'f' else np.array(w, dtype=np.int64) if c == 'i' else np.array(w, dtype=np.uint8) if c == 'u8'
               else (np.array(w) * 100).astype(np.int16) if c == 'i16x100' else np.array(w, dtype=float) * 1e-9 if c == 'x1e-9'
               else 1000.0 + np.array(w, dtype=float) * 1e-7 if c == 'offset1e3+x1e-7' else np.array(w, dtype=float) * 1e-170 if c == 'x1e-170'
               else np.array(w, dtype=float) * 1e300 if c == 'x1e300' else list(w))
        sub = dict(sub0, input=c)
        ok, got = r.call('all', sub, pc.get_peak_array_indices, arr)
        if ok:
            if r.expect_ints('all.equals-turning-points', sub, got, idx):
                pass
            try:
                g = [int(v) for v in np.asarray(got).tolist()]
                errs = ref.check_peak_structure(w, g)
                r.expect('all.statement', sub, not errs, '; '.join(errs), observed=g)
            except Exception as e:
                r.fail('all.statement', sub, 'malformed result: %s' % e, observed=got)
        for pt in ('max', 'min'):
            r.cls('ptype-' + pt)
            ok, got = r.call(pt, sub, pc.get_peak_array_indices, arr, pt)
            if ok:
                r.expect_ints('ptype.' + pt, sub, got, [i for i, k in zip(idx, kinds) if k == pt])
    # ---- the other public functions of the module were called on the SAME array before (the peaks-only series, the cycle counter, the
    #      switched peaks, the crossings): whatever they keep or share, the peak indices are those of the record.  The record is rebased to
    #      start at exactly 0 (w - w[0]: same turning points), so words that fall first go negative.
    if n <= 6:
        x0 = np.array([v - w[0] for v in w], dtype=float)
        snap0 = x0.tobytes()
        for sib in (pc.determine_peaks_only_delta_series, pc.determine_pseudo_cyclic_peak_only_series, pc.get_n_cyc_array,
                    pc.get_switched_peak_array_indices, pc.get_zero_crossings_array_indices):
            try:
                sib(x0)
            except Exception:
                pass
        r.cls('sibling-functions-called-before')
        sub = dict(sub0, input='rebased to start at 0, after the other functions of the module on the same array')
        r.n_cmp += 1
        if x0.tobytes() != snap0:
            r.fail('all.array-unchanged', sub, 'one of the module\'s functions modified the array it was given', observed=x0)
            x0 = np.array([v - w[0] for v in w], dtype=float)
        for pt in ('all', 'max', 'min'):
            ok, got = r.call(pt, sub, pc.get_peak_array_indices, x0, pt)
            if ok:
                r.expect_ints('all.equals-turning-points' if pt == 'all' else 'ptype.' + pt, sub, got,
                              idx if pt == 'all' else [i for i, k in zip(idx, kinds) if k == pt])
    # object-level wrapper, also on an object whose record is replaced between two queries
    if n <= 5:
        ok, got = r.call('all', dict(sub0, input='signal-object'), pc.get_peak_indices, eqsig.AccSignal(np.array(w, dtype=float), 0.01))
        if ok:
            r.expect_ints('all.equals-turning-points', dict(sub0, input='signal-object'), got, idx)
        w2 = [w[0]] + [2 * w[0] - v for v in w[1:]] if len(set(w[::-1])) > 1 else None   # mirrored about the first sample: same indices, and ...
        w3 = list(w[::-1])                                                               # ... the reversed word: different ones in general
        for cls_ in (eqsig.Signal, eqsig.AccSignal):
            for wn in (w3,):
                if len(set(wn)) == 1:
                    continue
                sub = dict(sub0, input=cls_.__name__ + '-reused', second=wn)

                def reused():
                    sg = cls_(np.array(w, dtype=float), 0.01)
                    pc.get_peak_indices(sg)
                    sg.reset_values(np.array(wn, dtype=float))
                    return pc.get_peak_indices(sg)
                ok, got = r.call('all', sub, reused)
                if ok:
                    r.expect_ints('all.object-after-reset_values', sub, got, ref.turning_points(wn)[0])
    # a first sample that is 1e17 times larger than everything that follows (a record released from a large initial value):
    # the later steps are still steps; reference evaluated on the very same floats
    if n <= 6 and n >= 3:
        xs = [1.0] + [float(v) * 1e-17 for v in w[1:]]
        if len(set(xs)) > 1:
            sub = dict(sub0, input='first sample 1, then x1e-17')
            ok, got = r.call('all', sub, pc.get_peak_array_indices, np.array(xs))
            if ok:
                r.cls('huge-first-sample')
                r.expect_ints('all.equals-turning-points', sub, got, ref.turning_points(xs)[0])
    # cycle counter (also at 1e-9 of the amplitude for the short words, and on integer-typed containers)
    for scale_tag, arr in ((('', np.array(w, dtype=float)),) + (((' x1e-9', np.array(w, dtype=float) * 1e-9), (' int64', np.array(w, dtype=np.int64)),
                                                                  (' list-of-int', [int(v) for v in w]), (' int8', np.array(w, dtype=np.int8)),
                                                                  # steps far below single precision of the level / of anything: the counter depends on
                                                                  # the order of the samples only
                                                                  (' 250+x1e-6', 250.0 + np.array(w, dtype=float) * 1e-6), (' 1e9+x', 1e9 + np.array(w, dtype=float)),
                                                                  (' x1e-60', np.array(w, dtype=float) * 1e-60), (' x1e-170', np.array(w, dtype=float) * 1e-170),
                                                                  (' x1e300', np.array(w, dtype=float) * 1e300)) if n <= 5 else ())):
      for opt in ('all', 'switched'):
          if opt == 'all':
              P = list(idx)
          else:
              ok, sw = r.call('ncyc', dict(sub0, opt=opt + scale_tag), pc.get_switched_peak_array_indices, arr)
              if not ok:
                  continue
              try:
                  P = [int(v) for v in np.asarray(sw).tolist()]
              except Exception:
                  continue
              if not P or any(b <= a for a, b in zip(P, P[1:])) or P[0] < 0 or P[-1] >= n:
                  continue  # malformed switched peaks are C12's business
              if P[0] != 0:
                  P = [0] + P
              r.cls('ncyc-switched')
          for start in ('origin', 'peak'):
              sub = dict(sub0, opt=opt + scale_tag, start=start)
              ok, c = r.call('ncyc', sub, pc.get_n_cyc_array, arr, opt, start)
              if not ok:
                  continue
              try:
                  c = np.asarray(c, dtype=float)
                  if not r.expect('ncyc.length', sub, c.shape == (n,), 'length %r != %d' % (c.shape, n)):
                      continue
                  r.expect('ncyc.non-decreasing', sub, bool(np.all(np.diff(c) >= -1e-12)), 'decreases', observed=c)
                  want = [0.0] + [(0.25 if start == 'origin' else 0.5) + 0.5 * (j - 1) for j in range(1, len(P))]
                  r.expect_close('ncyc.at-peaks', sub, c[P], want, rtol=1e-12, atol=1e-12)
              except Exception as e:
                  r.fail('ncyc', sub, 'malformed result: %s' % e, observed=c)


def run_case(case):
    r = Res()
    fam = case['fam']
    if fam == 'long':
        w = lcg_word(case['seed'], case['n'], case['levels'], case['stick'])
        check_word(r, w, 'long:%d:%d:%d:%d' % (case['seed'], case['n'], case['levels'], case['stick']), containers=('f',))
        return r
    root = tuple(case['root'])
    alpha = case['alpha']
    lmax = case['lmax']
    if fam == 'stretch':
        # every word of the sub-tree with each sample held for k steps: long records made of plateaus with few turning points
        for n in range(max(len(root), 2), lmax + 1):
            for ext in itertools.product(alpha, repeat=n - len(root)):
                base_w = list(root + ext)
                for k in case['ks']:
                    r.transitions += 1
                    r.cls('stretched-long-record')
                    check_word(r, [v for v in base_w for _ in range(k)], 'stretch', containers=('f',), label='%r held x%d' % (base_w, k))
        return r
    check_word(r, list(root), fam)
    for n in range(len(root) + 1, lmax + 1):
        for ext in itertools.product(alpha, repeat=n - len(root)):
            w = list(root + ext)
            r.transitions += 1
            check_word(r, w, fam, containers=('f', 'i') if n >= 7 else ('f', 'i', 'l'))
    return r


def snippet(case, v):
    return ("import numpy as np\nfrom eqsig.fns import peaks_and_crossings as pc\nw = %r\n"
            "for pt in ('all', 'max', 'min'):\n    print(pt, pc.get_peak_array_indices(np.array(w, float), pt))\n"
            "print(pc.get_n_cyc_array(np.array(w, float)))\n" % ((v.get('sub') or {}).get('w'),))
