"""C03 - response spectra are peak responses with consistent pseudo-spectral relations.

Engine T x G: every non-zero record over {-1,0,2} up to the length bound x dt x period lists on
both sides of 6*dt (with / without a leading 0) x xi x period container x min_dt_ratio.

sub-claims
  a  S_d = max_t |u|, one finite non-negative entry per period          (40-digit reference peaks)
  b  PSV = w S_d, PSA = w^2 S_d for T >= 6 dt; PSA = PGA below (incl. T = 0 where S_d = 0)
  c  true spectra = max|v|, max|a_total| (PGA below 6 dt); = PSA when xi = 0
  d  list / tuple / ndarray period containers give identical results
  e  AccSignal.s_d/s_v/s_a = the array functions applied to the record refined to a step
     dt/f <= max(T_min/20, dt/min_dt_ratio) (f from exact rationals); never below the raw values
  f  kinetic-energy and input-energy spectra equal their defining sums over the response series
  g  input energy at the end of the record >= 0
"""
from fractions import Fraction
import math

import numpy as np

from ..target import eqsig, sdof
from ..result import Res
from ..compare import words
from ..refs import sdof_ref as ref

CASE_TIMEOUT = 600
DTS = ('0.01', '0.5')
# period lists in units of dt (strings -> exact rationals)
PLISTS = (('0', '2', '5.9', '6', '20'), ('2', '5.9', '6', '20'), ('0', '100'), ('3',), ('5.999999', '6', '6.000001'), ('10', '40', '100'),
          ('20', '2', '100', '5.9', '6'), ('0', '20', '3', '50'))      # the last two: in no particular order, at array level too
PLIST_DESC = ('20', '6', '2')     # object path only: T_min is not the first entry
XIS = (0.0, 0.05, 0.7)
MDR = (1, 2, 4, 8)


def build(tier, seed):
    L = 5 if tier == 'quick' else 7
    cases = []
    for w in words((-1, 0, 2), 2, L, nonzero=True):
        for dt in DTS:
            cases.append({'rec': list(w), 'dt': dt})
    return {
        'rule_more': 'one object walked through a sequence of dampings incl. the argument-free call; consecutive spectrum calls of the same size without / with a leading zero period (array functions, two objects of one length)',
        'cases': cases,
        'rule': 'every non-zero record over {-1,0,2} of length 2..%d x dt %s (one pool case each) x period lists (units of dt) %s x xi %s '
                'x container {ndarray,list,tuple} x min_dt_ratio %s (+ a descending list on the object path); non-trivial = record x dt' % (
                    L, list(DTS), [list(p) for p in PLISTS], list(XIS), list(MDR)),
        'bounds': {'alphabet': [-1, 0, 2], 'max_len': L, 'dt': DTS, 'period_lists_in_dt': PLISTS, 'xi': XIS, 'min_dt_ratio': MDR},
        'required_classes': ['T<6dt', 'T>=6dt', 'T=0', 'container-list', 'container-tuple', 'container-int', 'object-after-edit', 'refined-f>1', 'unrefined-f=1',
                             'xi=0-true-equals-pseudo', 'energy>0', 'object-descending-periods', 'object-min_dt_ratio-sequence',
                             'object-xi-sequence', 'same-size-sequence'],
        'assumptions': ['reference peaks from the 40-digit exact response (mcheck/refs/sdof_ref.py) with the tolerance of C01',
                        'object path (e): which integer refinement factor float rounding of dt/target lands on (f or f+1) and whether the '
                        'library interpolation holds the last value for f-1 extra sub-steps is not fixed by the statement: all are accepted'],
    }


def fr(x):
    return Fraction(x)


def exact_peaks(rec, dt, T, xi):
    U, V = ref.exact_series(rec, dt, T, xi)
    uf, vf = ref.to_float(U), ref.to_float(V)
    w = 2 * np.pi / T
    af = -(2 * xi * w * vf + w ** 2 * uf)
    return uf, vf, af


def check_vec(r, claim, sub, got, want, rtol, atol_each=None, what=''):
    r.n_cmp += 1
    try:
        g = np.asarray(got, dtype=float)
        w = np.asarray(want, dtype=float)
        if g.shape != w.shape:
            return r.fail(claim, sub, '%s: %d entries for %d periods' % (what, g.size, w.size), observed=got)
        if not np.all(np.isfinite(g)) or np.any(g < 0):
            return r.fail(claim, sub, '%s: non-finite or negative entry' % what, observed=g)
        tol = np.asarray(rtol, dtype=float) * np.abs(w) + (0 if atol_each is None else np.asarray(atol_each, dtype=float)) + 1e-300
        bad = np.abs(g - w) > tol
        if np.any(bad):
            j = int(np.argmax(np.abs(g - w) / tol))
            return r.fail(claim, dict(sub, index=j), '%s: entry %d is %.9g, expected %.9g (tol %.2e)' % (what, j, g[j], w[j], tol[j]),
                          err=float(abs(g[j] - w[j]) / tol[j]), observed=g, expected=w)
        return True
    except Exception as e:
        return r.fail(claim, sub, '%s malformed result: %s' % (what, e), observed=got)


def run_case(case):
    r = Res()
    rec = case['rec']
    dts = case['dt']
    dt = float(dts)
    a = np.array(rec, dtype=float)
    n = len(a)
    pga = float(np.max(np.abs(a)))
    r.nontrivial += 1
    for plist in PLISTS + (PLIST_DESC,):
        periods = [float(fr(p) * fr(dts)) for p in plist]
        desc = plist is PLIST_DESC
        below = np.array([fr(p) < 6 for p in plist])    # exact: T < 6 dt  (the menu has no rounding-level ties with 6 dt except
        for p in plist:                                 # 5.999999 / 6.000001 which are 1e-6 away, far above float rounding)
            r.cls('T=0' if fr(p) == 0 else ('T<6dt' if fr(p) < 6 else 'T>=6dt'))
        for xi in XIS:
            base = {'rec': rec, 'dt': dts, 'periods_dt': list(plist), 'xi': xi}
            r.states += 1
            # reference peaks per period
            sd_ref = np.zeros(len(periods))
            sv_true = np.zeros(len(periods))
            sa_true = np.zeros(len(periods))
            tol = np.zeros(len(periods))
            series = {}
            for j, T in enumerate(periods):
                if T == 0:
                    tol[j] = 0
                    continue
                uf, vf, af = exact_peaks(rec, dt, T, xi)
                series[j] = (uf, vf, af)
                sd_ref[j] = np.max(np.abs(uf))
                sv_true[j] = np.max(np.abs(vf))
                sa_true[j] = np.max(np.abs(af))
                tol[j] = ref.tolerance(dt, T, n)
            w = np.array([2 * np.pi / T if T > 0 else 1.0 for T in periods])
            # peak of a series is only defined to the accuracy of the series (C01): tol x its own peak; where two local
            # maxima compete the tolerance is the same.  For the acceleration series the error is tol x (w^2 peak u + 2 xi w peak v)
            # Normalised by the peak of the exact continuous-time response (never below the sampled peak) for the reason given in
            # C01: where the exact series vanishes at the sample instants (xi=0, T=2dt, constant record) the sampled peak is 0.
            cpu = np.zeros(len(periods))
            cpv = np.zeros(len(periods))
            for j, T in enumerate(periods):
                if T > 0:
                    cpu[j], cpv[j] = ref.continuous_peaks_f64(rec, dt, T, xi, series[j][0], series[j][1])
            at_u = tol * cpu * 1.01
            at_v = tol * cpv * 1.01
            at_a = tol * (w ** 2 * cpu + 2 * xi * w * cpv) * 1.01
            if not desc:
                outs = {}
                for cname, conv in (('ndarray', lambda p: np.array(p)), ('list', list), ('tuple', tuple)):
                    if cname != 'ndarray':
                        r.cls('container-' + cname)
                    sub = dict(base, container=cname)
                    okp, ps = r.call('d.containers' if cname != 'ndarray' else 'a.pseudo', dict(sub, fn='pseudo'), sdof.pseudo_response_spectra, a, dt, conv(periods), xi)
                    okt, ts = r.call('d.containers' if cname != 'ndarray' else 'c.true', dict(sub, fn='true'), sdof.true_response_spectra, a, dt, conv(periods), xi)
                    outs[cname] = (ps if okp else None, ts if okt else None)
                ps, ts = outs['ndarray']
                if ps is not None:
                    try:
                        sd, sv, sa = ps
                        check_vec(r, 'a.sd', base, sd, sd_ref, 0, at_u, 'S_d vs max|u|')
                        sdg = np.asarray(sd, dtype=float)
                        check_vec(r, 'b.psv', base, sv, np.where(np.array(periods) > 0, w * sdg, 0.0), 1e-9, None, 'PSV vs w S_d')
                        check_vec(r, 'b.psa', base, sa, np.where(below, pga, w ** 2 * sdg), 1e-9, None, 'PSA vs w^2 S_d (PGA below 6 dt)')
                    except Exception as e:
                        r.fail('a.pseudo', base, 'malformed result: %s' % e, observed=ps)
                if ts is not None:
                    try:
                        sd, sv, sa = ts
                        check_vec(r, 'c.true-sd', base, sd, sd_ref, 0, at_u, 'true S_d vs max|u|')
                        check_vec(r, 'c.true-sv', base, sv, sv_true, 0, at_v, 'true S_v vs max|v|')
                        check_vec(r, 'c.true-sa', base, sa, np.where(below, pga, sa_true), 0, np.where(below, 1e-12 * pga, at_a), 'true S_a vs max|a_total| (PGA below 6 dt)')
                        if xi == 0 and ps is not None:
                            r.cls('xi=0-true-equals-pseudo')
                            check_vec(r, 'c.true-equals-pseudo-at-xi0', base, sa, np.asarray(ps[2], dtype=float), 1e-7, None, 'true S_a vs PSA at xi=0')
                    except Exception as e:
                        r.fail('c.true', base, 'malformed result: %s' % e, observed=ts)
                for cname in ('list', 'tuple'):
                    for k, nm in ((0, 'pseudo'), (1, 'true')):
                        g, w0 = outs[cname][k], outs['ndarray'][k]
                        if g is None or w0 is None:
                            continue
                        r.n_cmp += 1
                        try:
                            same = all(np.array_equal(np.asarray(x), np.asarray(y)) for x, y in zip(g, w0)) and len(g) == len(w0)
                        except Exception:
                            same = False
                        if not same:
                            r.fail('d.containers', dict(base, container=cname, fn=nm), '%s spectra differ between %s and ndarray periods' % (nm, cname),
                                   observed=g, expected=w0)
                # ---- f, g: energy spectra (periods > 0 only)
                pos = [j for j, T in enumerate(periods) if T > 0]
                if pos:
                    pp = np.array([periods[j] for j in pos])
                    asig = eqsig.AccSignal(a, dt)
                    want_in = np.array([np.sum(a * series[j][1] * dt) for j in pos])
                    want_in_series = np.array([np.cumsum(a * series[j][1] * dt) for j in pos])
                    want_uke = np.array([np.sum(np.abs(np.diff(0.5 * series[j][1] ** 2))) for j in pos])
                    tolp = np.array([tol[j] for j in pos])
                    pkv = np.array([cpv[j] for j in pos])
                    sub = dict(base, periods_used=[plist[j] for j in pos])
                    ok, ein = r.call('f.input-energy', sub, sdof.calc_input_energy_spectrum, asig, periods=pp, xi=xi)
                    if ok:
                        r.n_cmp += 1
                        try:
                            g = np.asarray(ein, dtype=float)
                            lim = tolp * pkv * pga * dt * n * 1.01 + 1e-300
                            if g.shape != want_in.shape or np.any(np.abs(g - want_in) > lim):
                                r.fail('f.input-energy', sub, 'input energy != sum(a v dt) over the response series', observed=g, expected=want_in)
                            r.n_cmp += 1
                            if np.any(want_in > 1e-9 * pga ** 2):
                                r.cls('energy>0')
                            neg = g < -1e-12 * pga ** 2 - lim
                            for j in np.flatnonzero(neg):
                                r.fail('g.input-energy-nonnegative', dict(base, period_dt=plist[pos[j]]),
                                       'input energy at the end of the record is negative: %.6g' % g[j], err=float(-g[j] / pga ** 2), observed=g)
                        except Exception as e:
                            r.fail('f.input-energy', sub, 'malformed result: %s' % e, observed=ein)
                    ok, eins = r.call('f.input-energy-series', sub, sdof.calc_input_energy_spectrum, asig, periods=pp, xi=xi, series=True)
                    if ok:
                        r.n_cmp += 1
                        try:
                            g = np.asarray(eins, dtype=float)
                            lim = (tolp * pkv * pga * dt * n * 1.01 + 1e-300)[:, None]
                            if g.shape != want_in_series.shape or np.any(np.abs(g - want_in_series) > lim):
                                r.fail('f.input-energy-series', sub, 'running input energy != cumulative sum(a v dt)', observed=g, expected=want_in_series)
                        except Exception as e:
                            r.fail('f.input-energy-series', sub, 'malformed result: %s' % e, observed=eins)
                    ok, uke = r.call('f.kinetic-energy', sub, sdof.calc_resp_uke_spectrum, asig, periods=pp, xi=xi)
                    if ok:
                        r.n_cmp += 1
                        try:
                            g = np.asarray(uke, dtype=float)
                            lim = 2 * tolp * pkv ** 2 * n * 1.01 + 1e-300
                            if g.shape != want_uke.shape or np.any(np.abs(g - want_uke) > lim):
                                r.fail('f.kinetic-energy', sub, 'kinetic-energy spectrum != sum|delta(v^2/2)| over the response series', observed=g, expected=want_uke)
                        except Exception as e:
                            r.fail('f.kinetic-energy', sub, 'malformed result: %s' % e, observed=uke)
            # ---- e: object path
            if desc:
                r.cls('object-descending-periods')
            raw_ok, raw = r.call('e.object', base, sdof.pseudo_response_spectra, a, dt, np.array(periods), xi)
            tmin = min(fr(p) for p in plist if fr(p) > 0) * fr(dts)
            for mdr in MDR:
                sub = dict(base, min_dt_ratio=mdr)
                target = max(tmin / 20, fr(dts) / mdr)
                f_exact = 1 if target >= fr(dts) else int(math.ceil(fr(dts) / target))
                r.cls('refined-f>1' if f_exact > 1 else 'unrefined-f=1')

                def obj():
                    s = eqsig.AccSignal(a, dt, response_times=np.array(periods))
                    s.gen_response_spectrum(xi=xi, min_dt_ratio=mdr)
                    return s.s_d, s.s_v, s.s_a
                ok, got = r.call('e.object', sub, obj)
                if not ok:
                    continue
                r.transitions += 1
                try:
                    got = [np.asarray(x, dtype=float) for x in got]
                    assert all(x.shape == (len(periods),) for x in got), 'one entry per period expected'
                except Exception as e:
                    r.fail('e.object', sub, 'malformed result: %s' % e, observed=got)
                    continue
                # candidates the statement allows
                cands = []
                for f in (f_exact, f_exact + 1):
                    if f == 1:
                        cands.append((f, 'none', a, dt))
                        continue
                    t_f = np.arange((n - 1) * f + 1) / f
                    a_f = np.interp(t_f, np.arange(n), a)
                    cands.append((f, 'none', a_f, dt / f))
                    cands.append((f, 'hold-last', np.concatenate([a_f, np.full(f - 1, a[-1])]), dt / f))
                match = False
                refs = []
                for f, tail, a_f, dt_f in cands:
                    okc, sp = r.call('e.object', dict(sub, f=f, tail=tail), sdof.pseudo_response_spectra, a_f, dt_f, np.array(periods), xi)
                    if not okc:
                        continue
                    sp = [np.asarray(x, dtype=float) for x in sp]
                    # the spectral-acceleration switch T < 6 dt uses the step the spectrum was integrated at
                    refs.append((f, tail, sp))
                    if all(x.shape == y.shape and np.all(np.abs(x - y) <= 1e-9 * np.abs(y) + 1e-300) for x, y in zip(got, sp)):
                        match = True
                        break
                r.n_cmp += 1
                if not match:
                    r.fail('e.object-equals-array-on-refined-record', sub,
                           's_d/s_v/s_a differ from the array functions applied to the record refined by f=%d (or %d)' % (f_exact, f_exact + 1),
                           observed=got, expected=[(f, t, [x.tolist() for x in sp]) for f, t, sp in refs][:2])
                if raw_ok:
                    r.n_cmp += 1
                    try:
                        raw_sd = np.asarray(raw[0], dtype=float)
                        # "never below the values computed from the raw samples" (to the accuracy of the series)
                        if np.any(got[0] < raw_sd - 1.01 * np.maximum(tol, 1e-12) * np.maximum(raw_sd, got[0]) - 1e-300):
                            r.fail('e.object-not-below-raw', sub, 's_d of the object is below the value computed from the raw samples',
                                   observed=got[0], expected=raw_sd)
                    except Exception as e:
                        r.fail('e.object-not-below-raw', sub, 'malformed: %s' % e)
            # lazy default path: s_a with xi=0.05, min_dt_ratio=4 equals the explicit call
            if xi == 0.05:
                def lazy():
                    s = eqsig.AccSignal(a, dt, response_times=np.array(periods))
                    return s.s_d, s.s_v, s.s_a

                def explicit():
                    s = eqsig.AccSignal(a, dt, response_times=np.array(periods))
                    s.gen_response_spectrum(xi=0.05, min_dt_ratio=4)
                    return s.s_d, s.s_v, s.s_a
                ok1, g1 = r.call('e.object-lazy', base, lazy)
                ok2, g2 = r.call('e.object-lazy', base, explicit)
                if ok1 and ok2:
                    r.n_cmp += 1
                    try:
                        if not all(np.array_equal(np.asarray(x), np.asarray(y)) for x, y in zip(g1, g2)):
                            r.fail('e.object-lazy', base, 'lazy s_d/s_v/s_a differ from gen_response_spectrum(xi=0.05, min_dt_ratio=4)', observed=g1, expected=g2)
                    except Exception as e:
                        r.fail('e.object-lazy', base, 'malformed: %s' % e)
                # one object asked for every min_dt_ratio in turn (spectra already cached by a lazy read; damping left at the object's
                # own value): each request is answered like a fresh object asked once, through both spellings of the method
                for meth in ('gen_response_spectrum', 'generate_response_spectrum'):
                    for order in (tuple(MDR), tuple(reversed(MDR))):
                        def walk():
                            s = eqsig.AccSignal(a, dt, response_times=np.array(periods))
                            s.s_a
                            out = []
                            for m_ in order:
                                getattr(s, meth)(min_dt_ratio=m_)
                                out.append((np.array(s.s_d), np.array(s.s_v), np.array(s.s_a)))
                            return out

                        def singles():
                            out = []
                            for m_ in order:
                                s = eqsig.AccSignal(a, dt, response_times=np.array(periods))
                                s.gen_response_spectrum(xi=0.05, min_dt_ratio=m_)
                                out.append((np.array(s.s_d), np.array(s.s_v), np.array(s.s_a)))
                            return out
                        sub = dict(base, method=meth, min_dt_ratio_sequence=list(order))
                        ok1, g1 = r.call('e.object-sequence', sub, walk)
                        ok2, g2 = r.call('e.object-sequence', sub, singles)
                        if ok1 and ok2:
                            r.n_cmp += 1
                            r.cls('object-min_dt_ratio-sequence')
                            try:
                                bad = [order[k] for k in range(len(order))
                                       if not all(np.asarray(x).shape == np.asarray(y).shape and
                                                  np.all(np.abs(np.asarray(x, dtype=float) - np.asarray(y, dtype=float)) <= 1e-9 * np.abs(y) + 1e-300)
                                                  for x, y in zip(g1[k], g2[k]))]
                                if bad:
                                    r.fail('e.object-sequence', sub, 'spectra after %s(min_dt_ratio=%s) on an object with cached spectra differ from '
                                           'a fresh object asked once' % (meth, bad[0]), observed=g1, expected=g2)
                            except Exception as e:
                                r.fail('e.object-sequence', sub, 'malformed: %s' % e)
                # one object asked for several dampings in turn, the argument-free call (documented default 5 %) and the lazy
                # read in between: each request is answered like a fresh object asked once with that damping
                for meth in ('gen_response_spectrum', 'generate_response_spectrum'):
                    for order in ((0.2, None, 0.0, 0.05, 0.7, None), (None, 0.7, 0.05, 0.2, 0.2, None)):
                        def xwalk():
                            s = eqsig.AccSignal(a, dt, response_times=np.array(periods))
                            out = []
                            for x_ in order:
                                if x_ is None:
                                    getattr(s, meth)()
                                else:
                                    getattr(s, meth)(xi=x_)
                                out.append((np.array(s.s_d), np.array(s.s_v), np.array(s.s_a)))
                            return out

                        def xsingles():
                            out = []
                            for x_ in order:
                                s = eqsig.AccSignal(a, dt, response_times=np.array(periods))
                                if x_ is not None:
                                    s.gen_response_spectrum(xi=x_)
                                out.append((np.array(s.s_d), np.array(s.s_v), np.array(s.s_a)))
                            return out
                        sub = dict(base, method=meth, xi_sequence=['default' if x_ is None else x_ for x_ in order])
                        ok1, g1 = r.call('e.object-xi-sequence', sub, xwalk)
                        ok2, g2 = r.call('e.object-xi-sequence', sub, xsingles)
                        if ok1 and ok2:
                            r.n_cmp += 1
                            r.cls('object-xi-sequence')
                            try:
                                bad = [k for k in range(len(order))
                                       if not all(np.asarray(x).shape == np.asarray(y).shape and
                                                  np.all(np.abs(np.asarray(x, dtype=float) - np.asarray(y, dtype=float)) <= 1e-9 * np.abs(y) + 1e-300)
                                                  for x, y in zip(g1[k], g2[k]))]
                                if bad:
                                    r.fail('e.object-xi-sequence', sub, 'spectra after request %d of the sequence (%s(xi=%s)) on one object differ '
                                           'from a fresh object asked once' % (bad[0] + 1, meth, sub['xi_sequence'][bad[0]]),
                                           observed=g1[bad[0]], expected=g2[bad[0]])
                            except Exception as e:
                                r.fail('e.object-xi-sequence', sub, 'malformed: %s' % e)
    # ---- e (continued): the same object after its record has been replaced / edited: the spectra are those of the new record
    for plist in (PLISTS[1], PLISTS[5]):
        periods = np.array([float(fr(p) * fr(dts)) for p in plist])
        for mname, mut in (('reset_values', lambda s_: s_.reset_values(a[::-1] * 2.5)), ('add_constant', lambda s_: s_.add_constant(0.75))):
            sub = {'rec': rec, 'dt': dts, 'periods_dt': list(plist), 'after': mname}

            def reused():
                s_ = eqsig.AccSignal(a, dt, response_times=periods.copy())
                first = np.array(s_.s_d)
                mut(s_)
                return first, s_.s_d, s_.s_v, s_.s_a

            def fresh():
                s_ = eqsig.AccSignal(a, dt, response_times=periods.copy())
                mut(s_)
                f_ = eqsig.AccSignal(np.array(s_.values), dt, response_times=periods.copy())
                return f_.s_d, f_.s_v, f_.s_a
            ok1, g = r.call('e.object-after-edit', sub, reused)
            ok2, w_ = r.call('e.object-after-edit', sub, fresh)
            if ok1 and ok2:
                r.cls('object-after-edit')
                r.n_cmp += 1
                try:
                    if not all(np.asarray(x).shape == np.asarray(y).shape and np.allclose(x, y, rtol=1e-9, atol=0) for x, y in zip(g[1:], w_)):
                        r.fail('e.object-after-edit', sub, 's_d/s_v/s_a read after %s are not those of the edited record' % mname, observed=g[1:], expected=w_)
                except Exception as e:
                    r.fail('e.object-after-edit', sub, 'malformed: %s' % e)
    # ---- d (continued): integer-typed period containers (python ints / integer ndarray, with and without a leading 0) give the
    # same spectra as the same periods given as floats - array functions and object path
    for ints in ((0, 1, 3), (1, 3), (0, 2)):
        if any(p and not (0.2 <= p / dt <= 2e4) for p in ints):
            continue
        fl = np.array(ints, dtype=float)
        for xi in (0.0, 0.05):
            base = {'rec': rec, 'dt': dts, 'periods_s': list(ints), 'xi': xi}
            okp, ps = r.call('d.containers', dict(base, fn='pseudo', container='float-ndarray'), sdof.pseudo_response_spectra, a, dt, fl, xi)
            okt, ts = r.call('d.containers', dict(base, fn='true', container='float-ndarray'), sdof.true_response_spectra, a, dt, fl, xi)

            def obj(periods):
                s = eqsig.AccSignal(a, dt, response_times=periods)
                s.gen_response_spectrum(xi=xi)
                return s.s_d, s.s_v, s.s_a
            oko, os_ = r.call('d.containers', dict(base, fn='object', container='float-ndarray'), obj, fl)
            for cname, conv in (('int-list', list), ('int-tuple', tuple), ('int-ndarray', lambda p: np.array(p, dtype=np.int64))):
                r.cls('container-int')
                for nm, fn, ok0, ref0 in (('pseudo', lambda p: sdof.pseudo_response_spectra(a, dt, p, xi), okp, ps),
                                          ('true', lambda p: sdof.true_response_spectra(a, dt, p, xi), okt, ts),
                                          ('object', obj, oko, os_)):
                    if not ok0 or (nm == 'object' and cname != 'int-ndarray'):
                        continue
                    sub = dict(base, fn=nm, container=cname)
                    ok, g = r.call('d.containers', sub, fn, conv(ints))
                    if not ok:
                        continue
                    r.n_cmp += 1
                    try:
                        same = len(g) == len(ref0) and all(
                            np.asarray(x).shape == np.asarray(y).shape and np.allclose(np.asarray(x, dtype=float), np.asarray(y, dtype=float), rtol=1e-12, atol=0)
                            for x, y in zip(g, ref0))
                    except Exception:
                        same = False
                    if not same:
                        r.fail('d.containers', sub, '%s spectra for integer-typed periods %r differ from the same periods as floats' % (nm, list(ints)),
                               observed=g, expected=ref0)
    # ---- consecutive calls of the SAME SIZE (same record length, same number of periods): first a list without a leading 0, then one
    #      with it (and back).  Whatever is kept between calls of one size, the T = 0 entry is S_d = 0, S_v = 0, S_a = PGA and the other
    #      entries are those of the periods themselves (compared with one-period calls).
    for xi in (0.05, 0.0):
        for nz, z in ((('3', '8', '25'), ('0', '8', '25')), (('20', '2', '100', '5.9'), ('0', '2', '100', '5.9'))):
            p_nz = np.array([float(fr(p) * fr(dts)) for p in nz])
            p_z = np.array([float(fr(p) * fr(dts)) for p in z])
            for fname, fn in (('pseudo', sdof.pseudo_response_spectra), ('true', sdof.true_response_spectra)):
                sub = {'rec': rec, 'dt': dts, 'xi': xi, 'fn': fname, 'sequence': [list(nz), list(z), list(nz)]}
                singles = {}
                okall = True
                for T in sorted(set(p_nz.tolist() + p_z.tolist())):
                    ok, out = r.call('same-size-sequence', dict(sub, single=T / dt), fn, a, dt, np.array([T]), xi)
                    if not ok:
                        okall = False
                        break
                    singles[T] = [float(np.asarray(x, dtype=float)[0]) for x in out]
                if not okall:
                    continue
                for step, pl in (('without-zero', p_nz), ('with-leading-zero', p_z), ('without-zero-again', p_nz)):
                    ok, out = r.call('same-size-sequence', dict(sub, step=step), fn, a, dt, pl.copy(), xi)
                    if not ok:
                        continue
                    r.cls('same-size-sequence')
                    r.n_cmp += 1
                    try:
                        got = [np.asarray(x, dtype=float) for x in out]
                        want = [np.array([singles[T][k] for T in pl.tolist()]) for k in range(3)]
                        scale = [max(float(np.max(np.abs(wk))), 1e-300) for wk in want]
                        bad = [k for k in range(3) if got[k].shape != want[k].shape or
                               not np.all(np.abs(got[k] - want[k]) <= 1e-9 * scale[k])]
                        if bad:
                            r.fail('same-size-sequence', dict(sub, step=step), '%s spectra of a list differ from the one-period calls after a '
                                   'call of the same size with another list (output %d)' % (fname, bad[0]), observed=got[bad[0]], expected=want[bad[0]])
                        if step == 'with-leading-zero':
                            r.expect('same-size-sequence.T=0', dict(sub, step=step),
                                     got[0][0] == 0 and got[1][0] == 0 and abs(got[2][0] - pga) <= 1e-12 * pga,
                                     'T = 0 entry is not S_d = 0, S_v = 0, S_a = PGA', observed=[g[0] for g in got], expected=[0.0, 0.0, pga])
                    except Exception as e:
                        r.fail('same-size-sequence', dict(sub, step=step), 'malformed: %s' % e, observed=out)
        # object path: two objects holding records of the same length, the first without, the second with a leading zero period
        sub = {'rec': rec, 'dt': dts, 'xi': xi, 'fn': 'object', 'sequence': 'AccSignal(periods without 0).s_d, then AccSignal(same length, leading 0).s_d'}

        def two_objects():
            s1 = eqsig.AccSignal(a, dt, response_times=np.array([float(fr(p) * fr(dts)) for p in ('3', '8', '25')]))
            s1.gen_response_spectrum(xi=xi)
            s2 = eqsig.AccSignal(a[::-1].copy() * 0.5, dt, response_times=np.array([float(fr(p) * fr(dts)) for p in ('0', '8', '25')]))
            s2.gen_response_spectrum(xi=xi)
            return np.array(s2.s_d), np.array(s2.s_v), np.array(s2.s_a)
        ok, out = r.call('same-size-sequence', sub, two_objects)
        if ok:
            r.n_cmp += 1
            try:
                r.expect('same-size-sequence.T=0', sub, out[0][0] == 0 and out[1][0] == 0 and abs(out[2][0] - 0.5 * pga) <= 1e-12 * pga,
                         'T = 0 entry of the second object is not S_d = 0, S_v = 0, S_a = PGA', observed=[o[0] for o in out], expected=[0.0, 0.0, 0.5 * pga])
            except Exception as e:
                r.fail('same-size-sequence', sub, 'malformed: %s' % e, observed=out)
    return r


def snippet(case, v):
    s = v.get('sub') or {}
    return ("import numpy as np, eqsig\nfrom eqsig import sdof\nrec = %r; dt = %s; periods = [float(p) * dt for p in %r]; xi = %r\n"
            "print(sdof.pseudo_response_spectra(np.array(rec, float), dt, np.array(periods), xi))\n"
            "print(sdof.true_response_spectra(np.array(rec, float), dt, periods, xi))   # list periods\n"
            "s = eqsig.AccSignal(np.array(rec, float), dt, response_times=np.array(periods)); s.gen_response_spectrum(xi=xi, min_dt_ratio=%r); print(s.s_d, s.s_v, s.s_a)\n"
            "print(sdof.calc_input_energy_spectrum(eqsig.AccSignal(np.array(rec, float), dt), periods=np.array([p for p in periods if p > 0]), xi=xi))\n"
            % (case['rec'], case['dt'], s.get('periods_dt'), s.get('xi'), s.get('min_dt_ratio', 4)))
