"""C07 - Konno-Ohmachi smoothing is a normalised non-negative log-frequency window.

Engine T x G.  A spectrum is a word over {0,1,3}: the amplitudes of the positive Fourier bins
f_k = k/(N dt), k = 1..m, N = 2(m+1) (so the FAS has m+1 = 2, 3, ... bins including zero frequency).
Every word runs under the complete menu {no zero-frequency bin, zero bin with amplitude 0, zero bin
with amplitude 7 (larger than every other amplitude: it must be ignored)} x target sets x bandwidth b
x entry points, against a scalar reference (math.sin / math.log10, weight 1 at f = fc, pair by pair;
column-normalised; weighted mean of |amplitude|).  Consequences are checked directly (range,
constant spectrum, finiteness) or as relations between executions (scaling, phase-invariance,
matrix form = direct form, object path = array path, deprecated argument order).  Bandwidth limits
are checked on the real objects (record synthesised so that its FAS is the amplitude word).
Containers: integer-typed frequency / amplitude / target arrays (array level and through the object), the same
argument arrays for a sequence of calls (unchanged afterwards); ownership: the caller overwrites, in place, the
target array it gave to the constructor / a setter after the smoothed spectrum was read - the object must keep
reporting the same targets, with the Konno-Ohmachi means at the targets it reports.
Third round (hidden tolerances, containers, histories, returned arrays, module-level state, corners): scale factors 2.5,
-2e-9 and 1e+9; targets a relative 1e-7 / 5e-6 next to every Fourier frequency (only exact equality is a coincidence), targets
30 decades away, as many off-grid targets as Fourier frequencies (square weight matrix), the whole frequency axis scaled by 1e-9
(the window depends on frequency ratios only), b = 12.5 next to the smallest and largest b; uint8 / int16 / float32 argument
arrays; the sequence A, A, B, A over target sets / amplitude words / Fourier grids that share length and end values, with the
caller overwriting the returned arrays in place, and default-band calls around an explicit band; get_sig_array_indexes_range on
the amplitude word itself (float64 / int64 / uint8 / float32 / scaled 1e-9); objects that held a record of another length
(smoothed, other band) before reset_values, for records scaled by 1, 1e-9, 1e+6; the deprecated range / points setters.
Fourth round: (1) a query leaves the object unchanged - around every bandwidth / significant-range / custom-matrix query everything
the object reports (record, FAS, targets, smoothed spectrum: the arrays handed out BEFORE the query, kept by reference, and fresh
reads) is compared bit-for-bit with snapshots; (2) orders of reads ('orders' pool cases): an object with a history has its record or
its targets changed by every mutator on the menu, then every order of 1, 2 and 3 distinct reads (Fourier spectrum, its frequencies,
dominant period, custom-matrix form, smoothed spectrum, bandwidth limits, significant range) - every smoothed quantity read on the
way and at the end is that of the record / targets the object holds NOW; (3) in the history family the Fourier spectrum is read
before the smoothed one on a twin object.
"""
import math

import numpy as np

from ..target import eqsig, frequency, im
from ..result import Res
from ..compare import words, snapshot
from ..refs import freq_ref as fr

DT = 0.01
BANDS = (5, 20, 40, 100)
ZEROS = ('none', 'a0=0', 'a0=7')
TSETS = ('none', 'grid', 'off-grid', 'far-outside', 'last-and-1.5x', 'mixed-unsorted')
SCALES = (2.5, -2e-9, 1e9)      # ordinary, negative and tiny, huge (the relation is relative: no absolute level anywhere)
RATIOS = (None, 0.5, 0.9)       # None: the default 0.707
SIG_RATIOS = (None, 2)          # get_sig_freq_range: None = default 15
PHASES = (1, -1, 1j, -1j, (0.6 + 0.8j))
FLOOR = 1e-6                    # amplitudes are O(1): tolerance scale never below this (all-zero spectra)
# containers: (label, Fourier grid, dtype of the frequency array, dtype of the amplitude array, target set, dtype of the targets).
# Grid 'bins' = f_k = k/(N dt) as everywhere else; 'whole-hz' = f_k = k Hz (the grid of a record with N dt = 1 s), which an
# integer-typed array can hold.  Amplitudes over {0,1,3} (and the zero bin 7) are integers anyway.
CONTAINERS = (('int-amplitudes', 'bins', float, np.int64, 'none', None),
              ('int-targets-1..8', 'bins', float, float, 'whole-hz-1..8', np.int64),
              ('int-targets-around-grid', 'bins', float, float, 'whole-hz-around-grid', np.int64),
              ('int-grid-targets-none', 'whole-hz', np.int64, float, 'none', None),
              ('all-int', 'whole-hz', np.int64, np.int64, 'whole-hz-1..8', np.int64),
              ('int-grid-float-targets', 'whole-hz', np.int64, float, 'off-grid', float))
# narrow / unsigned integer and float32 argument arrays (float32 frequencies TOGETHER with float32 targets give float32-accurate
# weights on the unchanged tree - the quotient is formed in float32 - and are not examined)
CONTAINERS += (('uint8-amplitudes', 'bins', float, np.uint8, 'off-grid', float),
               ('float32-amplitudes', 'bins', float, np.float32, 'none', None),
               ('all-uint8', 'whole-hz', np.uint8, np.uint8, 'whole-hz-1..8', np.uint8),
               ('int16-grid-targets-none', 'whole-hz', np.int16, float, 'none', None),
               ('float32-grid-float64-targets', 'whole-hz', np.float32, float, 'off-grid', float),
               ('float32-targets-around-grid', 'bins', float, float, 'whole-hz-around-grid', np.float32))
CONTAINER_ZEROS = ('none', 'a0=7')
# extended target sets / corners: (label, factor on the whole frequency axis, target set), direct and matrix form, b in EXT_BANDS
EXT_BANDS = (5, 12.5, 100)
EXT_SETS = (('near-grid', 1.0, 'near-grid'), ('decades', 1.0, 'decades'), ('square-off-grid', 1.0, 'square-off-grid'),
            ('tiny-frequencies-grid', 1e-9, 'grid'), ('tiny-frequencies-off-grid', 1e-9, 'off-grid'))
NEAR_BELOW, NEAR_ABOVE = 1 - 5e-6, 1 + 1e-7
ABA_BANDS = (5, 100)
HIST_SCALES = (1.0, 1e-9, 1e6)  # records of the objects with a history
WHOLE_HZ = list(range(1, 9))    # whole-Hz targets 1..8 (what np.arange(1, 9) holds)


def build(tier, seed):
    quick = tier == 'quick'
    fam = [(m, (0, 1, 3)) for m in (1, 2, 3, 4, 5, 6, 7)]
    if not quick:
        fam += [(8, (0, 1, 3)), (9, (0, 1, 3)), (15, (0, 1))]
    cases = []
    for m, alpha in fam:
        for w in words(alpha, m, m):
            cases.append({'a': list(w)})
    # orders of reads after a change of the record / the targets: one pool case per (non-zero word, class).  All orders of 3
    # distinct reads over the whole read menu for the shorter words, over READS_DEEP for the next length
    om_full, om_shallow = (1, 2) if quick else (2, 4)
    oc = []
    for m in range(1, om_shallow + 1):
        for w in words((0, 1, 3), m, m, nonzero=True):
            for cname in ('Signal', 'AccSignal'):
                oc.append({'k': 'orders', 'a': list(w), 'cls': cname, 'deep': m <= om_full})
    stride = max(1, len(cases) // len(oc))
    for i, c in enumerate(oc):       # spread over the case list (each costs 0.1 - 0.6 s)
        cases.insert(i * (stride + 1), c)
    return {
        'cases': cases,
        'rule': 'all amplitude words over {0,1,3} on the positive bins of FAS grids with %s bins (incl. zero frequency)%s '
                '(one pool case per word) x zero-frequency bin {absent, amplitude 0, amplitude 7} x target sets %s x b in %s '
                'x entry points {calc_smooth_fa_spectrum, deprecated generate_smooth_fa_spectrum, smoothing matrix + np.dot, '
                'scaled x2.5 / x-2, complex phases, Signal / AccSignal lazy + gen_smooth_fa_spectrum + generate_ + setters, '
                'custom-matrix form, calc_bandwidth_freqs / f_min / f_max / get_sig_freq_range}; + containers %s x zero bin %s x b '
                '(direct and matrix form, the same argument arrays for the whole sequence, unchanged afterwards); + on the objects: '
                'targets given as list / float64 array / strided view / int64 array through the constructor, both setters and '
                'gen_smooth_fa_spectrum, the caller overwriting its array in place after the smoothed spectrum was read; '
                '+ extended target sets %s x zero bin x b in %s (direct and matrix form); + call sequences A, A, B, A with B = other '
                'targets / amplitudes / Fourier grid of the same length and end values, b in %s, returned arrays overwritten in place, '
                'and default band / band=5 / default band; + get_sig_array_indexes_range on the word as float64 / int64 / uint8 / '
                'float32 / x 1e-9; + objects that held another record (2N+1 samples, smoothed, band 5) before reset_values, records '
                'scaled by %s, Signal and AccSignal (up to 8 bins), the Fourier spectrum read before / after the smoothed one; scale '
                'factors %s; + around every bandwidth / significant-range / custom-matrix query: everything the object reports (%s; '
                'the arrays obtained before the query and fresh reads) bit-for-bit unchanged; + orders of reads: for every non-zero word '
                'with up to %d positive bins x {Signal, AccSignal} x mutator in %s (AccSignal also %s) applied to an object with a '
                'history: every order of 1 and 2 distinct reads from %s and of 3 distinct reads (words up to %d bins: the whole menu, '
                'longer: %s), each smoothed quantity judged against the reference for the record / targets held NOW; '
                'non-trivial = word not all zero'
                % ([m + 1 for m, a in fam if len(a) == 3], '' if quick else ' and all words over {0,1} for 16 bins',
                   list(TSETS), list(BANDS), [c[0] for c in CONTAINERS], list(CONTAINER_ZEROS), [e[0] for e in EXT_SETS],
                   list(EXT_BANDS), list(ABA_BANDS), list(HIST_SCALES), list(SCALES), list(WATCHED), om_shallow, list(MUTATORS),
                   list(MUTATORS_ACC), [n for n, k in READS], om_full, list(READS_DEEP)),
        'bounds': {'alphabet': [0, 1, 3], 'bins_incl_zero': [m + 1 for m, a in fam], 'dt': DT, 'bands': BANDS,
                   'target_sets': TSETS, 'zero_bin': ZEROS, 'bandwidth_ratios': [0.707, 0.5, 0.9],
                   'sig_freq_range_ratios': [15, 2],
                   'containers': [[c[0], c[1], np.dtype(c[2]).name, np.dtype(c[3]).name, c[4], np.dtype(c[5]).name if c[5] else None]
                                  for c in CONTAINERS],
                   'container_zero_bin': CONTAINER_ZEROS, 'scale_factors': SCALES,
                   'extended_target_sets': [list(e) for e in EXT_SETS], 'extended_bands': EXT_BANDS,
                   'near_grid_relative_offsets': [NEAR_BELOW - 1, NEAR_ABOVE - 1], 'sequence_bands': ABA_BANDS,
                   'call_sequences': ['A, A, B=targets, A, B=amplitudes, A, B=frequencies, A (B shares length and end values)',
                                      'default band, band=5, default band', 'second call after the returned array was overwritten'],
                   'history_record_scales': HIST_SCALES,
                   'watched_reads_around_queries': WATCHED,
                   'read_orders': {'reads': [n for n, k in READS], 'depth3_reads_longer_words': READS_DEEP,
                                   'mutators': MUTATORS, 'mutators_AccSignal_only': MUTATORS_ACC,
                                   'max_positive_bins_full_depth3': om_full, 'max_positive_bins': om_shallow},
                   'sig_array_containers': ['float64', 'int64', 'uint8', 'float32', 'float64 x 1e-9'],
                   'caller_overwrites_its_target_array_after': ['constructor (every target set)', 'smooth_fa_freqs=',
                                                                'smooth_fa_frequencies=', 'view of a table']},
        'required_classes': ['target-none', 'target-on-grid', 'target-off-grid-inside', 'target-outside',
                             'target-last-bin-and-1.5x', 'target-unsorted-duplicates', 'with-zero-bin', 'without-zero-bin',
                             'zero-bin-amplitude-exceeds-max', 'coincidence', 'constant-spectrum', 'zero-spectrum',
                             'non-constant-spectrum', 'b=5', 'b=20', 'b=40', 'b=100', 'complex-input', 'matrix-form',
                             'custom-matrix-form', 'object-path', 'object-default-targets', 'deprecated-order',
                             'scaling', 'bandwidth-lo<hi', 'bandwidth-lo==hi', 'bandwidth-interior', 'bandwidth-full-range',
                             'smoothed-strictly-inside-range', 'int-typed-targets', 'int-typed-frequencies',
                             'int-typed-amplitudes', 'int-typed-targets-on-object', 'caller-overwrites-target-array',
                             'caller-overwrites-view-base',
                             'ext:near-grid', 'ext:decades', 'ext:square-off-grid', 'ext:tiny-frequencies-grid',
                             'ext:tiny-frequencies-off-grid', 'square-matrix-off-grid', 'b=12.5', 'A-B-A',
                             'default-after-explicit-band', 'sig-array-indexes', 'narrow-or-unsigned-typed-argument',
                             'float32-typed-argument', 'object-with-history', 'object-record-tiny', 'object-record-large',
                             'returned-array-overwritten', 'narrow-typed-targets-on-object', 'deprecated-target-setters',
                             'read-order-after-record-change'] + ['orders:' + n for n in MUTATORS + MUTATORS_ACC],
        'assumptions': ['amplitudes outside {0,1,3} (x scale factors, unit phases) and grids above the bound are not examined',
                        'target frequencies are positive and finite (the window is undefined at 0)',
                        'b only on the menu {5,20,40,100} (+ 12.5 for the extended target sets); frequencies / amplitudes / targets '
                        'passed as float64, int64, uint8, int16 or float32 ndarrays (lists are not accepted by the array-level '
                        'functions; float32 frequencies together with float32 targets are float32-accurate on the unchanged tree and '
                        'are not examined)',
                        'the array Signal.smooth_fa_spectrum hands out is the object\'s own cache on the unchanged tree: it is never '
                        'overwritten by the check (arrays returned by the free functions are)',
                        'the default band is not fixed by the property at array level (default calls are compared with each other); '
                        'on the objects the lazy spectrum after a target change is compared with b = 40',
                        'the object is expected to own its target frequencies for the constructor and the two setters; '
                        'gen_smooth_fa_spectrum(smooth_fa_freqs=array) is NOT followed by an overwrite of the array (it stores the '
                        'caller\'s array on the unchanged tree: reported separately)',
                        'bandwidth limits are checked only for ascending target sets and non-zero spectra, ratio in (0,1)',
                        'object path: the record is synthesised with numpy irfft so that its FAS is the word; the reference '
                        'is evaluated on the fa_freqs / fa_spectrum the object reports (the FAS itself is C06)',
                        'bandwidth limits are judged against the smoothed spectrum the object holds (whose own correctness is '
                        'the "reference" claim); grids with >= 9 bins run the object path as (zero-bin 0, Signal) and '
                        '(zero-bin 7, AccSignal) only',
                        'reference: scalar loop, double precision; comparisons at 1e-10 of the largest amplitude',
                        'orders of reads: the record after a mutator is taken from s.values (what the mutators do to the record is '
                        'not this property), its Fourier spectrum from a FRESH object of the same class holding that record (default '
                        'padding); butter_pass and the mutators built on it need longer records than the enumerated ones and are not '
                        'examined; a mutator that raises on a record is counted as disabled; the lazy smoothed spectrum is compared '
                        'with b = 40',
                        'a query leaves the object unchanged: judged bit-for-bit on values, fa_freqs, fa_spectrum, smooth_fa_freqs, '
                        'smooth_fa_frequencies, smooth_fa_spectrum (arrays held from before the query and fresh reads), dt, npts'],
    }


# ------------------------------------------------------------------------------ reference cache
_W = {}


def grid(m):
    N = 2 * (m + 1)
    return [k / (N * DT) for k in range(m + 1)]


def target_set(name, fpos):
    m = len(fpos)
    if name == 'none':
        return None
    if name == 'grid':
        return list(fpos)
    if name == 'off-grid':
        if m >= 2:
            return [(fpos[i] + fpos[i + 1]) / 2 for i in range(m - 1)]
        return [0.75 * fpos[0], 1.25 * fpos[0]]
    if name == 'far-outside':
        return [1e-3, 1e3]
    if name == 'last-and-1.5x':
        return [fpos[-1], 1.5 * fpos[-1]]
    if name == 'mixed-unsorted':
        return [fpos[-1], 0.5 * fpos[0], fpos[0], fpos[0]]
    if name == 'near-grid':
        # just below / just above every Fourier frequency: nearly, but not, coincident
        return [v for f in fpos for v in (f * NEAR_BELOW, f * NEAR_ABOVE)]
    if name == 'decades':
        return [1e-30, 1e-9, 1e9, 1e30]
    if name == 'square-off-grid':
        return [1.07 * f for f in fpos]
    if name == 'whole-hz-1..8':
        return list(WHOLE_HZ)
    if name == 'whole-hz-around-grid':
        # every whole frequency next to a Fourier frequency (the Fourier frequency itself where it is whole)
        return sorted(set(v for f in fpos for v in (int(math.floor(f)), int(math.ceil(f))) if v >= 1))
    raise KeyError(name)


def ref_matrix(key, fpos, targets, b):
    k = (key, b)
    if k not in _W:
        _W[k] = fr.ko_matrix(fpos, targets, b)
    return _W[k]


def is_ascending(t):
    return all(t[i] < t[i + 1] for i in range(len(t) - 1))


# ------------------------------------------------------------------------------ checks on one result
def check_smoothed(r, sub, sm, ref, apos, targets, fpos, coincide, floor=FLOOR):
    amax = max(apos)
    amin = min(apos)
    ok = r.expect_close('reference', sub, sm, ref, rtol=1e-10, scale=max(float(amax), floor), what='smoothed vs scalar Konno-Ohmachi mean')
    try:
        g = np.asarray(sm, dtype=float)
        if g.shape != (len(targets),):
            raise ValueError('shape %s' % (g.shape,))
    except Exception as e:
        r.fail('finite', sub, 'result is not a real vector of len(targets): %s' % e, observed=sm)
        return False
    fin = bool(np.all(np.isfinite(g)))
    r.expect('finite', sub, fin, 'non-finite smoothed amplitude' + (' (target coincides with a Fourier frequency)' if coincide
                                                                    else ''), observed=sm)
    if not fin:
        return False
    tol = 1e-12 * amax
    r.expect('range', sub, bool(np.all(g >= amin - tol) and np.all(g <= amax + tol)),
             'smoothed amplitude outside [min, max] of the non-zero-frequency amplitudes', observed=sm, expected=(amin, amax))
    if amin == amax:
        r.expect_close('constant', sub, g, [float(amax)] * len(targets), rtol=1e-12, scale=float(amax),
                       what='constant spectrum not reproduced')
    elif bool(np.all(g > amin + 1e-9 * amax) and np.all(g < amax - 1e-9 * amax)):
        r.cls('smoothed-strictly-inside-range')
    return ok


def usable(sm, n):
    """The smoothed spectrum the object holds, as floats, if it is a finite positive-peak vector of length n."""
    try:
        g = np.asarray(sm, dtype=float)
        if g.shape != (n,) or not np.all(np.isfinite(g)) or not np.max(g) > 0:
            return None
        return [float(v) for v in g]
    except Exception:
        return None


WATCHED = ('values', 'fa_freqs', 'fa_spectrum', 'smooth_fa_freqs', 'smooth_fa_frequencies', 'smooth_fa_spectrum')


class Watch(object):
    """Everything the object reports through its public reads, taken BEFORE a query: the arrays the getters hand out are kept by
    reference (as a caller keeps them) next to private byte snapshots.  A query (bandwidth limits, significant range, custom-
    matrix form, ...) does not change what the object reports: afterwards (a) the arrays obtained earlier and (b) fresh reads
    must be bit-for-bit what they were ('unchanged' is exact by its nature)."""

    def __init__(self, s):
        self.s = s
        self.take()

    def take(self):
        self.ok = True
        try:
            self.held = [(n, getattr(self.s, n)) for n in WATCHED]
            self.keep = [snapshot(a) for n, a in self.held]
            self.scal = (self.s.dt, self.s.npts)
        except Exception:
            self.ok = False     # an object that cannot be read is reported by the checks that read it

    def check(self, r, sub, query):
        if not self.ok:
            return True
        r.n_cmp += 1
        bad = []
        try:
            for (n, a), k in zip(self.held, self.keep):
                if snapshot(a) != k:
                    bad.append('the array obtained from .%s before the query was modified' % n)
                b = getattr(self.s, n)
                if b is not a and snapshot(b) != k:
                    bad.append('.%s reports something else after the query' % n)
            if (self.s.dt, self.s.npts) != self.scal:
                bad.append('dt / npts changed')
        except Exception as e:
            bad.append('object cannot be read after the query: %s' % e)
        if bad:
            r.fail('query-leaves-object-unchanged', dict(sub, query=query), '; '.join(bad[:4]),
                   observed=[np.asarray(getattr(self.s, n, None)) for n in ('smooth_fa_spectrum', 'smooth_fa_freqs')],
                   expected='what the object reported before the query')
            self.take()         # judge the next query on its own
            return False
        return True


def bandwidth_checks(r, sub, s, tg, ref, ratio_kw, fn_name):
    """Limits reported for the smoothed spectrum `ref` the object holds (its correctness is the business of the
    'reference' claim): ordered, bracket its peak, and are target frequencies whose smoothed amplitude exceeds
    ratio*max (set-valued on rounding-level ties)."""
    if fn_name == 'get_sig_freq_range':
        ratio = 1.0 / (15 if ratio_kw is None else ratio_kw)
        kw = {} if ratio_kw is None else {'ratio': ratio_kw}
        fns = [('get_sig_freq_range', lambda: frequency.get_sig_freq_range(s, **kw), 'pair')]
    else:
        ratio = 0.707 if ratio_kw is None else ratio_kw
        kw = {} if ratio_kw is None else {'ratio': ratio_kw}
        fns = [('calc_bandwidth_freqs', lambda: im.calc_bandwidth_freqs(s, **kw), 'pair'),
               ('calc_bandwidth_f_min', lambda: im.calc_bandwidth_f_min(s, **kw), 'lo'),
               ('calc_bandwidth_f_max', lambda: im.calc_bandwidth_f_max(s, **kw), 'hi')]
    mx = max(ref)
    lim = mx * ratio
    peaks = [tg[i] for i, v in enumerate(ref) if v >= mx * (1 - 1e-9)]
    not_below = set(tg[i] for i, v in enumerate(ref) if v > lim * (1 - 1e-9))
    above = [tg[i] for i, v in enumerate(ref) if v > lim * (1 + 1e-9)]
    lo = hi = None
    watch = Watch(s)
    for name, fn, kind in fns:
        s2 = dict(sub, fn=name, ratio=ratio)
        ok, out = r.call('bandwidth', s2, fn)
        watch.check(r, s2, name)
        if not ok:
            continue
        if isinstance(out, np.ndarray) and out.size:
            # returned array: the caller overwrites it in place; a second call must give the first answer again
            first = np.array(out)
            out[...] = -1
            ok, again = r.call('bandwidth', s2, fn)
            r.expect('repeatable', s2, ok and isinstance(again, np.ndarray) and again.shape == first.shape
                     and np.array_equal(again, first), 'second call differs after the caller overwrote the first result in place',
                     observed=again, expected=first)
            out = first
        try:
            if kind == 'pair':
                if len(out) != 2:
                    raise ValueError('length %d' % len(out))
                lo, hi = float(out[0]), float(out[1])
                vals = [('lo', lo), ('hi', hi)]
            else:
                if np.ndim(out) != 0:
                    raise ValueError('not a scalar')
                vals = [(kind, float(out))]
                if kind == 'lo':
                    lo = float(out)
                else:
                    hi = float(out)
        except Exception as e:
            r.fail('bandwidth', s2, 'malformed result: %s' % e, observed=out)
            continue
        for which, v in vals:
            r.expect('bandwidth.member', dict(s2, limit=which), v in not_below,
                     'limit is not a target frequency whose smoothed amplitude exceeds ratio*max', observed=v,
                     expected=sorted(not_below))
            if which == 'lo':
                r.expect('bandwidth.brackets-peak', dict(s2, limit=which), any(v <= p for p in peaks),
                         'f_min above the smoothed peak', observed=v, expected=peaks)
            else:
                r.expect('bandwidth.brackets-peak', dict(s2, limit=which), any(v >= p for p in peaks),
                         'f_max below the smoothed peak', observed=v, expected=peaks)
        if kind == 'pair':
            r.expect('bandwidth.ordered', s2, lo <= hi, 'f_min > f_max', observed=(lo, hi))
            r.expect('bandwidth.brackets-peak', s2, any(lo <= p <= hi for p in peaks), 'peak not inside [f_min, f_max]',
                     observed=(lo, hi), expected=peaks)
            if fn_name != 'get_sig_freq_range':
                r.cls('bandwidth-lo<hi' if lo < hi else 'bandwidth-lo==hi')
                if above and (min(above) > min(tg) or max(above) < max(tg)):
                    r.cls('bandwidth-interior')
                else:
                    r.cls('bandwidth-full-range')
    if fn_name != 'get_sig_freq_range' and lo is not None and hi is not None:
        r.expect('bandwidth.ordered', dict(sub, fn='f_min/f_max', ratio=ratio), lo <= hi, 'f_min > f_max', observed=(lo, hi))


def overwrite(arr):
    """The caller re-uses the array it had handed over: new positive values written in place."""
    arr *= 3
    arr += 1


def check_after_overwrite(r, sub, s, tg_before, ref_before, fpos_o, apos_o, band):
    """The caller has overwritten (in place) the array it had passed as target frequencies AFTER the smoothed spectrum was
    read.  The object must report the same targets as before, and what it reports must still be the Konno-Ohmachi mean at
    the targets it reports."""
    r.cls('caller-overwrites-target-array')
    r.transitions += 1
    ok, out = r.call('object', sub, lambda: (np.array(s.smooth_fa_freqs, dtype=float), np.array(s.smooth_fa_frequencies, dtype=float),
                                             np.array(s.smooth_fa_spectrum)))
    if not ok:
        return
    tg2, tg3, sm2 = out
    same = tg2.shape == tg_before.shape and np.array_equal(tg2, tg_before) and tg3.shape == tg_before.shape \
        and np.array_equal(tg3, tg_before)
    r.expect('targets-owned', sub, same, 'the target frequencies the object reports changed when the caller overwrote the array '
             'it had passed earlier', observed=tg2, expected=tg_before)
    try:
        # ref_before: the reference at the targets reported before; evaluated anew if other targets are reported now
        ref = ref_before if same else fr.ko_smooth(fr.ko_matrix(fpos_o, [float(v) for v in tg2], band), apos_o)
    except Exception as e:
        r.fail('object', sub, 'cannot evaluate the reference on the reported targets: %s' % e, observed=tg2)
        return
    r.expect_close('reference', sub, sm2, ref, rtol=1e-10, scale=max(max(apos_o), FLOOR),
                   what='smoothed spectrum vs Konno-Ohmachi mean at the targets the object reports, after the caller overwrote its '
                        'own target array')


def check_matrix(r, s3, M, m, nt, W):
    """Weight matrix: shape, finite, non-negative, unit column sums, reference.  Returns the float matrix or None."""
    try:
        Mg = np.asarray(M, dtype=float)
        if Mg.shape != (m, nt):
            raise ValueError('shape %s, expected %s' % (Mg.shape, (m, nt)))
    except Exception as e:
        r.fail('matrix', s3, 'malformed smoothing matrix: %s' % e, observed=M)
        return None
    r.expect('matrix.finite', s3, bool(np.all(np.isfinite(Mg))), 'non-finite weight', observed=Mg)
    r.expect('matrix.nonneg', s3, bool(np.all(Mg >= 0)), 'negative weight', observed=Mg)
    r.expect_close('matrix.colsum', s3, Mg.sum(axis=0), np.ones(nt), rtol=1e-12, what='weights of one target do not sum to one')
    r.expect_close('matrix.reference', s3, Mg, np.array(W), rtol=1e-10, scale=1.0,
                   what='weights vs normalised [sin(x)/x]^4, x = b log10(f/fc), 1 at f = fc')
    return Mg


def scribble(out):
    """The caller re-uses, in place, an array a function returned to it."""
    if isinstance(out, np.ndarray) and out.flags.writeable and out.size:
        out[...] = -5


def run_extended(r, a, m, fpos, apos):
    """Corners of the quantifier and hidden tolerances, direct and matrix form (see EXT_SETS): targets nearly on the grid, many
    decades away, a square weight matrix, the whole frequency axis scaled by 1e-9; b in EXT_BANDS.  The same argument arrays
    serve all calls of one configuration and must come back unchanged."""
    amax = max(a)
    for zero in CONTAINER_ZEROS:
        for label, fscale, tname in EXT_SETS:
            fp = [f * fscale for f in fpos]
            tl = target_set(tname, fp)
            ff = np.array(([] if zero == 'none' else [0.0]) + fp)
            aa = np.array(([] if zero == 'none' else [7.0]) + apos)
            targets = np.array(tl)
            coincide = any(t in fp for t in tl)
            r.cls('ext:' + label)
            if coincide:
                r.cls('coincidence')
            if len(tl) == m and not coincide:
                r.cls('square-matrix-off-grid')
            snaps = [snapshot(v) for v in (ff, aa, targets)]
            for b in EXT_BANDS:
                r.states += 1
                r.cls('b=%s' % b)
                W = ref_matrix((m, 'x-' + label), fp, tl, b)
                ref = fr.ko_smooth(W, apos)
                sub = {'a': a, 'zero': zero, 'ext': label, 'b': b}
                s1 = dict(sub, entry='calc_smooth_fa_spectrum')
                ok, direct = r.call('reference', s1, frequency.calc_smooth_fa_spectrum, ff, aa, targets, band=b)
                good = ok and check_smoothed(r, s1, direct, ref, apos, tl, fp, coincide)
                s3 = dict(sub, entry='calc_smoothing_matrix_konno_1998')
                ok, M = r.call('matrix', s3, frequency.calc_smoothing_matrix_konno_1998, ff, targets, band=b)
                Mg = check_matrix(r, s3, M, m, len(tl), W) if ok else None
                if Mg is not None and good:
                    r.transitions += 1
                    r.expect_close('matrix==direct', s3, np.dot(np.abs(aa[-m:]), Mg), direct, rtol=1e-10,
                                   scale=max(float(amax), FLOOR), what='np.dot(|amplitudes|, matrix) vs direct form')
            r.expect('arguments-unchanged', {'a': a, 'zero': zero, 'ext': label},
                     [snapshot(v) for v in (ff, aa, targets)] == snaps,
                     'a smoothing function modified one of its argument arrays (frequencies, amplitudes, targets)',
                     observed=(ff, aa, targets))


def run_sequences(r, a, m, fpos, apos):
    """Module-level state and returned arrays.  The calls A, A, B, A, where B differs from A in ONE argument that shares its length and
    its first and last value with A's (target set / amplitude word / Fourier grid; for fewer than three entries: same length
    only); the caller overwrites the arrays the first call returned before it goes on.  Every B is checked against the reference,
    every repetition of A against a private copy of the first result.  Then: default band, explicit band 5, default band."""
    amax = max(a)

    def same_ends(vals, alt, alt_short):
        return [vals[0]] + [alt(v) for v in vals[1:-1]] + [vals[-1]] if len(vals) >= 3 else [alt_short(v) for v in vals]
    T = target_set('off-grid', fpos)
    T2 = same_ends(T, lambda v: 1.01 * v, lambda v: 1.01 * v)
    A2 = same_ends(apos, lambda v: 3.0 - v, lambda v: v + 1.0)
    F2 = same_ends(fpos, lambda v: 1.003 * v, None) if m >= 3 else None
    for zero in CONTAINER_ZEROS:
        f0 = [] if zero == 'none' else [0.0]
        a0 = [] if zero == 'none' else [7.0]
        ff, aa, tg = np.array(f0 + fpos), np.array(a0 + apos), np.array(T)
        tg2, aa2 = np.array(T2), np.array(a0 + A2)
        ff2 = None if F2 is None else np.array(f0 + F2)
        held = [ff, aa, tg, tg2, aa2] + ([] if ff2 is None else [ff2])
        snaps = [snapshot(v) for v in held]
        r.cls('A-B-A')

        def direct(sub, f_, a_, t_, key, fl, al, tl, b, want=None):
            """one direct-form call; checked against the reference (want is None) or against the private copy `want`"""
            ok, out = r.call('reference' if want is None else 'repeatable', sub, frequency.calc_smooth_fa_spectrum, f_, a_, t_, band=b)
            if not ok:
                return None
            if want is None:
                if not check_smoothed(r, sub, out, fr.ko_smooth(ref_matrix(key, fl, tl, b), al), al, tl, fl, False):
                    return None
            else:
                r.transitions += 1
                r.expect_close('repeatable', sub, out, want, rtol=1e-12, scale=max(float(amax), FLOOR),
                               what='calc_smooth_fa_spectrum(A) after a call with B (same length, same end values) and after the '
                                    'caller overwrote the first result in place')
            return out

        def matrix(sub, f_, t_, key, fl, tl, b, want=None):
            ok, M = r.call('matrix' if want is None else 'repeatable', sub, frequency.calc_smoothing_matrix_konno_1998, f_, t_, band=b)
            if not ok:
                return None
            if want is None:
                if check_matrix(r, sub, M, m, len(tl), ref_matrix(key, fl, tl, b)) is None:
                    return None
            else:
                r.transitions += 1
                r.expect_close('repeatable', sub, M, want, rtol=1e-12, scale=1.0,
                               what='calc_smoothing_matrix_konno_1998(A) after a call with B and after the caller overwrote the '
                                    'first result in place')
            return M
        for b in ABA_BANDS:
            r.states += 1
            sub = {'a': a, 'zero': zero, 'b': b, 'sequence': 'A,A,B,A'}
            kA = (m, 'aba-A')
            d1 = direct(dict(sub, call='A', entry='direct'), ff, aa, tg, kA, fpos, apos, T, b)
            M1 = matrix(dict(sub, call='A', entry='matrix'), ff, tg, kA, fpos, T, b)
            if d1 is None or M1 is None:
                continue
            keep_d, keep_M = np.array(d1), np.array(M1)
            scribble(d1)
            scribble(M1)
            # A again at once (a result handed out twice would now hold the caller's values)
            scribble(direct(dict(sub, call='A again', entry='direct'), ff, aa, tg, kA, fpos, apos, T, b, want=keep_d))
            scribble(matrix(dict(sub, call='A again', entry='matrix'), ff, tg, kA, fpos, T, b, want=keep_M))
            # B: other targets
            direct(dict(sub, call='B=targets', entry='direct', B=T2), ff, aa, tg2, (m, 'aba-T2'), fpos, apos, T2, b)
            matrix(dict(sub, call='B=targets', entry='matrix', B=T2), ff, tg2, (m, 'aba-T2'), fpos, T2, b)
            scribble(direct(dict(sub, call='A after B=targets', entry='direct'), ff, aa, tg, kA, fpos, apos, T, b, want=keep_d))
            scribble(matrix(dict(sub, call='A after B=targets', entry='matrix'), ff, tg, kA, fpos, T, b, want=keep_M))
            # B: other amplitudes
            direct(dict(sub, call='B=amplitudes', entry='direct', B=A2), ff, aa2, tg, kA, fpos, A2, T, b)
            scribble(direct(dict(sub, call='A after B=amplitudes', entry='direct'), ff, aa, tg, kA, fpos, apos, T, b, want=keep_d))
            # B: other Fourier grid
            if ff2 is not None:
                direct(dict(sub, call='B=frequencies', entry='direct', B=F2), ff2, aa, tg, (m, 'aba-F2'), F2, apos, T, b)
                matrix(dict(sub, call='B=frequencies', entry='matrix', B=F2), ff2, tg, (m, 'aba-F2'), F2, T, b)
                direct(dict(sub, call='A after B=frequencies', entry='direct'), ff, aa, tg, kA, fpos, apos, T, b, want=keep_d)
                matrix(dict(sub, call='A after B=frequencies', entry='matrix'), ff, tg, kA, fpos, T, b, want=keep_M)
        # default band, explicit band, default band (the default itself is not fixed by the property: first == third)
        r.states += 1
        r.cls('default-after-explicit-band')
        sub = {'a': a, 'zero': zero, 'sequence': 'default band, band=5, default band'}
        for entry, call in (('direct', lambda **kw: frequency.calc_smooth_fa_spectrum(ff, aa, tg, **kw)),
                            ('deprecated-order', lambda **kw: frequency.generate_smooth_fa_spectrum(tg, ff, aa, **kw)),
                            ('matrix', lambda **kw: frequency.calc_smoothing_matrix_konno_1998(ff, tg, **kw))):
            s2 = dict(sub, entry=entry)
            ok, e1 = r.call('repeatable', s2, call)
            if not ok:
                continue
            try:
                keep = np.array(e1, dtype=float)
            except Exception as e:
                r.fail('repeatable', s2, 'malformed result: %s' % e, observed=e1)
                continue
            scribble(e1)
            ok, _ = r.call('repeatable', dict(s2, call='band=5'), call, band=5)
            ok, e3 = r.call('repeatable', dict(s2, call='default again'), call)
            if ok:
                r.transitions += 1
                r.expect_close('repeatable', s2, e3, keep, rtol=1e-12, scale=max(float(np.max(np.abs(keep))), FLOOR),
                               what='default-band call after an explicit band=5 call differs from the default-band call before it')
        r.expect('arguments-unchanged', {'a': a, 'zero': zero, 'sequence': 'A,A,B,A'}, [snapshot(v) for v in held] == snaps,
                 'a smoothing function modified one of its argument arrays (frequencies, amplitudes, targets)', observed=held)


def run_sig_indexes(r, a):
    """frequency.get_sig_array_indexes_range on the amplitude word itself (any non-negative series with a positive peak is a
    possible smoothed spectrum): indices ordered, both above max/ratio, the peak between them - for float64 / int64 / uint8 /
    float32 arrays and the word scaled by 1e-9 (the rule is relative to the peak)."""
    m = len(a)
    mx = max(a)
    if mx <= 0:
        return
    for cname, arr in (('float64', np.array(a, dtype=float)), ('int64', np.array(a, dtype=np.int64)),
                       ('uint8', np.array(a, dtype=np.uint8)), ('float32', np.array(a, dtype=np.float32)),
                       ('float64 x 1e-9', np.array(a, dtype=float) * 1e-9)):
        snap = snapshot(arr)
        for ratio in SIG_RATIOS:
            r.states += 1
            r.cls('sig-array-indexes')
            rt = 15 if ratio is None else ratio
            sub = {'a': a, 'fn': 'get_sig_array_indexes_range', 'container': cname, 'ratio': rt}
            kw = {} if ratio is None else {'ratio': ratio}
            ok, out = r.call('bandwidth', sub, frequency.get_sig_array_indexes_range, arr, **kw)
            if not ok:
                continue
            try:
                if len(out) != 2:
                    raise ValueError('length %d' % len(out))
                i0, i1 = int(out[0]), int(out[1])
                if i0 != out[0] or i1 != out[1] or not (0 <= i0 < m and 0 <= i1 < m):
                    raise ValueError('not indices into the series')
            except Exception as e:
                r.fail('bandwidth', sub, 'malformed result: %s' % e, observed=out)
                continue
            # a[i] * ratio > max, decided on the integers of the word (no level of {0,1,3} is on the limit for ratio 15 or 2)
            above = [i for i in range(m) if a[i] * rt > mx]
            peaks = [i for i in range(m) if a[i] == mx]
            r.expect('bandwidth.member', sub, i0 in above and i1 in above, 'an index whose value does not exceed max/ratio',
                     observed=(i0, i1), expected=above)
            r.expect('bandwidth.ordered', sub, i0 <= i1, 'first index above the last', observed=(i0, i1))
            r.expect('bandwidth.brackets-peak', sub, any(i0 <= p <= i1 for p in peaks), 'peak not inside the index range',
                     observed=(i0, i1), expected=peaks)
        r.expect('arguments-unchanged', {'a': a, 'fn': 'get_sig_array_indexes_range', 'container': cname}, snapshot(arr) == snap,
                 'get_sig_array_indexes_range modified the series it was given', observed=arr)


def run_histories(r, a, m, N, f_all, apos, phases):
    """Objects with a history, records at three absolute levels.  The object first holds ANOTHER record of another length (2N + 1
    samples) with the targets under test, has its FAS and smoothed spectrum read, is smoothed with band 5 and asked for its
    bandwidth; then reset_values(record).  Afterwards: lazy smoothed spectrum == array function on the FAS the object reports
    (default band after the explicit one), gen_smooth_fa_spectrum(band) vs the reference, bandwidth limits (scale-free: relative
    to the smoothed peak) for the records scaled by 1, 1e-9 and 1e+6."""
    fpos = f_all[1:]
    amax = max(a)
    tl = target_set('off-grid', fpos)
    for scale in HIST_SCALES:
        X = np.array([7.0] + [apos[i] * phases[i] for i in range(m)] + [0.0], dtype=complex) * scale / DT
        x = np.fft.irfft(X, n=N)
        other = np.concatenate([3.0 * x[::-1] + scale, x, [2.0 * scale]])
        for cname in ('Signal', 'AccSignal'):
            cls = getattr(eqsig, cname)
            sub = {'a': a, 'a0': 7.0, 'cls': cname, 'targets': 'off-grid', 'history': 'other record of 2N+1 samples smoothed before '
                   'reset_values', 'scale': scale}
            r.states += 1
            r.cls('object-with-history')
            if scale != 1:
                r.cls('object-record-tiny' if scale < 1 else 'object-record-large')

            def build_():
                s_ = cls(other, DT, smooth_fa_freqs=list(tl))
                _ = (s_.fa_spectrum, s_.fa_freqs, np.array(s_.smooth_fa_spectrum))
                s_.gen_smooth_fa_spectrum(band=5)
                try:
                    _ = im.calc_bandwidth_freqs(s_)     # part of the history only (judged below, on the record under test)
                except Exception:
                    pass
                s_.reset_values(x.copy())
                return s_
            # the other order of the first reads after the change of the record (the usual plotting order: Fourier spectrum
            # first, smoothed spectrum second) on a second object with the same history: same smoothed spectrum
            ok, s = r.call('object', dict(sub, order='FAS read before the smoothed spectrum'), build_)
            fas_first = None
            if ok:
                ok, st = r.call('object', dict(sub, order='FAS read before the smoothed spectrum'),
                                lambda: (np.array(s.fa_freqs), np.array(s.fa_spectrum), np.array(s.smooth_fa_spectrum)))
                if ok:
                    fas_first = st[2]
            ok, s = r.call('object', sub, build_)
            if not ok:
                continue
            ok, st = r.call('object', sub, lambda: (np.array(s.smooth_fa_spectrum), np.array(s.fa_freqs), np.array(s.fa_spectrum),
                                                    np.array(s.smooth_fa_freqs, dtype=float)))
            if not ok:
                continue
            lazy, ff_o, fa_o, tg_o = st
            if fas_first is not None:
                r.transitions += 1
                r.cls('read-order-after-record-change')
                r.expect_close('read-order', dict(sub, order='FAS read before the smoothed spectrum'), fas_first, lazy, rtol=1e-12,
                               scale=max(float(np.max(np.abs(fa_o[1:]))) if fa_o.ndim == 1 and fa_o.size > 1 else 0.0, FLOOR * scale),
                               what='smoothed spectrum after reset_values when the Fourier spectrum is read first vs when it is read second')
            if ff_o.ndim != 1 or ff_o.shape != fa_o.shape or len(ff_o) < 2 or ff_o[0] != 0 or np.any(ff_o[1:] <= 0):
                r.fail('object', sub, 'object reports an unusable FAS (not checkable here)', observed=(ff_o, fa_o))
                continue
            fpos_o = [float(v) for v in ff_o[1:]]
            apos_o = [float(abs(v)) for v in fa_o[1:]]
            tg = [float(v) for v in tg_o]
            top = max(max(apos_o), FLOOR * scale)
            r.expect('targets-owned', sub, tg == [float(v) for v in tl], 'the target frequencies changed with the record',
                     observed=tg, expected=tl)
            s1 = dict(sub, entry='smooth_fa_spectrum-lazy')
            ok, arr = r.call('object==array', s1, frequency.calc_smooth_fa_spectrum, ff_o.copy(), fa_o.copy(), tg_o.copy())
            if ok:
                r.transitions += 1
                r.expect_close('object==array', s1, lazy, arr, rtol=1e-12, scale=top,
                               what='Signal.smooth_fa_spectrum after reset_values vs calc_smooth_fa_spectrum on its own FAS')
            held = usable(lazy, len(tg))
            if amax > 0 and held is not None and is_ascending(tg):
                for rk in (RATIOS if scale != 1 else RATIOS[:1]):
                    bandwidth_checks(r, dict(sub, b='default'), s, tg, held, rk, 'bandwidth')
                for rk in (SIG_RATIOS if scale != 1 else SIG_RATIOS[:1]):
                    bandwidth_checks(r, dict(sub, b='default'), s, tg, held, rk, 'get_sig_freq_range')
            for b in (5, 100):
                s2 = dict(sub, b=b, entry='gen_smooth_fa_spectrum')

                def gen():
                    s.gen_smooth_fa_spectrum(band=b)
                    return np.array(s.smooth_fa_spectrum)
                ok, sm = r.call('reference', s2, gen)
                if ok:
                    check_smoothed(r, s2, sm, fr.ko_smooth(fr.ko_matrix(fpos_o, tg, b), apos_o), apos_o, tg, fpos_o, False,
                                   floor=FLOOR * scale)


# ------------------------------------------------------------------------------ orders of reads after a change of the record
# reads of the object: (name, kind).  kind 'fas': unsmoothed quantities (performed, compared with a fresh object holding the same
# record); 'smooth' / 'pair' / 'custom': judged against the Konno-Ohmachi reference for the record the object holds NOW
READS = (('fa_spectrum', 'fas'), ('fa_freqs', 'fas'), ('max_fa_period', 'other'), ('custom-matrix', 'custom'),
         ('smooth_fa_spectrum', 'smooth'), ('calc_bandwidth_freqs', 'pair'), ('get_sig_freq_range', 'pair'))
READS_DEEP = ('fa_spectrum', 'custom-matrix', 'smooth_fa_spectrum', 'calc_bandwidth_freqs')
MUTATORS = ('reset_values', 'reset_values(from 2N+1 samples)', 'add_series', 'add_signal', 'add_constant', 'remove_average',
            'remove_poly(1)', 'running_average(3)',
            # changes of the target frequencies (same number of targets as before, other values), the record stays
            'smooth_fa_freqs=', 'smooth_fa_frequencies=', 'gen_smooth_fa_spectrum(smooth_fa_freqs=, band=40)')
MUTATORS_ACC = ('remove_rolling_average(acceleration)', 'remove_rolling_average(velocity)', 'rebase_displacement',
                'set_zero_residual_displacement')


def read_orders(full_depth3):
    names = [n for n, k in READS]
    out = [(n,) for n in names]
    out += [(p, q) for p in names for q in names if p != q]
    deep = names if full_depth3 else list(READS_DEEP)
    out += [(p, q, t) for p in deep for q in deep for t in deep if len(set((p, q, t))) == 3]
    return out


def run_orders(r, a, cname, full_depth3):
    """One amplitude word, one class.  An object that held ANOTHER record (FAS, smoothed spectrum and bandwidth limits read) has its
    record changed by each mutator of the class; then every order of 1, 2 (all reads) and 3 (READS_DEEP, thorough: all) distinct
    reads.  Whatever the order, every smoothed quantity read is the Konno-Ohmachi mean (b = 40, the lazy default) of the Fourier
    amplitudes of the record the object holds NOW (taken from s.values after the mutator; its FAS from a fresh object with that
    record; weights from the scalar reference), the bandwidth limits are those of that smoothed spectrum, and at the end the arrays
    obtained on the way are still what they were, the targets and the record unchanged."""
    m = len(a)
    N = 2 * (m + 1)
    f_all = grid(m)
    fpos = f_all[1:]
    apos = [float(v) for v in a]
    phases = np.array([PHASES[i % len(PHASES)] for i in range(m)], dtype=complex)
    X = np.array([7.0] + [apos[i] * phases[i] for i in range(m)] + [0.0], dtype=complex) / DT
    x = np.fft.irfft(X, n=N)
    ramp = np.arange(N) * (0.5 * float(np.max(np.abs(x))) / N)
    other = 3.0 * x[::-1] + 4.0 * ramp
    other_long = np.concatenate([other, x, [2.0]])
    tl = target_set('off-grid', fpos)
    cls = getattr(eqsig, cname)
    r.nontrivial += 1

    def mutate(mname):
        """object with a history, then the mutator; returns the object"""
        start = {'reset_values': other, 'reset_values(from 2N+1 samples)': other_long, 'add_series': other, 'add_signal': other,
                 'add_constant': x - 1.5, 'remove_average': x + 2.0, 'remove_poly(1)': x + ramp}.get(mname, x)
        s_ = cls(start.copy(), DT, smooth_fa_freqs=[1.01 * t for t in tl] if 'smooth_fa_freq' in mname else list(tl))
        _ = (s_.fa_spectrum, s_.fa_freqs, s_.smooth_fa_spectrum)
        _ = im.calc_bandwidth_freqs(s_)
        if mname == 'smooth_fa_freqs=':
            s_.smooth_fa_freqs = list(tl)
        elif mname == 'smooth_fa_frequencies=':
            s_.smooth_fa_frequencies = np.array(tl)
        elif mname.startswith('gen_smooth_fa_spectrum'):
            s_.gen_smooth_fa_spectrum(smooth_fa_freqs=np.array(tl), band=40)
        elif mname.startswith('reset_values'):
            s_.reset_values(x.copy())
        elif mname == 'add_series':
            s_.add_series(x - other)
        elif mname == 'add_signal':
            s_.add_signal(eqsig.Signal(x - other, DT))
        elif mname == 'add_constant':
            s_.add_constant(1.5)
        elif mname == 'remove_average':
            s_.remove_average()
        elif mname == 'remove_poly(1)':
            s_.remove_poly(1)
        elif mname == 'running_average(3)':
            s_.running_average(3)
        elif mname == 'remove_rolling_average(acceleration)':
            s_.remove_rolling_average(mtype='acceleration', freq_window=40)
        elif mname == 'remove_rolling_average(velocity)':
            s_.remove_rolling_average(mtype='velocity', freq_window=40)
        elif mname == 'rebase_displacement':
            s_.rebase_displacement()
        elif mname == 'set_zero_residual_displacement':
            s_.set_zero_residual_displacement()
        else:
            raise KeyError(mname)
        return s_
    orders = read_orders(full_depth3)
    for mname in MUTATORS + (MUTATORS_ACC if cname == 'AccSignal' else ()):
        base = {'a': a, 'a0': 7.0, 'cls': cname, 'targets': 'off-grid', 'after': mname}
        # ---- what must hold after the mutator: from the record the object then holds
        try:
            probe = mutate(mname)
            vals_now = np.array(probe.values)
            twin = cls(vals_now.copy(), DT)
            ff_t, fa_t = np.array(twin.fa_freqs), np.array(twin.fa_spectrum)
            if vals_now.ndim != 1 or not np.all(np.isfinite(vals_now)) or ff_t[0] != 0 or len(ff_t) < 2 or len(ff_t) != len(fa_t):
                raise ValueError('unusable record / FAS after the mutator')
        except Exception:
            r.disabled['orders: mutator not applicable to this record (%s)' % mname] += 1
            continue
        fpos_t = [float(v) for v in ff_t[1:]]
        apos_t = [float(abs(v)) for v in fa_t[1:]]
        top = max(apos_t)
        if not top > 0:
            r.disabled['orders: zero spectrum after the mutator (%s)' % mname] += 1
            continue
        W = fr.ko_matrix(fpos_t, tl, 40)
        ref = fr.ko_smooth(W, apos_t)
        Wn = np.array(W)
        mx = max(ref)
        judged_pairs = mx > 1e-6 * top
        r.cls('orders:' + mname)
        lims = {}
        for rname, ratio in (('calc_bandwidth_freqs', 0.707), ('get_sig_freq_range', 1.0 / 15)):
            lim = mx * ratio
            lims[rname] = (ratio, [tl[i] for i, v in enumerate(ref) if v >= mx * (1 - 1e-9)],
                           set(tl[i] for i, v in enumerate(ref) if v > lim * (1 - 1e-9)))

        def do_read(s, rname, kind, sub, got):
            if rname == 'fa_spectrum':
                ok, out = r.call('object', sub, lambda: s.fa_spectrum)
                if ok:
                    r.expect_close('object', sub, out, fa_t, rtol=1e-12, scale=top, what='FAS vs FAS of a fresh object with the same record')
            elif rname == 'fa_freqs':
                ok, out = r.call('object', sub, lambda: s.fa_freqs)
                if ok:
                    r.expect_close('object', sub, out, ff_t, rtol=1e-12, what='FAS frequencies vs those of a fresh object')
            elif rname == 'max_fa_period':
                ok, out = r.call('object', sub, im.max_fa_period, s)
            elif rname == 'custom-matrix':
                ok, out = r.call('matrix==direct', sub, frequency.calc_smooth_fa_spectrum_w_custom_matrix, s, Wn)
                if ok:
                    r.expect_close('matrix==direct', sub, out, ref, rtol=1e-10, scale=top,
                                   what='custom-matrix form (reference weights) vs Konno-Ohmachi mean of the current record')
            elif rname == 'smooth_fa_spectrum':
                ok, out = r.call('reference', sub, lambda: s.smooth_fa_spectrum)
                if ok:
                    r.expect_close('reference', sub, out, ref, rtol=1e-10, scale=top,
                                   what='smoothed spectrum vs Konno-Ohmachi mean of the Fourier amplitudes of the record held now')
            else:
                fn = im.calc_bandwidth_freqs if rname == 'calc_bandwidth_freqs' else frequency.get_sig_freq_range
                if not judged_pairs:
                    try:
                        fn(s)
                    except Exception:
                        pass
                    return
                ok, out = r.call('bandwidth', sub, fn, s)
                if ok:
                    ratio, peaks, not_below = lims[rname]
                    try:
                        if len(out) != 2:
                            raise ValueError('length %d' % len(out))
                        lo, hi = float(out[0]), float(out[1])
                    except Exception as e:
                        r.fail('bandwidth', sub, 'malformed result: %s' % e, observed=out)
                        return
                    r.expect('bandwidth.member', sub, lo in not_below and hi in not_below,
                             'a limit is not a target frequency whose smoothed amplitude (current record) exceeds ratio*max',
                             observed=(lo, hi), expected=sorted(not_below))
                    r.expect('bandwidth.ordered', sub, lo <= hi, 'f_min > f_max', observed=(lo, hi))
                    r.expect('bandwidth.brackets-peak', sub, any(lo <= p_ <= hi for p_ in peaks),
                             'peak of the smoothed spectrum of the current record not inside [f_min, f_max]', observed=(lo, hi),
                             expected=peaks)
                    out = None      # tuples / fresh arrays: nothing of the object's to hold on to
            if ok and isinstance(out, np.ndarray):
                got.append((rname, out, snapshot(out)))
        kinds = dict(READS)
        for order in orders:
            sub = dict(base, reads=list(order))
            r.states += 1
            r.transitions += len(order)
            ok, s = r.call('object', sub, mutate, mname)
            if not ok:
                continue
            got = []
            for i, rname in enumerate(order):
                do_read(s, rname, kinds[rname], dict(sub, read=i, fn=rname), got)
            # ---- afterwards: smoothed spectrum, targets, record; arrays obtained on the way untouched
            s9 = dict(sub, read='final')
            ok, out = r.call('reference', s9, lambda: (s.smooth_fa_spectrum, s.smooth_fa_freqs, s.values))
            if ok:
                r.expect_close('reference', s9, out[0], ref, rtol=1e-10, scale=top,
                               what='smoothed spectrum after the reads vs Konno-Ohmachi mean of the record held now')
                r.expect('targets-owned', s9, snapshot(np.asarray(out[1], dtype=float)) == snapshot(np.array(tl, dtype=float)),
                         'target frequencies changed', observed=out[1], expected=tl)
                r.expect('query-leaves-object-unchanged', s9, snapshot(np.asarray(out[2])) == snapshot(vals_now),
                         'the record changed while it was only read', observed=out[2], expected=vals_now)
            r.n_cmp += 1
            for rname, arr, snap in got:
                if snapshot(arr) != snap:
                    r.fail('query-leaves-object-unchanged', dict(s9, held=rname),
                           'the array obtained from %s was modified by a later read' % rname, observed=arr)
    return r


# ------------------------------------------------------------------------------ one word
def run_case(case):
    r = Res()
    if case.get('k') == 'orders':
        return run_orders(r, case['a'], case['cls'], bool(case.get('deep')))
    a = case['a']
    m = len(a)
    N = 2 * (m + 1)
    f_all = grid(m)
    fpos = f_all[1:]
    amax = max(a)
    if amax > 0:
        r.nontrivial += 1
    if amax == 0:
        r.cls('zero-spectrum')
    elif min(a) == amax:
        r.cls('constant-spectrum')
    else:
        r.cls('non-constant-spectrum')
    apos = [float(v) for v in a]
    phases = np.array([PHASES[i % len(PHASES)] for i in range(m)], dtype=complex)

    # ---------------- array level
    for zero in ZEROS:
        if zero == 'none':
            ff = np.array(fpos)
            aa = np.array(apos)
            ph = phases
            r.cls('without-zero-bin')
        else:
            a0 = 0.0 if zero == 'a0=0' else 7.0
            ff = np.array(f_all)
            aa = np.array([a0] + apos)
            ph = np.concatenate([[-1.0], phases])
            r.cls('with-zero-bin')
            if a0 > amax:
                r.cls('zero-bin-amplitude-exceeds-max')
        for tname in TSETS:
            tl = target_set(tname, fpos)
            tg_ref = fpos if tl is None else tl
            targets = None if tl is None else np.array(tl)
            coincide = any(t in fpos for t in tg_ref)
            for b in BANDS:
                r.states += 1
                r.cls({'none': 'target-none', 'grid': 'target-on-grid', 'far-outside': 'target-outside',
                       'last-and-1.5x': 'target-last-bin-and-1.5x', 'mixed-unsorted': 'target-unsorted-duplicates',
                       'off-grid': 'target-off-grid-inside' if m >= 2 else 'target-off-grid'}[tname])
                r.cls('b=%d' % b)
                if coincide:
                    r.cls('coincidence')
                W = ref_matrix((m, tname), fpos, tg_ref, b)
                ref = fr.ko_smooth(W, apos)
                sub = {'a': a, 'zero': zero, 'targets': tname, 'b': b}
                # direct form
                s1 = dict(sub, entry='calc_smooth_fa_spectrum')
                ok, direct = r.call('reference', s1, frequency.calc_smooth_fa_spectrum, ff.copy(), aa.copy(),
                                    None if targets is None else targets.copy(), band=b)
                good = False
                if ok:
                    good = check_smoothed(r, s1, direct, ref, apos, tg_ref, fpos, coincide)
                # deprecated argument order (targets first)
                r.cls('deprecated-order')
                s2 = dict(sub, entry='generate_smooth_fa_spectrum')
                ok, out = r.call('deprecated-order', s2, frequency.generate_smooth_fa_spectrum,
                                 None if targets is None else targets.copy(), ff.copy(), aa.copy(), band=b)
                if ok:
                    r.expect_close('deprecated-order', s2, out, ref, rtol=1e-10, scale=float(amax),
                                   what='generate_smooth_fa_spectrum(targets, freqs, spectrum) vs reference')
                # matrix form
                r.cls('matrix-form')
                s3 = dict(sub, entry='calc_smoothing_matrix_konno_1998')
                ok, M = r.call('matrix', s3, frequency.calc_smoothing_matrix_konno_1998, ff.copy(),
                               None if targets is None else targets.copy(), band=b)
                if ok:
                    try:
                        Mg = np.asarray(M, dtype=float)
                        if Mg.shape != (m, len(tg_ref)):
                            raise ValueError('shape %s, expected %s' % (Mg.shape, (m, len(tg_ref))))
                    except Exception as e:
                        r.fail('matrix', s3, 'malformed smoothing matrix: %s' % e, observed=M)
                        Mg = None
                    if Mg is not None:
                        fin = bool(np.all(np.isfinite(Mg)))
                        r.expect('matrix.finite', s3, fin, 'non-finite weight', observed=Mg)
                        r.expect('matrix.nonneg', s3, bool(np.all(Mg >= 0)), 'negative weight', observed=Mg)
                        r.expect_close('matrix.colsum', s3, Mg.sum(axis=0), np.ones(len(tg_ref)), rtol=1e-12,
                                       what='weights of one target do not sum to one')
                        r.expect_close('matrix.reference', s3, Mg, np.array(W), rtol=1e-10, scale=1.0,
                                       what='weights vs normalised [sin(x)/x]^4, x = b log10(f/fc), 1 at f = fc')
                        if good:
                            r.transitions += 1
                            r.expect_close('matrix==direct', s3, np.dot(np.abs(aa[-m:]), Mg), direct, rtol=1e-10,
                                           scale=float(amax), what='np.dot(|amplitudes|, matrix) vs direct form')
                if not good or amax == 0:
                    continue
                # scaling relation
                for c in SCALES:
                    r.cls('scaling')
                    r.transitions += 1
                    s4 = dict(sub, entry='scaled', c=c)
                    ok, out = r.call('scaling', s4, frequency.calc_smooth_fa_spectrum, ff.copy(), c * aa,
                                     None if targets is None else targets.copy(), band=b)
                    if ok:
                        r.expect_close('scaling', s4, out, abs(c) * np.asarray(direct), rtol=1e-12, scale=abs(c) * amax,
                                       what='smooth(c*A) vs |c|*smooth(A)')
                # complex spectrum with the same moduli
                r.cls('complex-input')
                r.transitions += 1
                s5 = dict(sub, entry='complex-phases')
                ok, out = r.call('modulus', s5, frequency.calc_smooth_fa_spectrum, ff.copy(), aa * ph,
                                 None if targets is None else targets.copy(), band=b)
                if ok:
                    r.expect_close('modulus', s5, out, direct, rtol=1e-12, scale=float(amax),
                                   what='complex spectrum with the same moduli gives a different result')

    # ---------------- array level: containers.  Integer-typed frequency / amplitude / target arrays (whole-Hz targets as
    # np.arange(1, 9) holds them, an integer Fourier grid with targets=None, integer amplitudes); the SAME argument arrays serve
    # the whole sequence of calls (all b, direct and matrix form) and must come back unchanged.
    for zero in CONTAINER_ZEROS:
        for label, gkind, fdt, adt, tname, tdt in CONTAINERS:
            fp = fpos if gkind == 'bins' else [float(k) for k in range(1, m + 1)]
            f0 = [] if zero == 'none' else [0.0]
            a0l = [] if zero == 'none' else [7.0]
            ff = np.array(f0 + fp).astype(fdt)
            aa = np.array(a0l + apos).astype(adt)
            tl = target_set(tname, fp)
            tg_ref = fp if tl is None else tl
            targets = None if tl is None else np.array(tl).astype(tdt)
            coincide = any(t in fp for t in tg_ref)
            if tdt is np.int64 or (tl is None and fdt is np.int64):
                r.cls('int-typed-targets')
            if fdt is np.int64:
                r.cls('int-typed-frequencies')
            if adt is np.int64:
                r.cls('int-typed-amplitudes')
            for dt_ in (fdt, adt, tdt):
                if dt_ in (np.uint8, np.int16):
                    r.cls('narrow-or-unsigned-typed-argument')
                if dt_ is np.float32:
                    r.cls('float32-typed-argument')
            if coincide:
                r.cls('coincidence')
            snaps = [snapshot(v) for v in (ff, aa, targets)]
            for b in BANDS:
                r.states += 1
                W = ref_matrix((m, 'c-' + label), fp, tg_ref, b)
                ref = fr.ko_smooth(W, apos)
                sub = {'a': a, 'zero': zero, 'containers': label, 'b': b}
                s1 = dict(sub, entry='calc_smooth_fa_spectrum')
                ok, direct = r.call('reference', s1, frequency.calc_smooth_fa_spectrum, ff, aa, targets, band=b)
                good = ok and check_smoothed(r, s1, direct, ref, apos, tg_ref, fp, coincide)
                s3 = dict(sub, entry='calc_smoothing_matrix_konno_1998')
                ok, M = r.call('matrix', s3, frequency.calc_smoothing_matrix_konno_1998, ff, targets, band=b)
                if ok:
                    try:
                        Mg = np.asarray(M, dtype=float)
                        if Mg.shape != (m, len(tg_ref)):
                            raise ValueError('shape %s, expected %s' % (Mg.shape, (m, len(tg_ref))))
                    except Exception as e:
                        r.fail('matrix', s3, 'malformed smoothing matrix: %s' % e, observed=M)
                        continue
                    r.expect_close('matrix.colsum', s3, Mg.sum(axis=0), np.ones(len(tg_ref)), rtol=1e-12,
                                   what='weights of one target do not sum to one')
                    r.expect_close('matrix.reference', s3, Mg, np.array(W), rtol=1e-10, scale=1.0,
                                   what='weights vs normalised [sin(x)/x]^4, x = b log10(f/fc), 1 at f = fc')
                    if good:
                        r.transitions += 1
                        r.expect_close('matrix==direct', s3, np.dot(np.abs(aa[-m:]), Mg), direct, rtol=1e-10,
                                       scale=max(float(amax), FLOOR), what='np.dot(|amplitudes|, matrix) vs direct form')
            r.expect('arguments-unchanged', {'a': a, 'zero': zero, 'containers': label},
                     [snapshot(v) for v in (ff, aa, targets)] == snaps,
                     'a smoothing function modified one of its argument arrays (frequencies, amplitudes, targets)',
                     observed=(ff, aa, targets))

    # ---------------- array level: corners / hidden tolerances, call sequences, index range (third round)
    run_extended(r, a, m, fpos, apos)
    run_sequences(r, a, m, fpos, apos)
    run_sig_indexes(r, a)

    # ---------------- object level
    if m <= 7:
        run_histories(r, a, m, N, f_all, apos, phases)
    for a0 in (0.0, 7.0):
        X = np.array([a0] + [apos[i] * phases[i] for i in range(m)] + [0.0], dtype=complex) / DT
        x = np.fft.irfft(X, n=N)
        # grids of the thorough tier (>= 9 bins): each zero-bin amplitude with one class instead of both
        for cname in (('Signal', 'AccSignal') if m <= 7 else (('Signal',) if a0 == 0.0 else ('AccSignal',))):
            cls = getattr(eqsig, cname)
            for tname in TSETS:
                tl = target_set(tname, fpos)
                sub = {'a': a, 'a0': a0, 'cls': cname, 'targets': tname}
                r.states += 1
                r.cls('object-path')

                tarr = None if tl is None else np.array(tl)    # the caller's own float64 array: kept, overwritten at the end

                def fresh():
                    if tl is None:
                        s_ = cls(x.copy(), DT)
                    else:
                        s_ = cls(x.copy(), DT, smooth_fa_freqs=tarr)
                    if not fr.is_pow2(N):
                        s_.gen_fa_spectrum(n=N)
                    return s_
                ok, s = r.call('object', sub, fresh)
                if not ok:
                    continue
                ok, st = r.call('object', sub, lambda: (np.array(s.fa_freqs), np.array(s.fa_spectrum),
                                                        np.array(s.smooth_fa_freqs, dtype=float)))
                if not ok:
                    continue
                ff_o, fa_o, tg_o = st
                # the harness' own precondition: the object reports the synthesised spectrum on the stated grid
                if ff_o.shape != (m + 1,) or fa_o.shape != (m + 1,) or not np.array_equal(ff_o, np.array(f_all)) \
                        or not np.allclose(np.abs(fa_o[1:]), apos, rtol=0, atol=1e-9 * max(amax, 1.0)):
                    # FAS differs from the synthesised one (C06's business): evaluate the reference on what the object reports
                    r.disabled['object-fas-differs-from-synthesised'] += 1
                    if ff_o.ndim != 1 or ff_o.shape != fa_o.shape or len(ff_o) < 2 or ff_o[0] != 0 or np.any(ff_o[1:] <= 0):
                        r.fail('object', sub, 'object reports an unusable FAS (not checkable here)', observed=(ff_o, fa_o))
                        continue
                    wkey = None
                else:
                    wkey = (m, 'obj-' + tname)
                fpos_o = [float(v) for v in ff_o[1:]]
                apos_o = [float(abs(v)) for v in fa_o[1:]]
                tg = [float(v) for v in tg_o]
                if tl is None:
                    r.cls('object-default-targets')
                coincide = any(t in fpos_o for t in tg)

                def refb(b):
                    if wkey is None:
                        return fr.ko_smooth(fr.ko_matrix(fpos_o, tg, b), apos_o)
                    return fr.ko_smooth(ref_matrix(wkey, fpos_o, tg, b), apos_o)
                # lazy property: default band on both paths
                s1 = dict(sub, entry='smooth_fa_spectrum-lazy')
                ok, lazy = r.call('object==array', s1, lambda: np.array(s.smooth_fa_spectrum))
                if ok:
                    ok, arr = r.call('object==array', s1, frequency.calc_smooth_fa_spectrum, ff_o.copy(), fa_o.copy(),
                                     tg_o.copy())
                    if ok:
                        r.transitions += 1
                        r.expect_close('object==array', s1, lazy, arr, rtol=1e-12, scale=max(max(apos_o), FLOOR),
                                       what='Signal.smooth_fa_spectrum vs calc_smooth_fa_spectrum on its own FAS')
                    held = usable(lazy, len(tg))
                    if amax > 0 and is_ascending(tg) and held is not None:
                        for rk in RATIOS:
                            bandwidth_checks(r, dict(sub, b='default'), s, tg, held, rk, 'bandwidth')
                        for rk in SIG_RATIOS:
                            bandwidth_checks(r, dict(sub, b='default'), s, tg, held, rk, 'get_sig_freq_range')
                    elif held is None:
                        r.disabled['bandwidth-of-unusable-smoothed-spectrum'] += 1
                    elif amax == 0:
                        r.disabled['bandwidth-of-zero-spectrum'] += 1
                    else:
                        r.disabled['bandwidth-on-unsorted-targets'] += 1
                for b in BANDS:
                    ref = refb(b)
                    s2 = dict(sub, b=b, entry='gen_smooth_fa_spectrum')

                    def gen():
                        s.gen_smooth_fa_spectrum(band=b)
                        return np.array(s.smooth_fa_spectrum)
                    ok, sm = r.call('reference', s2, gen)
                    if not ok:
                        continue
                    check_smoothed(r, s2, sm, ref, apos_o, tg, fpos_o, coincide)
                    ok, arr = r.call('object==array', s2, frequency.calc_smooth_fa_spectrum, ff_o.copy(), fa_o.copy(),
                                     tg_o.copy(), band=b)
                    if ok:
                        r.transitions += 1
                        r.expect_close('object==array', s2, sm, arr, rtol=1e-12, scale=max(max(apos_o), FLOOR),
                                       what='gen_smooth_fa_spectrum(band) vs calc_smooth_fa_spectrum(band)')
                    # custom matrix form on the object
                    r.cls('custom-matrix-form')
                    s3 = dict(sub, b=b, entry='calc_smooth_fa_spectrum_w_custom_matrix')

                    def custom():
                        M = frequency.calc_smoothing_matrix_konno_1998(ff_o.copy(), tg_o.copy(), band=b)
                        return frequency.calc_smooth_fa_spectrum_w_custom_matrix(s, M)
                    watch = Watch(s)
                    ok, cm = r.call('matrix==direct', s3, custom)
                    watch.check(r, s3, 'calc_smooth_fa_spectrum_w_custom_matrix')
                    if ok:
                        r.transitions += 1
                        r.expect_close('matrix==direct', s3, cm, sm, rtol=1e-10, scale=max(max(apos_o), FLOOR),
                                       what='custom-matrix form vs direct form')
                        if b == BANDS[0] and isinstance(cm, np.ndarray) and cm.size:
                            # the caller overwrites the returned array in place; the same call again
                            first = np.array(cm)
                            cm[...] = -5
                            ok, cm2 = r.call('repeatable', s3, custom)
                            if ok:
                                r.cls('returned-array-overwritten')
                                r.expect_close('repeatable', s3, cm2, first, rtol=1e-12, scale=max(max(apos_o), FLOOR),
                                               what='custom-matrix form, second call after the caller overwrote the first result')
                                # RESTRICTED: the array handed out by Signal.smooth_fa_spectrum itself is the object's cache on the
                                # unchanged tree (overwriting it changes what the object reports) - not overwritten here
                    held = usable(sm, len(tg))
                    if b in (5, 100) and amax > 0 and is_ascending(tg) and held is not None:
                        bandwidth_checks(r, dict(sub, b=b), s, tg, held, None, 'bandwidth')
                # generate_smooth_fa_spectrum(band) and explicit target argument
                s4 = dict(sub, b=20, entry='generate_smooth_fa_spectrum-method')

                def gen2():
                    s.generate_smooth_fa_spectrum(band=20)
                    return np.array(s.smooth_fa_spectrum)
                ok, sm = r.call('reference', s4, gen2)
                if ok:
                    r.expect_close('reference', s4, sm, refb(20), rtol=1e-10, scale=max(max(apos_o), FLOOR))
                    if tarr is not None:
                        # the caller re-uses the array it gave to the constructor (the object holds the b=20 spectrum)
                        overwrite(tarr)
                        check_after_overwrite(r, dict(sub, b=20, entry='constructor-array-overwritten-by-caller'), s, tg_o,
                                              refb(20), fpos_o, apos_o, 20)
            # ---- target setters on one object (Signal and AccSignal): the smoothed spectrum follows the targets
            sub = {'a': a, 'a0': a0, 'cls': cname, 'targets': 'setters'}

            def fresh2():
                s_ = cls(x.copy(), DT)
                if not fr.is_pow2(N):
                    s_.gen_fa_spectrum(n=N)
                _ = s_.smooth_fa_spectrum
                return s_
            ok, s = r.call('object', sub, fresh2)
            if not ok:
                continue
            t_off = target_set('off-grid', fpos)
            t_grid = target_set('grid', fpos)
            t_last = target_set('last-and-1.5x', fpos)
            # containers the caller keeps and, once the smoothed spectrum has been read, overwrites in place (third column):
            # float64 arrays, a strided view of a float64 table (the table is overwritten), integer-typed whole-Hz arrays
            arr_grid = np.array(t_grid)
            arr_off = np.array(t_off)
            table = np.array([v for t in t_last for v in (t, 3.0 * t)])
            ints = np.array(WHOLE_HZ, dtype=np.int64)
            ints2 = np.array(WHOLE_HZ, dtype=np.int64)
            u8 = np.array(WHOLE_HZ, dtype=np.uint8)
            u8b = np.array(WHOLE_HZ, dtype=np.uint8)
            f32 = np.array(WHOLE_HZ, dtype=np.float32) + np.float32(0.5)
            steps = [('smooth_fa_freqs=', lambda: setattr(s, 'smooth_fa_freqs', list(t_off)), None),
                     ('smooth_fa_frequencies=', lambda: setattr(s, 'smooth_fa_frequencies', arr_grid), arr_grid),
                     ('smooth_fa_freqs=float64-array', lambda: setattr(s, 'smooth_fa_freqs', arr_off), arr_off),
                     ('smooth_fa_frequencies=view-of-table', lambda: setattr(s, 'smooth_fa_frequencies', table[::2]), table),
                     ('smooth_fa_freqs=int64-array', lambda: setattr(s, 'smooth_fa_freqs', ints), ints),
                     ('set_smooth_fa_frequecies_by_range', lambda: s.set_smooth_fa_frequecies_by_range((0.5, 20.0), 7), None),
                     ('smooth_fa_freqs=uint8-array', lambda: setattr(s, 'smooth_fa_freqs', u8), u8),
                     ('smooth_fa_frequencies=float32-array', lambda: setattr(s, 'smooth_fa_frequencies', f32), f32),
                     ('smooth_fa_freqs=tuple', lambda: setattr(s, 'smooth_fa_freqs', tuple(t_last)), None),
                     # deprecated setters that store targets on the object (range keeps the number of points, points keeps the range)
                     ('smooth_freq_range=(deprecated)', lambda: setattr(s, 'smooth_freq_range', (0.3, 25.0)), None),
                     ('smooth_freq_points=(deprecated)', lambda: setattr(s, 'smooth_freq_points', 5), None),
                     ('gen_smooth_fa_spectrum(smooth_fa_freqs=uint8-array)', lambda: s.gen_smooth_fa_spectrum(
                         smooth_fa_freqs=u8b, band=40), None),
                     # RESTRICTED (no overwrite afterwards): on the unchanged tree gen_smooth_fa_spectrum(smooth_fa_freqs=arr) stores the
                     # caller's array itself, so after `arr *= 2` the object reports the new targets next to the old amplitudes
                     # (reported to the maintainer of this check as a finding; lift the restriction when it is repaired)
                     ('gen_smooth_fa_spectrum(smooth_fa_freqs=)', lambda: s.gen_smooth_fa_spectrum(
                         smooth_fa_freqs=np.array(t_last), band=40), None),
                     ('gen_smooth_fa_spectrum(smooth_fa_freqs=int64-array)', lambda: s.gen_smooth_fa_spectrum(
                         smooth_fa_freqs=ints2, band=40), None)]
            for sname, op, kept in steps:
                s5 = dict(sub, entry=sname)
                r.states += 1

                def step():
                    op()
                    return (np.array(s.smooth_fa_spectrum), np.array(s.smooth_fa_freqs, dtype=float), np.array(s.fa_freqs),
                            np.array(s.fa_spectrum))
                ok, out = r.call('object', s5, step)
                if not ok:
                    break
                sm, tg_o, ff_o, fa_o = out
                try:
                    if ff_o[0] != 0 or len(ff_o) != len(fa_o) or len(ff_o) < 2:
                        raise ValueError('unusable FAS')
                    ref = fr.ko_smooth(fr.ko_matrix([float(v) for v in ff_o[1:]], [float(v) for v in tg_o], 40),
                                       [float(abs(v)) for v in fa_o[1:]])
                except Exception as e:
                    r.fail('object', s5, 'cannot evaluate the reference on the reported FAS/targets: %s' % e,
                           observed=(ff_o, tg_o))
                    continue
                r.expect_close('reference', s5, sm, ref, rtol=1e-10, scale=float(max(np.max(np.abs(fa_o[1:])), 1e-300)),
                               what='smoothed spectrum after changing the target frequencies')
                if 'int64' in sname:
                    r.cls('int-typed-targets-on-object')
                if 'uint8' in sname or 'float32' in sname:
                    r.cls('narrow-typed-targets-on-object')
                if 'deprecated' in sname:
                    r.cls('deprecated-target-setters')
                if kept is not None:
                    overwrite(kept)
                    if kept is table:
                        r.cls('caller-overwrites-view-base')
                    check_after_overwrite(r, dict(s5, then='caller-overwrites-its-array'), s, tg_o, ref,
                                          [float(v) for v in ff_o[1:]], [float(abs(v)) for v in fa_o[1:]], 40)
    return r


def snippet(case, v):
    sub = v.get('sub') or {}
    return ("import numpy as np, eqsig\nfrom eqsig.fns import frequency\n"
            "a = %r; sub = %r\nm = len(a); N = 2 * (m + 1); dt = %r\n"
            "f = np.arange(m + 1) / (N * dt)   # FAS grid incl. zero frequency; a = amplitudes of bins 1..m\n"
            "tsets = {'none': None, 'grid': f[1:], 'off-grid': (f[1:-1] + f[2:]) / 2 if m > 1 else f[1] * np.array([.75, 1.25]),\n"
            "         'far-outside': np.array([1e-3, 1e3]), 'last-and-1.5x': f[-1] * np.array([1, 1.5]),\n"
            "         'mixed-unsorted': np.array([f[-1], f[1] / 2, f[1], f[1]])}\n"
            "t = tsets.get(sub.get('targets')); b = sub.get('b', 40); b = 40 if b == 'default' else b\n"
            "print('targets', t)\n"
            "print('smoothed', frequency.calc_smooth_fa_spectrum(f[1:], np.array(a, float), t, band=b))\n"
            "print('matrix', frequency.calc_smoothing_matrix_konno_1998(f[1:], t, band=b))\n"
            "x = np.fft.irfft(np.array([sub.get('a0', 0.)] + a + [0.]) / dt, n=N)\n"
            "s = eqsig.AccSignal(x, dt) if t is None else eqsig.AccSignal(x, dt, smooth_fa_freqs=t); s.gen_fa_spectrum(n=N)\n"
            "print('object', s.smooth_fa_spectrum, 'bandwidth', eqsig.im.calc_bandwidth_freqs(s))\n"
            "if 'query' in sub:    # a query must leave what the object reports unchanged\n"
            "    s = eqsig.AccSignal(x, dt) if t is None else eqsig.AccSignal(x, dt, smooth_fa_freqs=t)\n"
            "    held = s.smooth_fa_spectrum; before = held.copy(); q = getattr(eqsig.im, sub['query'], None) or getattr(frequency, sub['query'])\n"
            "    q(s); print('smoothed spectrum before the query', before, 'array held from before', held, 'reported now', s.smooth_fa_spectrum)\n"
            "if 'reads' in sub:    # object with a history, record changed (here: reset_values; see sub['after']), then the reads in this order\n"
            "    cls = getattr(eqsig, sub.get('cls', 'Signal')); tt = tsets['off-grid']\n"
            "    s = cls(3 * x[::-1] + np.arange(N), dt, smooth_fa_freqs=tt); s.fa_spectrum; s.smooth_fa_spectrum; s.reset_values(x.copy())\n"
            "    for n in sub['reads']:\n"
            "        getattr(s, n) if hasattr(s, n) else (getattr(eqsig.im, n, None) or getattr(frequency, n, lambda q: q.fa_spectrum))(s)\n"
            "    print('after the reads', s.smooth_fa_spectrum, 'fresh object with the same record', cls(x, dt, smooth_fa_freqs=tt).smooth_fa_spectrum)\n"
            % (case['a'], sub, DT))
