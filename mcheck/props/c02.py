"""C02 - the response operator is linear, causal, shift-, batching- and refinement-invariant.

Engine T x G with a relational oracle: the property is a set of relations between executions
of the real code, so the reference is the relation itself.  All ordered pairs of small records,
all split points, all shifts, all refinement factors 2..8, all permutations and all set
partitions of short period lists are enumerated.
"""
import itertools

import numpy as np

from ..target import eqsig, sdof
from ..result import Res
from ..compare import words

DTS = (0.01, 0.5)
RATIOS = (0.2, 1, 5.9, 6, 20, 100, 1000)
XIS = (0.0, 0.05, 0.5, 0.99)
SCAL = ((1, 1), (2, -3), (-1, 0.5))
EPS = np.finfo(float).eps


def partitions(items):
    """all set partitions of a list (canonical order)"""
    if len(items) == 1:
        yield [items]
        return
    first, rest = items[0], items[1:]
    for p in partitions(rest):
        for i in range(len(p)):
            yield p[:i] + [[first] + p[i]] + p[i + 1:]
        yield [[first]] + p


def build(tier, seed):
    L = 4 if tier == 'quick' else 5
    cases = []
    for w in words((-1, 0, 1), 2, L, nonzero=True):
        cases.append({'kind': 'record', 'a': list(w), 'L': L})
    for dt in DTS:
        for xi in XIS:
            cases.append({'kind': 'batching', 'dt': dt, 'xi': xi})
    # size-dependent code paths (block-wise evaluation, "large problem" fast paths): long sparse records x long period lists,
    # a few hundred thousand to a few million period-samples per call, against the same call cut into small pieces
    for n, m in BIG:
        for xi in (0.0, 0.05):
            cases.append({'kind': 'big', 'n': n, 'm': m, 'xi': xi})
    return {
        'rule_more': 'consecutive spectrum calls of the same size without / with a leading zero period against the single-period results; big-problem family (BIG)',
        'cases': cases,
        'rule': 'record cases: every non-zero record a over {-1,0,1} of length 2..%d x every b of the same length x (alpha,beta) in %s '
                '(linearity); every split point; every shift 1..3 (records starting at 0); every refinement factor 2..8; x dt %s x xi %s x '
                'T/dt %s, observed at response_series, pseudo_response_spectra and true_response_spectra.  batching cases: every '
                'permutation of the positive periods of every sub-list of size <= 4 and every set partition into batches, with/without a '
                'leading 0.  big cases: sparse records of n samples x m log-spaced periods, (n, m) in %s, dt = 0.01: spectra of the '
                'whole list vs the list cut into batches of 7, vs the record delayed by 1 and 7 leading zeros, vs the peaks of the '
                'response-series rows, vs the record refined by 2 (never below).  non-trivial = relation instance whose two sides are not identically zero'
                % (L, list(SCAL), list(DTS), list(XIS), list(RATIOS), [list(b) for b in BIG]),
        'bounds': {'alphabet': [-1, 0, 1], 'max_len': L, 'dt': DTS, 'xi': XIS, 'T_over_dt': RATIOS, 'refinement': [2, 8], 'shifts': [1, 3]},
        'required_classes': ['pair-independent', 'split-changes-tail', 'shift-nonzero-response', 'perm-nonidentity',
                             'partition-multiblock', 'refine', 'leading-zero-period', 'consecutive-calls', 'int-period-container', 'tiny-scale', 'object-history', 'record-number-type',
                             'object-refinement-by-shortest-period', 'big-problem', 'consecutive-spectra-same-size'],
        'assumptions': ['relations are checked between executions of the implementation itself (no reference values needed)',
                        'refinement only where T/(dt/r) <= 2e4 (the domain of C01)'],
    }


def rel_close(r, claim, sub, got, want, rtol, what=''):
    """row-wise: |got-want| <= rtol * peak of the row of want (+ tiny absolute)"""
    r.n_cmp += 1
    try:
        g = np.asarray(got, dtype=float)
        w = np.asarray(want, dtype=float)
        if g.shape != w.shape:
            return r.fail(claim, sub, '%s shape %s != %s' % (what, g.shape, w.shape))
        if not np.all(np.isfinite(g)):
            return r.fail(claim, sub, '%s non-finite' % what, observed=g)
        if w.ndim == 1:
            g = g[None, :]
            w = w[None, :]
            rt = np.atleast_1d(np.asarray(rtol, dtype=float))
        else:
            rt = np.asarray(rtol, dtype=float) * np.ones(w.shape[0])
        pk = np.max(np.abs(w), axis=1)
        d = np.max(np.abs(g - w), axis=1)
        bad = d > rt * pk + 1e-300
        if np.any(bad):
            j = int(np.argmax(bad))
            return r.fail(claim, sub, '%s row %d differs by %.3e (allowed %.3e)' % (what, j, d[j], rt[j] * pk[j]),
                          err=float(d[j] / (rt[j] * pk[j] + 1e-300)), observed=g[j], expected=w[j])
        return True
    except Exception as e:
        return r.fail(claim, sub, '%s malformed result: %s' % (what, e), observed=got)


def run_record(case, r):
    a = np.array(case['a'], dtype=float)
    n = len(a)
    others = [np.array(w, dtype=float) for w in words((-1, 0, 1), n, n, nonzero=True)]
    for dt in DTS:
        periods = np.array([q * dt for q in RATIOS])
        for xi in XIS:
            base = {'a': case['a'], 'dt': dt, 'xi': xi}
            r.states += 1
            ok, ra = r.call('call', base, sdof.response_series, a, dt, periods, xi)
            if not ok:
                continue
            try:
                ra = [np.asarray(x, dtype=float) for x in ra]
                assert all(x.shape == (len(periods), n) for x in ra)
            except Exception as e:
                r.fail('call', base, 'malformed response: %s' % e, observed=ra)
                continue
            oks, spa = r.call('call', base, sdof.pseudo_response_spectra, a, dt, periods, xi)
            okt, sta = r.call('call', base, sdof.true_response_spectra, a, dt, periods, xi)
            nz = bool(np.any(ra[0] != 0))
            w0 = 2 * np.pi / periods
            static = {'u': 1 / w0 ** 2, 'v': 1 / w0, 'a': np.ones_like(w0)}
            # ---- linearity on all ordered pairs
            for b in others:
                indep = not (np.array_equal(a, b) or np.array_equal(a, -b))
                ok, rb = r.call('call', dict(base, b=b.tolist()), sdof.response_series, b, dt, periods, xi)
                if not ok:
                    continue
                for al, be in SCAL:
                    sub = dict(base, b=b.tolist(), alpha=al, beta=be)
                    ok, rc = r.call('linearity', sub, sdof.response_series, al * a + be * b, dt, periods, xi)
                    if not ok:
                        continue
                    r.transitions += 1
                    if indep:
                        r.cls('pair-independent')
                    r.nontrivial += 1 if nz else 0
                    for j, nm in enumerate(('u', 'v', 'a')):
                        try:
                            want = al * ra[j] + be * np.asarray(rb[j], dtype=float)
                            scale_ref = np.abs(al) * np.abs(ra[j]) + np.abs(be) * np.abs(np.asarray(rb[j], dtype=float))
                            g = np.asarray(rc[j], dtype=float)
                            r.n_cmp += 1
                            # where the exact response vanishes at the sample instants (e.g. xi=0, T=dt, constant record) the
                            # row peak is rounding noise; the static response a_max/w^2 (.. a_max/w, a_max) is the scale of
                            # the terms that were actually added up
                            amx = abs(al) * np.max(np.abs(a)) + abs(be) * np.max(np.abs(b))
                            pk = np.maximum(np.max(scale_ref, axis=1), 1e-3 * amx * static[nm])[:, None]
                            if g.shape != want.shape or not np.all(np.abs(g - want) <= 1e-10 * pk + 1e-300):
                                r.fail('linearity.' + nm, sub, 'response(alpha a + beta b) != alpha response(a) + beta response(b)',
                                       observed=g, expected=want)
                        except Exception as e:
                            r.fail('linearity.' + nm, sub, 'malformed result: %s' % e)
            # ---- linearity through ONE signal object: the response belongs to the record the object holds now
            # (response(b) after the object held a and answered the same request; response(a + b) after add_series(b))
            for b in others[:: max(1, len(others) // 8)]:
                sub = dict(base, b=b.tolist(), sequence='AccSignal(a).response_series; reset_values(b) / add_series(b); response_series')
                ok, rb = r.call('call', dict(base, b=b.tolist()), sdof.response_series, b, dt, periods, xi)
                if not ok:
                    continue

                def after_reset():
                    s_ = eqsig.AccSignal(a, dt)
                    s_.response_series(response_times=periods, xi=xi)
                    s_.reset_values(b)
                    return s_.response_series(response_times=periods, xi=xi)

                def after_add():
                    s_ = eqsig.AccSignal(a, dt)
                    s_.response_series(response_times=periods, xi=xi)
                    s_.add_series(b)
                    return s_.response_series(response_times=periods, xi=xi)
                for nm_, fn_, want_ in (('after-reset_values', after_reset, [np.asarray(x, dtype=float) for x in rb]),
                                        ('after-add_series', after_add, [ra[j] + np.asarray(rb[j], dtype=float) for j in range(3)])):
                    ok, got = r.call('linearity.object-history', dict(sub, step=nm_), fn_)
                    if not ok:
                        continue
                    r.transitions += 1
                    r.cls('object-history')
                    amx = np.max(np.abs(a)) + np.max(np.abs(b))
                    for j, nm in enumerate(('u', 'v', 'a')):
                        try:
                            g = np.asarray(got[j], dtype=float)
                            r.n_cmp += 1
                            pk = np.maximum(np.max(np.abs(ra[j]) + np.abs(np.asarray(rb[j], dtype=float)), axis=1), 1e-3 * amx * static[nm])[:, None]
                            if g.shape != want_[j].shape or not np.all(np.abs(g - want_[j]) <= 1e-10 * pk + 1e-300):
                                r.fail('linearity.object-history.' + nm, dict(sub, step=nm_),
                                       'the response of the object is not the response of the record it holds', observed=g, expected=want_[j])
                        except Exception as e:
                            r.fail('linearity.object-history.' + nm, dict(sub, step=nm_), 'malformed result: %s' % e)
            # ---- the record's number type is not part of the map: 1.0 * a (float64) and a held in an unsigned / narrow signed integer
            # array (including the smallest value of the type, whose negation does not exist in the type) have the same response
            if xi in (0.0, 0.05):
                ai = np.array(case['a'], dtype=np.int64)
                for tname, arr in (('uint8 (a+1)', (ai + 1).astype(np.uint8)), ('uint16 (a+1)*30000', ((ai + 1) * 30000).astype(np.uint16)),
                                   ('uint64 (a+1)', (ai + 1).astype(np.uint64)),
                                   ('int16 a*32768 clipped', np.clip(ai * 32768, -32768, 32767).astype(np.int16)),
                                   ('int8 a*128 clipped', np.clip(ai * 128, -128, 127).astype(np.int8))):
                    af_ = arr.astype(float)
                    sub = dict(base, record=tname)
                    ok0, want_ = r.call('call', dict(sub, record=tname + ' as float64'), sdof.response_series, af_, dt, periods, xi)
                    if not ok0:
                        continue
                    r.cls('record-number-type')
                    for ename, fn_ in (('response_series', lambda: sdof.response_series(arr, dt, periods, xi)),
                                       ('object', lambda: eqsig.AccSignal(arr, dt).response_series(response_times=periods, xi=xi)),
                                       ('pseudo_response_spectra', None)):
                        if fn_ is None:
                            ok1, w1 = r.call('call', dict(sub, record=tname + ' as float64'), sdof.pseudo_response_spectra, af_, dt, periods, xi)
                            ok2, g1 = r.call('linearity.number-type', dict(sub, entry=ename), sdof.pseudo_response_spectra, arr, dt, periods, xi)
                            if ok1 and ok2:
                                for j in range(3):
                                    try:
                                        rel_close(r, 'linearity.number-type', dict(sub, entry=ename, out=j), g1[j], np.asarray(w1[j], dtype=float), 1e-10,
                                                  'spectra of the typed record vs the same values as float64')
                                    except Exception as e:
                                        r.fail('linearity.number-type', dict(sub, entry=ename), 'malformed: %s' % e)
                            continue
                        ok, got = r.call('linearity.number-type', dict(sub, entry=ename), fn_)
                        if not ok:
                            continue
                        r.transitions += 1
                        for j, nm in enumerate(('u', 'v', 'a')):
                            try:
                                g = np.asarray(got[j], dtype=float)
                                w_j = np.asarray(want_[j], dtype=float)
                                r.n_cmp += 1
                                pk = np.maximum(np.max(np.abs(w_j), axis=1), 1e-3 * float(np.max(np.abs(af_))) * static[nm])[:, None]
                                if g.shape != w_j.shape or not np.all(np.abs(g - w_j) <= 1e-10 * pk + 1e-300):
                                    r.fail('linearity.number-type.' + nm, dict(sub, entry=ename),
                                           'response(a held as %s) != response(1.0 * a)' % tname, observed=g, expected=w_j)
                            except Exception as e:
                                r.fail('linearity.number-type.' + nm, dict(sub, entry=ename), 'malformed result: %s' % e)
            # ---- spectra scale with |alpha| and ignore the sign
            for al in (-1.0, 2.0, -3.0, 1e-9, 1e9, 1e-160, 1e150):
                if abs(al) != 1 and abs(al) < 1e-3:
                    r.cls('tiny-scale')
                sub = dict(base, alpha=al)
                for nm, fn, ref_ in (('pseudo', sdof.pseudo_response_spectra, spa if oks else None),
                                     ('true', sdof.true_response_spectra, sta if okt else None)):
                    if ref_ is None:
                        continue
                    ok, sp = r.call('spectra-scaling.' + nm, sub, fn, al * a, dt, periods, xi)
                    if ok:
                        r.transitions += 1
                        for j in range(3):
                            try:
                                rel_close(r, 'spectra-scaling.' + nm, dict(sub, out=j), sp[j], abs(al) * np.asarray(ref_[j], dtype=float), 1e-10,
                                          'S(alpha a) vs |alpha| S(a)')
                            except Exception as e:
                                r.fail('spectra-scaling.' + nm, sub, 'malformed: %s' % e)
            # ---- causality: samples from index i on do not affect the response up to i
            for i in range(1, n):
                a2 = a.copy()
                a2[i:] = 7.0
                sub = dict(base, split=i)
                ok, r2 = r.call('causality', sub, sdof.response_series, a2, dt, periods, xi)
                if ok:
                    r.transitions += 1
                    if not np.array_equal(a2, a):
                        r.cls('split-changes-tail')
                    for j, nm in enumerate(('u', 'v')):
                        try:
                            # responses at index <= i-1 depend on samples <= i-1 only; normalise by the peak of the whole row
                            g = np.asarray(r2[j], dtype=float)
                            r.n_cmp += 1
                            pk = np.max(np.abs(ra[j]), axis=1, keepdims=True)
                            if g.shape != ra[j].shape or not np.all(np.abs(g[:, :i] - ra[j][:, :i]) <= 1e-12 * pk + 1e-300):
                                r.fail('causality.' + nm, sub, 'samples from index %d on changed the response before index %d' % (i, i),
                                       observed=g[:, :i] if g.ndim == 2 else g, expected=ra[j][:, :i])
                        except Exception as e:
                            r.fail('causality.' + nm, sub, 'malformed: %s' % e)
            # ---- shift invariance for records that start at zero
            if a[0] == 0:
                for k in (1, 2, 3):
                    sub = dict(base, shift=k)
                    ok, r2 = r.call('shift', sub, sdof.response_series, np.concatenate([np.zeros(k), a]), dt, periods, xi)
                    if ok:
                        r.transitions += 1
                        if nz:
                            r.cls('shift-nonzero-response')
                        for j, nm in enumerate(('u', 'v', 'a')):
                            try:
                                g = np.asarray(r2[j], dtype=float)
                                r.expect('shift.head-zero', sub, g.shape == (len(periods), n + k) and bool(np.all(g[:, :k + 1] == 0)),
                                         'response before the delayed start is not identically zero', observed=g[:, :k + 1] if g.ndim == 2 else g)
                                rel_close(r, 'shift.' + nm, sub, g[:, k:], ra[j], 1e-12, 'delayed response')
                            except Exception as e:
                                r.fail('shift.' + nm, sub, 'malformed: %s' % e)
            # ---- refinement by own linear interpolation (all T/(dt/r) <= 8000 here, inside the domain of C01)
            pk8 = None
            for rf in (8, 2, 3, 4, 5, 6, 7):
                t_f = np.arange((n - 1) * rf + 1) / rf
                a_f = np.interp(t_f, np.arange(n), a)
                sub = dict(base, refine=rf)
                ok, r2 = r.call('refinement', sub, sdof.response_series, a_f, dt / rf, periods, xi)
                if not ok:
                    continue
                r.transitions += 1
                r.cls('refine')
                try:
                    u2 = np.asarray(r2[0], dtype=float)
                    v2 = np.asarray(r2[1], dtype=float)
                    if rf == 8:
                        # peak of the finest refined series = the sub-sampled continuous response (see C01)
                        pk8 = (np.max(np.abs(u2), axis=1), np.max(np.abs(v2), axis=1))
                    pu = np.maximum(np.max(np.abs(u2), axis=1), pk8[0] if pk8 else 0)
                    pv = np.maximum(np.max(np.abs(v2), axis=1), pk8[1] if pk8 else 0)
                    w_ = 2 * np.pi / periods
                    tol = 1e-9 + 10 * EPS / (w_ * dt / rf) ** 3
                    for nm, g, want, pk in (('u', u2[:, ::rf], ra[0], pu), ('v', v2[:, ::rf], ra[1], pv)):
                        r.n_cmp += 1
                        if g.shape != want.shape:
                            r.fail('refinement.' + nm, sub, 'shape %s != %s' % (g.shape, want.shape))
                            continue
                        d = np.max(np.abs(g - want), axis=1)
                        bad = d > tol * pk + 1e-300
                        if np.any(bad):
                            j = int(np.argmax(bad))
                            r.fail('refinement.' + nm, dict(sub, T_over_dt=float(RATIOS[j])),
                                   'response at the original instants changes under refinement by %.3e (allowed %.3e)' % (d[j], tol[j] * pk[j]),
                                   err=float(d[j] / (tol[j] * pk[j] + 1e-300)), observed=g[j], expected=want[j])
                    # spectra never decrease under refinement
                    oks2, sp2 = r.call('refinement.spectra', sub, sdof.pseudo_response_spectra, a_f, dt / rf, periods, xi)
                    if oks2 and oks:
                        r.n_cmp += 1
                        sd2 = np.asarray(sp2[0], dtype=float)
                        sd1 = np.asarray(spa[0], dtype=float)
                        if sd2.shape != sd1.shape or not np.all(sd2 >= sd1 - tol * pu - 1e-300):
                            r.fail('refinement.spectra', sub, 'S_d decreases under refinement', observed=sd2, expected=sd1)
                except Exception as e:
                    r.fail('refinement', sub, 'malformed: %s' % e)

            # ---- refinement through the object: AccSignal refines the record itself (min_dt_ratio) before integrating; its spectra
            # must be those of the array function on the linearly refined record (so they never fall below the raw-sample values)
            if oks:
                # (periods, min_dt_ratio or None for the documented default of 4): the step limit dt/min_dt_ratio decides on the main menu;
                # T_min/20 decides - with a non-integer ratio dt / (T_min/20) - on the three extra period lists
                for periods_o, mdr in ((periods, 2), (periods, 8), (np.array([13 * dt, 50 * dt]), None), (np.array([40 * dt, 15 * dt]), None),
                                       (np.array([17 * dt, 30 * dt]), 8), (np.array([7 * dt, 100 * dt]), None),
                                       # shortest period >= 40 dt: T_min/20 >= 2 dt, the record is integrated at its own step (never coarser)
                                       (np.array([50 * dt, 100 * dt]), None), (np.array([100 * dt, 41 * dt]), 1)):
                    own_menu = periods_o is not periods
                    sub = dict(base, object_min_dt_ratio=mdr)
                    if own_menu:
                        sub['periods_over_dt'] = [float(x) for x in periods_o / dt]
                        r.cls('object-refinement-by-shortest-period')

                    def obj():
                        s_ = eqsig.AccSignal(a, dt, response_times=np.array(periods_o))
                        if mdr is None:
                            s_.gen_response_spectrum(xi=xi)
                        else:
                            s_.gen_response_spectrum(xi=xi, min_dt_ratio=mdr)
                        return s_.s_d, s_.s_v, s_.s_a
                    ok, got = r.call('refinement.object', sub, obj)
                    if not ok:
                        continue
                    if own_menu:
                        ok_, spa_o = r.call('call', sub, sdof.pseudo_response_spectra, a, dt, periods_o, xi)
                        if not ok_:
                            continue
                    else:
                        spa_o = spa
                    r.transitions += 1
                    r.n_cmp += 1
                    try:
                        got = [np.asarray(x, dtype=float) for x in got]
                        match = False
                        target = max(float(np.min(periods_o)) / 20, dt / (mdr or 4))
                        fmin = max(int(np.ceil(dt / target - 1e-9)), 1)
                        for f in range(fmin, fmin + 3):      # the required integer factor (or a finer one)
                            a_f = np.interp(np.arange((n - 1) * f + 1) / f, np.arange(n), a)
                            for tail in (a_f, np.concatenate([a_f, np.full(f - 1, a[-1])])):
                                sp = sdof.pseudo_response_spectra(tail, dt / f, periods_o, xi)
                                if all(np.asarray(x).shape == y.shape and np.all(np.abs(np.asarray(x, dtype=float) - y) <= 1e-9 * np.abs(y) + 1e-300)
                                       for x, y in zip(sp, got)):
                                    match = True
                                    break
                            if match:
                                break
                        if not match:
                            r.fail('refinement.object', sub, 'spectra of the object differ from the array function on the record refined by the '
                                   'integer factor %d (..%d)' % (fmin, fmin + 2), observed=got[0])
                        r.n_cmp += 1
                        w_ = 2 * np.pi / periods_o
                        tol = 1e-9 + 10 * EPS / (w_ * dt / (fmin + 2)) ** 3
                        sd1 = np.asarray(spa_o[0], dtype=float)
                        if not np.all(got[0] >= sd1 - tol * np.maximum(sd1, got[0]) - 1e-300):
                            r.fail('refinement.object', sub, 'S_d of the object is below the value from the raw samples', observed=got[0], expected=sd1)
                    except Exception as e:
                        r.fail('refinement.object', sub, 'malformed: %s' % e)


def run_batching(case, r):
    dt = case['dt']
    xi = case['xi']
    recs = [np.array(w, dtype=float) for w in ((1, 0, -1, 1), (0, 1, 1, 0, -1), (-1, 1))]
    menu = [q * dt for q in (0.2, 5.9, 6, 20, 100)]
    for a in recs:
        single = {}
        for T in menu:
            ok, out = r.call('batching', {'dt': dt, 'xi': xi, 'a': a.tolist(), 'periods': [T]}, sdof.response_series, a, dt, np.array([T]), xi)
            if ok:
                single[T] = [np.asarray(x, dtype=float)[0] for x in out]
            okp, outp = r.call('batching', {'dt': dt, 'xi': xi, 'a': a.tolist(), 'periods': [T], 'fn': 'pseudo'}, sdof.pseudo_response_spectra, a, dt, np.array([T]), xi)
            okt, outt = r.call('batching', {'dt': dt, 'xi': xi, 'a': a.tolist(), 'periods': [T], 'fn': 'true'}, sdof.true_response_spectra, a, dt, np.array([T]), xi)
            if ok and okp and okt:
                single[T] += [float(np.asarray(x)[0]) for x in outp] + [float(np.asarray(x)[0]) for x in outt]
        for size in (1, 2, 3, 4):
            for subset in itertools.combinations(menu, size):
                if any(T not in single or len(single[T]) != 9 for T in subset):
                    continue
                for perm in itertools.permutations(subset):
                    for lead0 in (False, True):
                        plist = ([0.0] if lead0 else []) + list(perm)
                        off = 1 if lead0 else 0
                        sub = {'dt': dt, 'xi': xi, 'a': a.tolist(), 'periods': [p / dt for p in plist]}
                        if list(perm) != sorted(perm):
                            r.cls('perm-nonidentity')
                        if lead0:
                            r.cls('leading-zero-period')
                        r.states += 1
                        r.nontrivial += 1
                        ok, out = r.call('batching.order', sub, sdof.response_series, a, dt, np.array(plist), xi)
                        okp, outp = r.call('batching.order', dict(sub, fn='pseudo'), sdof.pseudo_response_spectra, a, dt, np.array(plist), xi)
                        okt, outt = r.call('batching.order', dict(sub, fn='true'), sdof.true_response_spectra, a, dt, np.array(plist), xi)
                        r.transitions += 1
                        try:
                            if ok and lead0:
                                # the T=0 entry depends on nothing else either: zero displacement and velocity, the sign-flipped record
                                u0, v0, a0 = (np.asarray(out[j], dtype=float)[0] for j in range(3))
                                r.n_cmp += 1
                                if not (np.all(u0 == 0) and np.all(v0 == 0) and np.allclose(a0, -a, rtol=0, atol=1e-15 * np.max(np.abs(a)))):
                                    r.fail('batching.order', dict(sub, row='T=0'), 'the T=0 row is not (0, 0, -record)', observed=(u0, v0, a0))
                            if okp and lead0:
                                r.n_cmp += 1
                                sd0, sv0, sa0 = (float(np.asarray(outp[j], dtype=float)[0]) for j in range(3))
                                if not (sd0 == 0 and sv0 == 0 and abs(sa0 - np.max(np.abs(a))) <= 1e-12 * np.max(np.abs(a))):
                                    r.fail('batching.order', dict(sub, fn='pseudo', row='T=0'), 'the T=0 spectral entries are not (0, 0, PGA)', observed=(sd0, sv0, sa0))
                            if ok:
                                for j in range(3):
                                    g = np.asarray(out[j], dtype=float)[off:]
                                    want = np.array([single[T][j] for T in perm])
                                    rel_close(r, 'batching.order', dict(sub, out=j), g, want, 1e-12, 'row of a period in a list vs alone')
                            if okp:
                                for j in range(3):
                                    g = np.asarray(outp[j], dtype=float)[off:]
                                    want = np.array([single[T][3 + j] for T in perm])
                                    r.n_cmp += 1
                                    if g.shape != want.shape or not np.all(np.abs(g - want) <= 1e-12 * np.abs(want)):
                                        r.fail('batching.order', dict(sub, fn='pseudo', out=j), 'pseudo spectra depend on the order / company of the periods',
                                               observed=g, expected=want)
                            if okt:
                                for j in range(3):
                                    g = np.asarray(outt[j], dtype=float)[off:]
                                    want = np.array([single[T][6 + j] for T in perm])
                                    r.n_cmp += 1
                                    if g.shape != want.shape or not np.all(np.abs(g - want) <= 1e-12 * np.abs(want)):
                                        r.fail('batching.order', dict(sub, fn='true', out=j), 'true spectra depend on the order / company of the periods',
                                               observed=g, expected=want)
                        except Exception as e:
                            r.fail('batching.order', sub, 'malformed: %s' % e)
                # the same periods in an integer-typed container (python ints, int64 array), where they are whole seconds
                if all(float(T).is_integer() for T in subset):
                    for lead0 in (False, True):
                        ints = ([0] if lead0 else []) + [int(T) for T in subset]
                        off = 1 if lead0 else 0
                        for cname, cont in (('int-list', list(ints)), ('int-ndarray', np.array(ints, dtype=np.int64))):
                            sub = {'dt': dt, 'xi': xi, 'a': a.tolist(), 'periods_s': ints, 'container': cname}
                            r.cls('int-period-container')
                            okp, outp = r.call('batching.container', sub, sdof.pseudo_response_spectra, a, dt, cont, xi)
                            okt, outt = r.call('batching.container', sub, sdof.true_response_spectra, a, dt, cont, xi)
                            for okx, outx, base_j, fnn in ((okp, outp, 3, 'pseudo'), (okt, outt, 6, 'true')):
                                if not okx or any(T not in single or len(single[T]) != 9 for T in subset):
                                    continue
                                r.n_cmp += 1
                                try:
                                    good = all(np.allclose(np.asarray(outx[j], dtype=float)[off:], [single[T][base_j + j] for T in subset], rtol=1e-12, atol=0) for j in range(3))
                                except Exception:
                                    good = False
                                if not good:
                                    r.fail('batching.container', dict(sub, fn=fnn), '%s spectra for integer-typed periods differ from the single float-period results' % fnn,
                                           observed=outx)
                # consecutive calls whose period lists share length and end entries but differ inside (a result must depend on
                # its own period only, not on what the previous call happened to compute)
                if size >= 3 and all(T in single and len(single[T]) == 9 for T in menu):
                    for other in menu:
                        if other in subset:
                            continue
                        first_list = list(subset)
                        second_list = [subset[0]] + [other] + list(subset[2:]) if size >= 3 else None
                        for l1, l2 in ((first_list, second_list), (first_list, [subset[0]] + list(subset[1:-1])[::-1] + [subset[-1]])):
                            if l2 is None or l1 == l2:
                                continue
                            sub = {'dt': dt, 'xi': xi, 'a': a.tolist(), 'first_call': [p / dt for p in l1], 'second_call': [p / dt for p in l2]}
                            r.states += 1
                            r.transitions += 1
                            ok1, _ = r.call('batching.consecutive', sub, sdof.response_series, a, dt, np.array(l1), xi)
                            ok2, out2 = r.call('batching.consecutive', sub, sdof.response_series, a, dt, np.array(l2), xi)
                            if ok1 and ok2:
                                r.cls('consecutive-calls')
                                try:
                                    for j in range(3):
                                        rel_close(r, 'batching.consecutive', dict(sub, out=j), np.asarray(out2[j], dtype=float),
                                                  np.array([single[T][j] for T in l2]), 1e-12, 'second of two consecutive calls vs single-period calls')
                                except Exception as e:
                                    r.fail('batching.consecutive', sub, 'malformed: %s' % e)
                # ... and for the spectra: a list without a leading 0, then a list of the SAME length with it
                if size >= 2 and all(T in single and len(single[T]) == 9 for T in subset):
                    l1 = list(subset)
                    lz = [0.0] + list(subset[1:])
                    pga_ = float(np.max(np.abs(a)))
                    for fnn, fn_, base_j in (('pseudo', sdof.pseudo_response_spectra, 3), ('true', sdof.true_response_spectra, 6)):
                        sub = {'dt': dt, 'xi': xi, 'a': a.tolist(), 'fn': fnn, 'first_call': [p / dt for p in l1], 'second_call': [p / dt for p in lz]}
                        r.states += 1
                        r.transitions += 1
                        ok1, _ = r.call('batching.consecutive', sub, fn_, a, dt, np.array(l1), xi)
                        ok2, out2 = r.call('batching.consecutive', sub, fn_, a, dt, np.array(lz), xi)
                        if ok1 and ok2:
                            r.cls('consecutive-spectra-same-size')
                            r.n_cmp += 1
                            try:
                                o2 = [np.asarray(x, dtype=float) for x in out2]
                                good = all(o2[j].shape == (len(lz),) and np.allclose(o2[j][1:], [single[T][base_j + j] for T in lz[1:]], rtol=1e-12, atol=0)
                                           for j in range(3))
                                good0 = good and o2[0][0] == 0 and o2[1][0] == 0 and abs(o2[2][0] - pga_) <= 1e-12 * pga_
                            except Exception:
                                good = good0 = False
                            if not good:
                                r.fail('batching.consecutive', sub, '%s spectra of the second of two same-size calls differ from the single-period results' % fnn, observed=out2)
                            elif not good0:
                                r.fail('batching.consecutive', dict(sub, entry='T=0'), '%s spectra: the T = 0 entry of the second of two same-size calls is not (0, 0, PGA)' % fnn,
                                       observed=[x[0] for x in o2], expected=[0.0, 0.0, pga_])
                # set partitions of the subset into batches (order inside a batch ascending)
                for part in partitions(list(subset)):
                    if len(part) > 1:
                        r.cls('partition-multiblock')
                    sub = {'dt': dt, 'xi': xi, 'a': a.tolist(), 'partition': [[p / dt for p in blk] for blk in part]}
                    r.states += 1
                    r.transitions += 1
                    for blk in part:
                        ok, out = r.call('batching.partition', sub, sdof.response_series, a, dt, np.array(blk), xi)
                        if ok:
                            try:
                                for j in range(3):
                                    rel_close(r, 'batching.partition', dict(sub, out=j), np.asarray(out[j], dtype=float),
                                              np.array([single[T][j] for T in blk]), 1e-12, 'batch vs single')
                            except Exception as e:
                                r.fail('batching.partition', sub, 'malformed: %s' % e)


BIG = ((9000, 40), (9000, 260), (41000, 64), (2100, 1100), (70000, 33))      # up to 2.7e6 period-samples per call


def big_record(n):
    a = np.zeros(n)
    for t, v in ((1, 1.0), (2, -2.0), (3, 0.5), (n // 3, 1.5), (n // 3 + 1, -1.0), (n // 2, 2.0), (n - 40, -1.5), (n - 39, 1.0)):
        a[t] = v
    return a


def run_big(case, r):
    n, m, xi = case['n'], case['m'], case['xi']
    dt = 0.01
    a = big_record(n)
    periods = np.logspace(np.log10(0.07), np.log10(4.0), m)        # all above 6 dt
    r.nontrivial += 1
    r.cls('big-problem')
    base = {'n': n, 'm': m, 'xi': xi, 'dt': dt}
    for fname, fn in (('pseudo', sdof.pseudo_response_spectra), ('true', sdof.true_response_spectra)):
        sub = dict(base, fn=fname)
        r.states += 1
        ok, whole = r.call('big.returns', sub, fn, a, dt, periods, xi)
        if not ok:
            continue
        try:
            whole = [np.asarray(x, dtype=float) for x in whole]
            if any(x.shape != (m,) for x in whole):
                raise ValueError('shapes %r' % ([x.shape for x in whole],))
        except Exception as e:
            r.fail('big.returns', sub, 'malformed result: %s' % e)
            continue
        # (a) each period's result depends on that period only: the list cut into batches of 7
        parts = [[] for _ in whole]
        okb = True
        for k in range(0, m, 7):
            ok, out = r.call('big.batching', dict(sub, batch=[k, min(k + 7, m)]), fn, a, dt, periods[k:k + 7].copy(), xi)
            if not ok:
                okb = False
                break
            for j, x in enumerate(out):
                parts[j].append(np.asarray(x, dtype=float))
        if okb:
            r.transitions += 1
            for j in range(len(whole)):
                rel_close(r, 'big.batching', dict(sub, output=j), whole[j], np.concatenate(parts[j]), 1e-9 * np.ones(1),
                          'whole list vs batches of 7 periods')
        # (b) time shift: leading zeros change nothing in the spectra (the record starts at zero)
        for k in (1, 7):
            ok, out = r.call('big.shift', dict(sub, zeros=k), fn, np.concatenate([np.zeros(k), a]), dt, periods, xi)
            if ok:
                r.transitions += 1
                for j in range(len(whole)):
                    rel_close(r, 'big.shift', dict(sub, zeros=k, output=j), out[j], whole[j], 1e-9 * np.ones(1), 'record delayed by leading zeros')
        # (c) refinement never lowers the spectral displacement
        if fname == 'pseudo' and n * m <= 1000000:
            a2 = np.interp(np.arange(2 * n - 1) / 2.0, np.arange(n), a)
            ok, out = r.call('big.refinement', sub, fn, a2, dt / 2, periods, xi)
            if ok:
                r.transitions += 1
                try:
                    sd2 = np.asarray(out[0], dtype=float)
                    r.expect('big.refinement', sub, bool(np.all(sd2 >= whole[0] * (1 - 1e-6))),
                             'spectral displacement decreases when the record is refined by 2', observed=sd2, expected=whole[0])
                except Exception as e:
                    r.fail('big.refinement', sub, 'malformed: %s' % e)
    # (d) spectra are the peaks of the response series of the same call size
    sub = dict(base, fn='response_series')
    ok, ser = r.call('big.returns', sub, sdof.response_series, a, dt, periods, xi)
    okp, ps = r.call('big.returns', dict(base, fn='pseudo'), sdof.pseudo_response_spectra, a, dt, periods, xi)
    if ok and okp:
        try:
            u = np.asarray(ser[0], dtype=float)
            r.transitions += 1
            rel_close(r, 'big.peak-of-series', sub, np.asarray(ps[0], dtype=float), np.max(np.abs(u), axis=1), 1e-9 * np.ones(1),
                      'S_d vs max|u| of the response series')
            # and the series of a sub-list are the rows of the whole
            ok2, ser2 = r.call('big.batching', dict(sub, batch=[3, 10]), sdof.response_series, a, dt, periods[3:10].copy(), xi)
            if ok2:
                for j in range(3):
                    rel_close(r, 'big.batching', dict(sub, batch=[3, 10], output=j), np.asarray(ser2[j], dtype=float),
                              np.asarray(ser[j], dtype=float)[3:10], 1e-9, 'rows of the whole list vs the sub-list')
        except Exception as e:
            r.fail('big.peak-of-series', sub, 'malformed: %s' % e)


def run_case(case):
    r = Res()
    if case['kind'] == 'big':
        run_big(case, r)
        return r
    if case['kind'] == 'record':
        run_record(case, r)
    else:
        run_batching(case, r)
    return r


def snippet(case, v):
    return ("import numpy as np\nfrom eqsig import sdof\n# relation instance that failed:\nsub = %r\n"
            "# e.g. linearity: sdof.response_series(alpha*a+beta*b, dt, periods, xi) vs alpha*response(a)+beta*response(b)\n" % (v.get('sub'),))
