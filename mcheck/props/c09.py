"""C09 - cumulative intensity measures: definition, monotonicity and scaling laws.

Engine T (input-history tree), exact-rational oracle.

(i)  Quadrature measures.  Every word over {-2..2} of length 2..L is a record.  Under every dt
     of the menu the six series (Arias, CAV, ISV, int|a|, int|v|, unit kinetic energy) are
     computed by the real code (float64 and int64 record) and compared, element by element,
     with the exact running integral; length, monotonicity and the final value are separate
     sub-claims.  Relations between executions: a -> alpha*a (sign reversal, alpha^2 / |alpha|
     scaling) and, for records ending at zero, the tree edges "append k zeros" (acceleration
     based measures unchanged).
(ii) Standardised CAV.  Every word over the level alphabet {0, 0.02 g, -0.03 g, 0.05 g} (both
     sides of the 0.025 g gate, never on it) for every (dt, duration, extra sample)
     configuration of the menu: record length, non-decreasing, 0 <= CAV_dp <= CAV/9.81,
     exactly zero when no one-second window reaches the gate, otherwise between
     sum(window integral - one panel) and sum(window integral) over the qualifying windows.
(iii) Operation histories on ONE object.  "The record" of a signal object is its current record,
     also after `reset_values()`: every measure is a function of (current record, dt) and of nothing
     the object has seen before.  (i) every word of length >= 3 is reached on a reused AccSignal
     along the tree edge from its parent: another record of the parent's length -> measures ->
     reset_values(parent) (same length) -> measures -> reset_values(word) (longer record) -> measures
     -> reset_values(parent as a Python list of ints) (shorter record) -> measures; all six series
     are compared with the exact reference of the CURRENT record.  (ii) for the configurations with at most REUSE_CAP words every word is
     evaluated on one reused AccSignal after a shorter (2 s) and after a one second longer
     record (and those after the word), with the full set of standardised-CAV sub-claims.
     Before every record change of a history the object has had its public stat generators
     (generate_cumulative_stats, generate_duration_stats, generate_all_motion_stats) called and all its
     lazy properties read, and one step of every quadrature history replaces the record by another one of
     the SAME length.
(iv) Ownership of results and call patterns.  A measure is a function of the record, so what the caller
     does with a returned series cannot matter: on the float64 object of every word each measure is called,
     the returned array is overwritten in place, the measure is evaluated on ANOTHER object whose record
     has the same length and the same first and last sample (A-B-A) and then again on the first object -
     the result must be the first one (private copy).  Same for the standardised CAV on the reused object.
(v)  Containers and magnitudes: int64, int8 and (non-negative words) uint8 records; scale factors 1e-9 and
     1e+6 in the scaling relation (the laws are exact power laws, nothing is "close enough to zero").
(vi) Exact tie on the standardised-CAV gate: the level t = fl(0.025*9.81) m/s2 satisfies fl(t/9.81) == 0.025
     bit for bit (verified at import, otherwise the family is disabled) and exceeds 0.24525 in exact
     arithmetic, so a window whose peak is t REACHES 0.025 g under the exact and under the floating-point
     reading alike.  All words over {0.025 g, 0.02 g, 0, -0.025 g} (as many of these levels as fit the
     cap) for every configuration of the menu: every qualifying window qualifies through the tie only.
     Next to the gate: the same enumeration (smaller cap) over {0.025(1+1e-7) g, 0.025(1-1e-7) g, 0,
     -0.025(1+1e-7) g} - decided comparisons a relative 1e-7 above / below the gate.
(vii) Public options of the object that store a non-default variant of a derived series.  The measures take
     the signal object; the velocity "v" of the velocity based measures (ISV = trapezoid(v^2), rectangle sum
     of |v|, summed |change of 0.5 v |v||) is the velocity series of that signal - what `asig.velocity` reports
     when the measure is asked for.  On the float64 object of every word (after all measures were evaluated on
     it with the default velocity) `generate_displacement_and_velocity_series(trap=False)` is called (C08:
     rectangle-rule velocity), the reported velocity is read, and all six measures are compared with the exact
     integrals built on THAT series (acceleration based ones: unchanged); then the default call
     `generate_displacement_and_velocity_series()` and the same again.  The measures must leave the reported
     velocity as it is.  The same non-default call is part of the history before every record change in (iii).
(viii) "has the record's length" for the standardised CAV over a (dt, length) lattice: the time steps 0.01,
     0.02, 0.05, 0.1, 0.2 (whole number of samples per second, not binary fractions: products and quotients
     of length and dt round) x every length from the shortest admissible record (2 s) to one sample beyond
     3 s, and every whole-second length 2 .. 20 s (30 s in the thorough tier) with and without one extra
     sample, x a menu of simple record contents (every window / no window / every other window / one
     boundary sample reaches the gate), with all standardised-CAV sub-claims against the exact reference.
"""
import itertools
import math
from fractions import Fraction

import numpy as np

from ..target import eqsig, im
from ..result import Res
from ..compare import words, frac, to_array
from ..refs import im_ref

SIGMA = (-2, -1, 0, 1, 2)
DTS = (0.005, 0.01, 0.5)
ALPHAS = (-1.0, 2.0, -3.0, 0.5, 1e-9, 1e6)
# integer-typed records next to float64: (tag, dtype, words it can hold)
INT_ENTRIES = (('i64', np.int64, lambda w: True), ('i8', np.int8, lambda w: True),
               ('u8', np.uint8, lambda w: min(w) >= 0))
# (tag, dtype, factor, words it can hold): alphabet value * factor is close to the largest value of the type
SCALED_INT_ENTRIES = (('i8x50', np.int8, 50, lambda w: True), ('i16x15000', np.int16, 15000, lambda w: True),
                      ('i32x5e8', np.int32, 5 * 10 ** 8, lambda w: True), ('u8x100', np.uint8, 100, lambda w: min(w) >= 0),
                      ('u16x30000', np.uint16, 30000, lambda w: min(w) >= 0))
SCRIBBLE = -7.5      # what the caller writes into a returned series before asking again
PADS = (1, 2, 5)

# name, homogeneity degree (2: energy type, 1: CAV type), acceleration based
MEASURES = (
    ('arias', 2, True),
    ('cav', 1, True),
    ('isv', 2, False),
    ('int_abs_acc', 1, True),
    ('int_abs_vel', 1, False),
    ('unit_kinetic_energy', 2, False),
)
FUNCS = {
    'arias': lambda s: im.calc_arias_intensity(s),
    'cav': lambda s: im.calc_cav(s),
    'isv': lambda s: im.calc_isv(s),
    'int_abs_acc': lambda s: im.calc_integral_of_abs_acceleration(s),
    'int_abs_vel': lambda s: im.calc_integral_of_abs_velocity(s),
    'unit_kinetic_energy': lambda s: im.calc_unit_kinetic_energy(s),
}

# standardised CAV: levels in units of 0.01 g (sign carried separately)
LV100 = (0, 2, -3, 5)
LV_FRAC = tuple(Fraction(v, 100) * im_ref.G for v in LV100)
LV_FLOAT = tuple(float(v) for v in LV_FRAC)
LV_OF = dict(zip(LV100, LV_FLOAT))
CAVDP_DTS = (1.0, 0.5, 0.25, 0.2)
CAVDP_SECS = (2, 3, 4, 5)
RTOL = 1e-9
REL_RTOL = 1e-11     # relations between two executions (round-off only)
MONO_RTOL = 1e-12    # a decrease below this fraction of the series peak is round-off
# reused-object histories of the standardised CAV: configurations with at most this many words
REUSE_CAP = {'quick': 4096, 'thorough': 65536}
PRIOR_LEVELS = (3, 2)    # indices into LV100: the other records of a history alternate 0.05 g / -0.03 g

# exact tie on the gate.  0.025 g is not a binary fraction of m/s2, but the double t = fl(0.025*9.81)
# (a) gives fl(t/9.81) == fl(0.025) bit for bit, (b) is the double every formulation of the gate in m/s2 uses
# (|a| >= 0.025*9.81), (c) still reaches the gate when multiplied by the reciprocal of g, and (d) is larger
# than 0.24525 in exact arithmetic: whichever way the comparison is read, a window whose peak is t reaches
# 0.025 g.  Verified here; if any of it fails on a platform the family is skipped (counted as disabled).
TIE_FLOAT = 0.025 * 9.81
TIE_OK = bool(TIE_FLOAT / 9.81 == 0.025 and abs(-TIE_FLOAT) / 9.81 == 0.025
              and float((np.abs(np.array([TIE_FLOAT, -TIE_FLOAT])) / 9.81).min()) == 0.025
              and float((np.abs(np.array([TIE_FLOAT, -TIE_FLOAT])) / 9.81).max()) == 0.025
              and TIE_FLOAT * (1 / 9.81) >= 0.025 and Fraction(TIE_FLOAT) >= Fraction(24525, 100000)
              and Fraction(TIE_FLOAT) / Fraction(24525, 100000) - 1 < Fraction(1, 10 ** 12))
TIE_LV = (Fraction(5, 2), 2, 0, -Fraction(5, 2))       # units of 0.01 g; the first two are always present
TIE_LV_FLOAT = (TIE_FLOAT, float(Fraction(2, 100) * im_ref.G), 0.0, -TIE_FLOAT)
TIE_CAP = {'quick': 4096, 'thorough': 65536}
# "nearly equal but different": levels a relative 1e-7 below / above the gate (decided comparisons: the gap is
# far above round-off, and far below any "close enough" tolerance).  Same enumeration with a smaller cap.
NEAR_REL = Fraction(1, 10 ** 7)
NEAR_LV = (Fraction(5, 2) * (1 + NEAR_REL), Fraction(5, 2) * (1 - NEAR_REL), 0, -Fraction(5, 2) * (1 + NEAR_REL))
NEAR_LV_FLOAT = tuple(float(v / 100 * im_ref.G) for v in NEAR_LV)
NEAR_CAP = {'quick': 1024, 'thorough': 16384}
# (viii) standardised CAV over a (dt, length) lattice.  Non-dyadic steps with a whole number of samples per second
LONG_DTS = (0.01, 0.02, 0.05, 0.1, 0.2)
LONG_MAX_SEC = {'quick': 20, 'thorough': 30}
# record contents (levels in 0.01 g as a function of the sample index i, samples per second pps, n)
LONG_CONTENTS = ('all-windows', 'no-window', 'odd-windows', 'one-boundary-sample')
# (vii) steps of the option history on one object: (tag, keyword arguments of generate_displacement_and_velocity_series)
OPTION_STEPS = (('trap=False', {'trap': False}), ('default', {}))
VEL_MEASURES = ('isv', 'int_abs_vel', 'unit_kinetic_energy')
TIE_DISABLED = 'exact-tie family: fl(0.025*9.81)/9.81 != 0.025 on this platform'


def cavdp_configs(tier):
    """(dt, seconds, extra, n, number of levels used).  All words over the 4-level alphabet
    when 4**n fits the cap; else all words over its first three levels (still on both sides
    of the gate) when 3**n fits - in the quick tier only for the shortest (2 s) records of a
    dt, so that every dt of the menu is present with and without the extra sample where
    affordable; else the configuration is outside the bound."""
    cap = 300000 if tier == 'quick' else 4200000
    out = []
    for dt in CAVDP_DTS:
        pps = int(1 / frac(dt))
        for sec in CAVDP_SECS:
            for extra in (0, 1):
                n = sec * pps + 1 + extra
                if 4 ** n <= cap:
                    out.append((dt, sec, extra, n, 4))
                elif 3 ** n <= cap and (tier != 'quick' or sec == CAVDP_SECS[0]):
                    out.append((dt, sec, extra, n, 3))
    return out


def long_configs(tier):
    """(dt, n): every length from the shortest admissible record (2 s) to one sample beyond 3 s, and every
    whole-second length up to the bound with and without one extra sample."""
    out = []
    for dt in LONG_DTS:
        pps = int(1 / frac(dt))
        ns = set(range(2 * pps + 1, 3 * pps + 3))
        for sec in range(2, LONG_MAX_SEC[tier] + 1):
            ns.update((sec * pps + 1, sec * pps + 2))
        out.extend((dt, n) for n in sorted(ns))
    return sorted(out, key=lambda c: (c[1], -c[0]))


def build(tier, seed):
    L = 5 if tier == 'quick' else 7
    cases = [{'k': 'quad', 'w': list(w)} for w in words(SIGMA, 1, L)]
    cfgs = cavdp_configs(tier)
    for dt, sec, extra, n, nl in sorted(cfgs, key=lambda c: (c[3], c[4], -c[0])):
        suf = min(n, 4 if nl == 4 else 5)
        for pre in itertools.product(range(nl), repeat=n - suf):
            cases.append({'k': 'cavdp', 'dt': dt, 'n': n, 'levels': nl, 'pre': list(pre),
                          'reuse': nl ** n <= REUSE_CAP[tier]})
    tie_cfgs = []
    for dt, sec, extra, n, _ in sorted(cfgs, key=lambda c: (c[3], -c[0])):
        nl = max([k for k in (4, 3, 2) if k ** n <= TIE_CAP[tier]] or [0])
        if nl:
            tie_cfgs.append((dt, sec, extra, n, nl))
            suf = min(n, 5)
            for pre in itertools.product(range(nl), repeat=n - suf):
                cases.append({'k': 'cavdp-tie', 'dt': dt, 'n': n, 'levels': nl, 'pre': list(pre)})
    n_tie = sum(nl ** n for _, _, _, n, nl in tie_cfgs)
    near_cfgs = []
    for dt, sec, extra, n, _ in sorted(cfgs, key=lambda c: (c[3], -c[0])):
        nl = max([k for k in (4, 3, 2) if k ** n <= NEAR_CAP[tier]] or [0])
        if nl:
            near_cfgs.append((dt, sec, extra, n, nl))
            suf = min(n, 5)
            for pre in itertools.product(range(nl), repeat=n - suf):
                cases.append({'k': 'cavdp-near', 'dt': dt, 'n': n, 'levels': nl, 'pre': list(pre)})
    n_near = sum(nl ** n for _, _, _, n, nl in near_cfgs)
    long_cfgs = long_configs(tier)
    for dt, n in long_cfgs:
        cases.append({'k': 'cavdp-long', 'dt': dt, 'n': n})
    # quadrature measures on records longer than any block size an implementation is likely to use (2^16, 10^5), dense motion
    # across every power-of-two boundary
    for n in QUAD_LONG_LENGTHS:
        cases.append({'k': 'quad-long', 'n': n})
    n_dp = sum(nl ** n for _, _, _, n, nl in cfgs)
    reuse_cfgs = [c for c in cfgs if c[4] ** c[3] <= REUSE_CAP[tier]]
    return {
        'rule_more': 'quadrature measures (Arias, CAV, ISV) on dense integer-valued records of %s samples, probed at the end and around every power of two' % (list(QUAD_LONG_LENGTHS),),
        'cases': cases,
        'rule': '(i) all words over {-2..2} of length 1..%d (one pool case per word) x dt in %s x {float64, int64, '
                'int8, uint8 (non-negative words) record} x 6 measures, relations alpha in %s and zero padding k in %s '
                'for words ending at 0; '
                '(ii) standardised CAV: all %d words over levels {0, 0.02g, -0.03g, 0.05g} for the (dt, seconds, '
                'extra sample) configurations listed under bounds (one pool case = all words sharing a prefix); '
                '(iii) histories on one reused AccSignal: (i) other record -> parent -> word -> parent along every tree '
                'edge between lengths >= 2 (all 6 measures against the exact reference of the current record), (ii) for the %d '
                'configurations with <= %d words: every word after a 2 s record and after a one second longer record '
                '(and those records after the word), the stat generators called and the lazy properties read before '
                'every record change, one same-length record change per quadrature history; (iv) every measure '
                'called again on the same object after its returned array was overwritten in place and after a '
                'call on another object with a record of the same length and end samples (A-B-A); (vi) exact tie '
                'on the gate: all %d words over {0.025 g exactly, 0.02 g, 0, -0.025 g} for the configurations '
                'listed under bounds, and all %d words over {0.025(1+1e-7) g, 0.025(1-1e-7) g, 0, -0.025(1+1e-7) g}; '
                '(vii) on the float64 object of every word of length >= 2, after the measures: '
                'generate_displacement_and_velocity_series(trap=False), all 6 measures against the exact integrals of '
                'the velocity the object then reports, the default call, all 6 measures again; (viii) standardised CAV '
                'on %d (dt, length) pairs: dt in %s x (every length from 2 s to 3 s + 1 sample, every whole-second '
                'length 2..%d s with and without an extra sample) x contents %s (one pool case per pair); '
                'non-trivial = record not identically zero'
                % (L, list(DTS), list(ALPHAS), list(PADS), n_dp, len(reuse_cfgs), REUSE_CAP[tier], n_tie, n_near,
                   len(long_cfgs), list(LONG_DTS), LONG_MAX_SEC[tier], list(LONG_CONTENTS)),
        'bounds': {'alphabet': SIGMA, 'max_len': L, 'dt': DTS, 'alpha': ALPHAS, 'zero_padding': PADS,
                   'cavdp_levels_in_g': [0, 0.02, -0.03, 0.05], 'cavdp_gate_g': 0.025,
                   'cavdp_configs(dt,seconds,extra_sample,n,levels_used)': cfgs, 'cavdp_words': n_dp,
                   'cavdp_reused_object_configs': reuse_cfgs, 'cavdp_reused_object_max_words': REUSE_CAP[tier],
                   'cavdp_reused_object_other_records': 'alternating 0.05 g / -0.03 g, lengths 2 s and word + 1 s',
                   'integer_record_dtypes': ['int64', 'int8', 'uint8 (non-negative words)'],
                   'cavdp_exact_tie_level_m_s2': TIE_FLOAT, 'cavdp_exact_tie_verified': TIE_OK,
                   'cavdp_exact_tie_levels_in_0.01g': [float(v) for v in TIE_LV],
                   'cavdp_exact_tie_configs(dt,seconds,extra_sample,n,levels_used)': tie_cfgs,
                   'cavdp_exact_tie_words': n_tie,
                   'cavdp_near_gate_levels_in_0.01g': [float(v) for v in NEAR_LV],
                   'cavdp_near_gate_configs(dt,seconds,extra_sample,n,levels_used)': near_cfgs,
                   'cavdp_near_gate_words': n_near,
                   'cavdp_lattice_dt': LONG_DTS, 'cavdp_lattice_max_seconds': LONG_MAX_SEC[tier],
                   'cavdp_lattice_pairs': len(long_cfgs), 'cavdp_lattice_contents': LONG_CONTENTS,
                   'cavdp_lattice_max_length': max(n for _, n in long_cfgs),
                   'velocity_option_steps': [t for t, _ in OPTION_STEPS]},
        'required_classes': ['quad-long-record-over-2^16', 'quad-mixed-sign-acc', 'quad-velocity-sign-change', 'quad-zero-append', 'quad-scaling',
                             'quad-sign-reversal', 'quad-int-input', 'quad-zero-record',
                             'cavdp-none-qualify', 'cavdp-some-qualify', 'cavdp-all-qualify',
                             'cavdp-extra-sample', 'cavdp-tail-only-above-gate', 'cavdp-end-sample-decides',
                             'cavdp-lower-bound-positive', 'cavdp-sub-gate-window-skipped',
                             'quad-reused-object-longer-record', 'quad-reused-object-shorter-record',
                             'quad-reused-object-int-list', 'cavdp-reused-object-longer-record',
                             'cavdp-reused-object-shorter-record', 'cavdp-reused-object-same-length',
                             'quad-one-sample', 'quad-int8-input', 'quad-uint8-input', 'quad-narrow-int-near-range', 'quad-tiny-scale',
                             'quad-huge-scale', 'quad-result-overwritten', 'quad-aba-same-length-and-ends',
                             'quad-reused-object-same-length', 'quad-reused-object-after-stat-generators',
                             'cavdp-result-overwritten', 'cavdp-reused-object-after-stat-generators',
                             'cavdp-reused-object-list-record', 'cavdp-near-gate-qualifies',
                             'cavdp-near-gate-just-below-skipped', 'cavdp-near-gate-none',
                             'quad-velocity-option-rectangle', 'quad-velocity-option-changes-isv',
                             'quad-velocity-option-back-to-default', 'cavdp-lattice-shortest-record',
                             'cavdp-lattice-whole-seconds', 'cavdp-lattice-extra-samples',
                             'cavdp-lattice-1000-samples-or-more', 'cavdp-lattice-some-qualify',
                             'cavdp-lattice-none-qualify', 'cavdp-lattice-all-qualify']
                            + (['cavdp-exact-tie-qualifies', 'cavdp-exact-tie-some-qualify',
                                'cavdp-exact-tie-end-sample-decides', 'cavdp-exact-tie-none'] if TIE_OK else []),
        'assumptions': [
            'sample values outside the alphabets, lengths above the bound and dt outside the menus are not examined',
            'reference: exact rational running integrals (fractions.Fraction); tolerance 1e-9 of the series peak',
            'Arias constant pi/(2*9.81) is applied to the exact rational trapezoid sum in double precision',
            'running rectangle sums are inclusive (element k = dt*(y_0+...+y_k)), the only running form whose '
            'last element is the stated full rectangle sum over a series of record length',
            'non-decreasing is asserted up to round-off (a decrease below 1e-12 of the series peak is ignored)',
            'standardised CAV: one-second windows are the aligned windows [i, i+1] s, i < floor(duration), each '
            'including both end samples; the main family keeps every level off the 0.025 g gate',
            'exact tie on the gate: "reaches 0.025 g" is inclusive.  The level fl(0.025*9.81) = %r m/s2 divided by '
            '9.81 is the double 0.025 bit for bit, equals the gate expressed in m/s2, and exceeds 0.24525 in exact '
            'arithmetic (checked at import: %s); a window whose largest |a| is this level qualifies.  The bounds of '
            'the windowed sum are computed for 0.025 g exactly (relative difference 1e-16)' % (TIE_FLOAT, TIE_OK),
            'levels a relative 1e-7 above / below the gate are decided comparisons (gap far above round-off): the '
            'window qualifies / does not qualify',
            'a returned series belongs to the caller: overwriting it in place must not change what a later call '
            'returns (compared with a private copy of the first result, round-off tolerance)',
            'narrow / unsigned integer records are examined with the alphabet values and with the alphabet multiplied up to the top of the '
            'type (int8 x50, int16 x15000, int32 x5e8, uint8 x100, uint16 x30000; dt = %s): a**2 and the pairwise sums of the trapezoid '
            'rule used to be evaluated in the record dtype and wrap around (repaired in /repo, see known_findings.txt)' % DTS[1],
            'the velocity of the velocity based measures (ISV, int|v|, unit kinetic energy) is the velocity series of the '
            'signal handed to the measure, i.e. what asig.velocity reports at that moment: the trapezoid integral of the '
            'record by default (C08; exact reference from the record), the rectangle-rule series after the public call '
            'generate_displacement_and_velocity_series(trap=False) (reference: the exact integrals of the series the '
            'object reports; whether that series is the right rectangle-rule velocity is C08).  The statement does not '
            'say this in so many words ("ISV = trapezoid(v^2)"); the reading that v is always the default velocity is '
            'not adopted (it would make the measures ignore the velocity of the object they are given)',
            'standardised CAV lattice: dt in %s are not binary fractions; the number of samples per second is the '
            'integer 1/dt of the decimal literal, the record has the stated number of samples, windows as above'
            % (list(LONG_DTS),),
            'the stat generators / lazy properties called between the steps of a history are not themselves '
            'checked here (exceptions they raise are ignored); only the measures that follow are',
            'zero padding is checked for the acceleration based quadrature measures only (Arias, CAV, int|a|)',
            'the record of a signal object is its current record: after reset_values(new record) every measure '
            'is that of the new record (same claims, same tolerances as for a freshly constructed object); the '
            'reference of a parent word is the prefix of the reference of the word (all running integrals are causal)',
        ],
    }


# ------------------------------------------------------------------------------------------
def _series_ok(r, name, sub, out, n, claim='length.'):
    arr = to_array(out)
    ok = arr is not None and arr.ndim == 1 and arr.shape[0] == n and arr.dtype.kind == 'f'
    r.expect(claim + name, sub, ok, 'series is not a real 1-d array of the record length %d' % n,
             observed=(None if arr is None else list(arr.shape)), expected=[n])
    return arr if ok else None


def _monotone(r, claim, sub, arr, peak):
    d = np.diff(arr)
    ok = bool(np.all(d >= -MONO_RTOL * peak)) if d.size else True
    r.expect(claim, sub, ok, 'series decreases', observed=arr)


STAT_GENERATORS = ('generate_cumulative_stats', 'generate_duration_stats', 'generate_all_motion_stats',
                   'generate_displacement_and_velocity_series')
LAZY = ('time', 'npts', 'velocity', 'displacement', 'pga', 'pgv', 'pgd', 'arias_intensity', 'cav')


def _touch(sig):
    """Part of an object's history: the public (partly deprecated) methods that store derived data on the
    object, and a read of every lazy property.  They are not under test here: whatever they do or raise,
    the measures evaluated afterwards must be those of the record the object holds then."""
    for nm in STAT_GENERATORS:
        try:
            getattr(sig, nm)()
        except Exception:   # noqa
            pass
    for nm in LAZY:
        try:
            getattr(sig, nm)
        except Exception:   # noqa
            pass
    try:
        # a public option that leaves a NON-default variant of a derived series stored on the object
        sig.generate_displacement_and_velocity_series(trap=False)
    except Exception:   # noqa
        pass


def _other_record(v):
    """A record of the same length that differs from v in every cumulative series (3*reversed+1 has no
    fixed point over the integers)."""
    return [3 * x + 1 for x in reversed(v)]


def _companion(w):
    """Same length, same first and last sample, every interior sample changed (cyclic shift of the
    alphabet); None when there is no interior sample."""
    if len(w) < 3:
        return None
    return [w[0]] + [(x + 3) % 5 - 2 for x in w[1:-1]] + [w[-1]]


def _quad_history(r, w, dt, reff):
    """other record of the parent's length -> all measures, stat generators, lazy properties ->
    reset_values(parent = w[:-1]) -> all measures ... -> reset_values(w) -> ... -> reset_values(parent as a
    Python list of ints) -> all measures, on one AccSignal.  The exact reference of the parent is the
    prefix of the reference of w (running integrals are causal)."""
    n = len(w)
    parent = list(w[:-1])
    steps = (('other', None, n - 1),
             ('same-length', lambda: np.array(parent, dtype=float), n - 1),
             ('longer', lambda: np.array(w, dtype=float), n),
             ('shorter', lambda: list(parent), n - 1))
    sig = None
    hist = []
    for tag, make, m in steps:
        hist = hist + [tag]
        sub0 = {'w': w, 'dt': dt, 'history': hist}
        r.states += 1
        if make is None:
            ok, sig = r.call('construct', sub0, eqsig.AccSignal, np.array(_other_record(parent), dtype=float), dt)
            if not ok:
                return
            for name, deg, accb in MEASURES:
                try:
                    FUNCS[name](sig)
                    r.evals += 1
                except Exception:   # noqa  (the other record is checked in its own right elsewhere)
                    pass
            _touch(sig)
            continue
        r.transitions += 1
        ok, _ = r.call('reuse.reset_values', sub0, sig.reset_values, make())
        r.cls('quad-reused-object-after-stat-generators')
        if tag == 'longer':
            r.cls('quad-reused-object-longer-record')
        elif tag == 'same-length':
            r.cls('quad-reused-object-same-length')
        else:
            r.cls('quad-reused-object-shorter-record')
            r.cls('quad-reused-object-int-list')
        if not ok:
            return
        for name, deg, accb in MEASURES:
            sub = dict(sub0, measure=name)
            ok, out = r.call('reuse.' + name, sub, FUNCS[name], sig)
            if not ok:
                continue
            arr = _series_ok(r, name, sub, out, m, 'reuse.length.')
            if arr is None:
                continue
            want = reff[name][:m]
            peak = float(np.max(np.abs(want)))
            r.expect_close('reuse.' + name, sub, arr, want, rtol=RTOL, scale=peak)
            _monotone(r, 'reuse.monotone.' + name, sub, arr, peak)
        _touch(sig)


def _scribble(out):
    """Overwrite a returned series in place, as a caller normalising / reusing the buffer would."""
    try:
        if isinstance(out, np.ndarray) and out.size and out.flags.writeable:
            out[...] = SCRIBBLE
            return True
    except Exception:   # noqa
        pass
    return False


def _velocity_refs(v, h):
    """Exact running series of the three velocity based measures for the velocity samples v (Fractions)."""
    out = {'isv': im_ref.trap_running([x * x for x in v], h),
           'int_abs_vel': im_ref.rect_running([abs(x) for x in v], h)}
    uke = []
    s = Fraction(0)
    prev = Fraction(0)          # the first change is counted from rest
    for x in v:
        k = x * abs(x) / 2
        s += abs(k - prev)
        prev = k
        uke.append(s)
    out['unit_kinetic_energy'] = uke
    return out


def _option_history(r, w, dt, h, reff, sig, vel_default):
    """(vii): on an object on which the measures were already evaluated, switch the public integration option of
    the velocity series and evaluate all measures against the exact integrals of the velocity the object then
    reports; switch back with the default call and do the same."""
    n = len(w)
    hist = []
    for tag, kw in OPTION_STEPS:
        hist = hist + [tag]
        sub0 = {'w': w, 'dt': dt, 'history': ['measures'] + hist}
        r.states += 1
        r.transitions += 1
        ok, _ = r.call('option.generate_displacement_and_velocity_series', sub0,
                       sig.generate_displacement_and_velocity_series, **kw)
        if not ok:
            return
        try:
            v_rep = np.array(sig.velocity, dtype=float, copy=True)
        except Exception:   # noqa
            v_rep = None
        if v_rep is None or v_rep.shape != (n,) or not np.all(np.isfinite(v_rep)):
            r.disabled['option history: the object reports no velocity series of the record length (C08)'] += 1
            return
        refs = _velocity_refs([Fraction(float(x)) for x in v_rep], h)
        vpk = max(float(np.max(np.abs(vel_default))), float(np.max(np.abs(v_rep))))
        differs = bool(np.max(np.abs(v_rep - vel_default)) > 1e-6 * vpk) if vpk > 0 else False
        if kw.get('trap') is False and differs:
            r.cls('quad-velocity-option-rectangle')
        if not kw and not differs:
            r.cls('quad-velocity-option-back-to-default')
        for name, deg, accb in MEASURES:
            sub = dict(sub0, measure=name)
            ok, out = r.call('option.' + name, sub, FUNCS[name], sig)
            if not ok:
                continue
            arr = _series_ok(r, name, sub, out, n, 'option.length.')
            if arr is None:
                continue
            want = reff[name] if accb else np.array([float(x) for x in refs[name]])
            peak = float(np.max(np.abs(want)))
            if name == 'isv' and abs(want[-1] - reff[name][-1]) > 1e-6 * max(peak, float(reff[name][-1])):
                r.cls('quad-velocity-option-changes-isv')
            r.expect_close('option.' + name, sub, arr, want, rtol=RTOL, scale=peak,
                           what='series is not the integral built on the velocity the object reports'
                           if not accb else '')
            r.expect_close('option.final.' + name, sub, arr[-1], want[-1], rtol=RTOL, scale=peak)
            _monotone(r, 'option.monotone.' + name, sub, arr, peak)
        try:
            same = bool(np.array_equal(np.asarray(sig.velocity, dtype=float), v_rep))
        except Exception:   # noqa
            same = False
        r.expect('option.velocity-unchanged', sub0, same, 'the measures changed the velocity series of the object',
                 expected=v_rep)


def run_quad(w):
    r = Res()
    n = len(w)
    nz = any(w)
    if nz:
        r.nontrivial += 1
    else:
        r.cls('quad-zero-record')
    if min(w) < 0 < max(w):
        r.cls('quad-mixed-sign-acc')
    if n == 1:
        r.cls('quad-one-sample')
    a_f = np.array(w, dtype=float)
    entries = [('f64', a_f, 1)] + [(tag, np.array(w, dtype=dt_), 1) for tag, dt_, fits in INT_ENTRIES if fits(w)]
    # the same pattern as digitiser counts near the top of a narrow / unsigned integer type: squares and pairwise sums leave the type
    entries_scaled = [(tag, (np.array(w, dtype=np.int64) * k).astype(dt_), k) for tag, dt_, k, fits in SCALED_INT_ENTRIES if fits(w)]
    comp = _companion(w)
    ends_zero = (w[-1] == 0)
    for dt in DTS:
        h = frac(dt)
        ref = im_ref.quadrature_measures(w, h)
        reff = {}
        for name, deg, accb in MEASURES:
            v = np.array([float(x) for x in ref[name]])
            if name == 'arias':
                v = v * im_ref.ARIAS_CONST
            reff[name] = v
        vel = im_ref.trap_running([Fraction(x) for x in w], h)
        if min(vel) < 0 < max(vel):
            r.cls('quad-velocity-sign-change')
        base = {}
        first = {}
        sig_f = None
        for entry, arr_in, k_in in entries + (entries_scaled if dt == DTS[1] else []):
            r.states += 1
            if entry != 'f64':
                r.cls({'i64': 'quad-int-input', 'i8': 'quad-int8-input', 'u8': 'quad-uint8-input'}.get(entry, 'quad-narrow-int-near-range'))
            ok, sig = r.call('construct', {'w': w, 'dt': dt, 'entry': entry}, eqsig.AccSignal, arr_in.copy(), dt)
            if not ok:
                continue
            for name, deg, accb in MEASURES:
                sub = {'w': w, 'dt': dt, 'entry': entry, 'measure': name}
                ok, out = r.call('series.' + name, sub, FUNCS[name], sig)
                if not ok:
                    continue
                arr = _series_ok(r, name, sub, out, n)
                if arr is None:
                    continue
                want = reff[name] * float(k_in) ** deg
                peak = float(np.max(np.abs(want)))
                r.expect_close('running.' + name, sub, arr, want, rtol=RTOL, scale=peak)
                r.expect_close('final.' + name, sub, arr[-1], want[-1], rtol=RTOL, scale=peak)
                _monotone(r, 'monotone.' + name, sub, arr, peak)
                if entry == 'f64':
                    base[name] = arr.copy()     # private copy: `out` itself is handed back to "the caller" below
                    first[name] = out
                    sig_f = sig
        # ownership of results / A-B-A: overwrite the returned series in place, evaluate the measure on another
        # object whose record shares length, first and last sample, ask the first object again
        if sig_f is not None:
            sig_b = None
            if comp is not None:
                ok, sig_b = r.call('construct', {'w': w, 'dt': dt, 'companion': comp}, eqsig.AccSignal,
                                   np.array(comp, dtype=float), dt)
                if not ok:
                    sig_b = None
            for name, deg, accb in MEASURES:
                if name not in first:
                    continue
                sub = {'w': w, 'dt': dt, 'measure': name, 'sequence': 'call, overwrite result, call on companion, call',
                       'companion': comp}
                r.transitions += 1
                if _scribble(first[name]):
                    r.cls('quad-result-overwritten')
                else:
                    r.disabled['returned series is not a writable ndarray'] += 1
                if sig_b is not None:
                    r.cls('quad-aba-same-length-and-ends')
                    try:
                        r.evals += 1
                        FUNCS[name](sig_b)
                    except Exception:   # noqa  (the companion word is checked in its own pool case)
                        pass
                ok, out = r.call('repeat.' + name, sub, FUNCS[name], sig_f)
                if ok:
                    r.expect_close('repeat.' + name, sub, out, base[name], rtol=REL_RTOL,
                                   what='second call on the same object differs from the first result')
        # public option of the object: a non-default variant of the velocity series is stored, then the measures
        if sig_f is not None and n >= 2:
            _option_history(r, w, dt, h, reff, sig_f, np.array([float(x) for x in vel]))
        # operation history on ONE object (tree edge parent -> word and back): the series are those of
        # the object's current record, whatever it held and whatever was computed on it before
        if n >= 3:
            _quad_history(r, w, dt, reff)
        # relations between executions: a -> alpha * a
        for alpha in ALPHAS:
            r.transitions += 1
            r.cls('quad-sign-reversal' if alpha == -1.0 else 'quad-tiny-scale' if abs(alpha) < 1e-6 else
                  'quad-huge-scale' if abs(alpha) > 1e5 else 'quad-scaling')
            ok, sig = r.call('construct', {'w': w, 'dt': dt, 'alpha': alpha}, eqsig.AccSignal, alpha * a_f, dt)
            if not ok:
                continue
            for name, deg, accb in MEASURES:
                sub = {'w': w, 'dt': dt, 'alpha': alpha, 'measure': name}
                claim = ('sign-reversal.' if alpha == -1.0 else 'scaling.') + name
                ok, out = r.call(claim, sub, FUNCS[name], sig)
                if not ok:
                    continue
                factor = alpha * alpha if deg == 2 else abs(alpha)
                # the relation is between the two executions; fall back on the exact reference only if
                # the base execution produced nothing usable
                b = base.get(name)
                if b is not None:
                    r.expect_close(claim, sub, out, factor * b, rtol=REL_RTOL)
                else:
                    r.expect_close(claim, sub, out, factor * reff[name], rtol=RTOL)
        # tree edges: append k zeros to a record that ends at zero
        if ends_zero:
            r.cls('quad-zero-append')
            for k in PADS:
                r.transitions += 1
                padded = np.concatenate([a_f, np.zeros(k)])
                ok, sig = r.call('construct', {'w': w, 'dt': dt, 'zeros': k}, eqsig.AccSignal, padded, dt)
                if not ok:
                    continue
                for name, deg, accb in MEASURES:
                    if not accb:
                        continue
                    sub = {'w': w, 'dt': dt, 'zeros': k, 'measure': name}
                    claim = 'zero-append.' + name
                    ok, out = r.call(claim, sub, FUNCS[name], sig)
                    if not ok:
                        continue
                    b = base.get(name)
                    if b is None:
                        b = reff[name]
                        tol = RTOL
                    else:
                        tol = REL_RTOL
                    want = np.concatenate([b, np.full(k, b[-1])])
                    r.expect_close(claim, sub, out, want, rtol=tol)
                    arr = to_array(out)
                    if arr is not None and arr.ndim == 1 and arr.size:
                        r.expect_close(claim + '.final', sub, arr[-1], b[-1], rtol=tol, scale=float(np.max(np.abs(b))))
    return r


# ------------------------------------------------------------------------------------------
def _check_cavdp(r, pfx, sub, out, n, rf):
    """All standardised-CAV sub-claims for one execution (pfx '' : fresh object, 'reuse.': history)."""
    arr = _series_ok(r, 'cavdp', sub, out, n, pfx + 'length.')
    if arr is None:
        return
    if not np.all(np.isfinite(arr)):
        r.fail(pfx + 'cavdp.range', sub, 'non-finite value', observed=arr)
        return
    lo_f, hi_f, cav_f = float(rf['lo']), float(rf['hi']), float(rf['cav_g'])
    scale = max(cav_f, 1e-300)
    _monotone(r, pfx + 'monotone.cavdp', sub, arr, cav_f)
    r.expect(pfx + 'cavdp.range', sub,
             float(arr.min()) >= -MONO_RTOL * scale and float(arr.max()) <= cav_f * (1 + RTOL),
             'standardised CAV outside [0, CAV/9.81]', observed=arr, expected=[0.0, cav_f])
    if rf['nq'] == 0:
        r.expect(pfx + 'cavdp.zero', sub, bool(np.all(arr == 0.0)),
                 'no one-second window reaches 0.025 g but the series is not zero', observed=arr, expected=0.0)
    else:
        fin = float(arr[-1])
        r.expect(pfx + 'cavdp.windows', sub, lo_f - RTOL * hi_f <= fin <= hi_f * (1 + RTOL),
                 'final value not within one trapezoid panel per qualifying window of the windowed sum',
                 observed=fin, expected=[lo_f, hi_f])


class _Reused(object):
    """One AccSignal carried through a whole pool case; every step is reset_values(record) followed by
    calc_cav_dp, checked against the exact reference of the record just handed over."""

    def __init__(self, r, dt):
        self.r = r
        self.dt = dt
        self.sig = None
        self.prev = None        # levels (0.01 g) of the record the object held at the previous step

    def step(self, lv, rf, again=False, as_list=False):
        """again: after the checked call overwrite the returned series in place and call once more (must
        return the first result), then call the stat generators / read the lazy properties (history of the
        next step).  as_list: the record is handed over as a Python list of floats."""
        r = self.r
        acc = np.array([LV_OF[v] for v in lv])
        if as_list:
            acc = acc.tolist()
            r.cls('cavdp-reused-object-list-record')
        sub = {'dt': self.dt, 'levels_in_0.01g': list(lv), 'previous_levels_in_0.01g': self.prev}
        r.states += 1
        if self.sig is None:
            ok, self.sig = r.call('construct', sub, eqsig.AccSignal, acc, self.dt)
            if not ok:
                self.sig = None
                return
        else:
            r.transitions += 1
            d = len(lv) - len(self.prev)
            r.cls('cavdp-reused-object-longer-record' if d > 0 else
                  'cavdp-reused-object-shorter-record' if d < 0 else 'cavdp-reused-object-same-length')
            ok, _ = r.call('reuse.reset_values', sub, self.sig.reset_values, acc)
            if not ok:
                self.sig = None
                self.prev = None
                return
        self.prev = list(lv)
        ok, out = r.call('reuse.cavdp', sub, im.calc_cav_dp, self.sig)
        if ok:
            _check_cavdp(r, 'reuse.', sub, out, len(lv), rf)
        if again:
            if ok:
                keep = np.array(out, dtype=float, copy=True) if to_array(out) is not None else None
                if keep is not None and _scribble(out):
                    r.cls('cavdp-result-overwritten')
                    r.transitions += 1
                    sub2 = dict(sub, sequence='call, overwrite result, call')
                    ok, out2 = r.call('repeat.cavdp', sub2, im.calc_cav_dp, self.sig)
                    if ok:
                        r.expect_close('repeat.cavdp', sub2, out2, keep, rtol=REL_RTOL,
                                       what='second call on the same object differs from the first result')
                else:
                    r.disabled['returned series is not a writable ndarray'] += 1
            _touch(self.sig)
            r.cls('cavdp-reused-object-after-stat-generators')


def _prior(m):
    return [LV100[PRIOR_LEVELS[i % 2]] for i in range(m)]


def run_cavdp(case):
    r = Res()
    dt = case['dt']
    n = case['n']
    nl = case['levels']
    pre = tuple(case['pre'])
    h = frac(dt)
    pps = int(1 / h)
    reused = None
    if case.get('reuse'):
        # the other records of the histories: one second longer, and the shortest admissible one (2 s)
        reused = _Reused(r, dt)
        lv_long = _prior(n + pps)
        rf_long = im_ref.cav_dp_reference(lv_long, pps, h)
        lv_short = _prior(2 * pps + 1) if 2 * pps + 1 < n else None
        rf_short = im_ref.cav_dp_reference(lv_short, pps, h) if lv_short else None
    for suf in itertools.product(range(nl), repeat=n - len(pre)):
        x = pre + suf
        lv = [LV100[i] for i in x]
        sub = {'dt': dt, 'levels_in_0.01g': lv}
        r.states += 1
        nz = any(lv)
        if nz:
            r.nontrivial += 1
        rf = im_ref.cav_dp_reference(lv, pps, h)
        lo, nq, nwin, end_decides = rf['lo'], rf['nq'], rf['nwin'], rf['end_decides']
        if (n - 1) % pps:
            r.cls('cavdp-extra-sample')
            tail = lv[nwin * pps + 1:]
            if nq == 0 and any(2 * abs(v) >= 5 for v in tail):
                r.cls('cavdp-tail-only-above-gate')
        if nq == 0:
            if nz:
                r.cls('cavdp-none-qualify')
        elif nq == nwin:
            r.cls('cavdp-all-qualify')
        else:
            r.cls('cavdp-some-qualify')
        if nq and rf['skipped_nonzero']:
            r.cls('cavdp-sub-gate-window-skipped')   # a window with non-zero |a| integral that must be left out
        if end_decides:
            r.cls('cavdp-end-sample-decides')
        if lo > 0:
            r.cls('cavdp-lower-bound-positive')
        acc = np.array([LV_FLOAT[i] for i in x])

        def go():
            return im.calc_cav_dp(eqsig.AccSignal(acc, dt))
        ok, out = r.call('cavdp', sub, go)
        if ok:
            _check_cavdp(r, '', sub, out, n, rf)
        if reused is not None:
            # history on the one reused object: (2 s record | previous word) -> word -> longer record
            # -> word -> 2 s record; each step checked against the exact reference of its own record
            reused.step(lv, rf, again=True)
            reused.step(lv_long, rf_long)
            reused.step(lv, rf, as_list=True)
            if lv_short:
                reused.step(lv_short, rf_short)
    return r


def run_cavdp_tie(case):
    """Levels on the gate (exact tie, 'cavdp-tie') or a relative 1e-7 next to it ('cavdp-near'): all words over
    the first `levels` entries of the family's alphabet sharing the prefix."""
    r = Res()
    dt = case['dt']
    n = case['n']
    nl = case['levels']
    pre = tuple(case['pre'])
    h = frac(dt)
    pps = int(1 / h)
    tie = case['k'] == 'cavdp-tie'
    if tie and not TIE_OK:
        r.disabled[TIE_DISABLED] += nl ** (n - len(pre))
        return r
    lvs, lvs_float = (TIE_LV, TIE_LV_FLOAT) if tie else (NEAR_LV, NEAR_LV_FLOAT)
    for suf in itertools.product(range(nl), repeat=n - len(pre)):
        x = pre + suf
        lv = [lvs[i] for i in x]
        sub = {'dt': dt, 'levels_in_0.01g': [float(v) for v in lv]}
        if tie:
            sub['exact_tie_level_m_s2'] = TIE_FLOAT
        r.states += 1
        r.nontrivial += 1            # the first two levels are non-zero
        rf = im_ref.cav_dp_reference(lv, pps, h)
        nq, nwin = rf['nq'], rf['nwin']
        if not tie:
            if nq == 0:
                r.cls('cavdp-near-gate-none')
            else:
                r.cls('cavdp-near-gate-qualifies')
                if rf['skipped_nonzero'] and 1 in x:
                    r.cls('cavdp-near-gate-just-below-skipped')
        elif nq == 0:
            r.cls('cavdp-exact-tie-none')
        else:
            r.cls('cavdp-exact-tie-qualifies')         # every qualifying window does so through the tie only
            if nq < nwin:
                r.cls('cavdp-exact-tie-some-qualify')
            if rf['end_decides']:
                r.cls('cavdp-exact-tie-end-sample-decides')
        acc = np.array([lvs_float[i] for i in x])

        def go():
            return im.calc_cav_dp(eqsig.AccSignal(acc, dt))
        ok, out = r.call('cavdp', sub, go)
        if ok:
            _check_cavdp(r, '', sub, out, n, rf)
    return r


def _long_levels(content, n, pps):
    """Record contents of the (dt, length) lattice, in units of 0.01 g over the alphabet {0, 2, -3, 5}."""
    nwin = (n - 1) // pps
    if content == 'all-windows':
        return [LV100[i % 4] for i in range(n)]                 # 0.05 g every fourth sample (pps >= 5)
    lv = [2 if i % 2 == 0 else 0 for i in range(n)]             # 0.02 g: below the gate
    if content == 'no-window':
        if (n - 1) % pps:
            lv[-1] = 5           # above the gate, but after the last whole second: in no window
    elif content == 'odd-windows':
        for i in range(1, nwin, 2):
            lv[i * pps + pps // 2] = 5                          # strictly inside window i
    elif content == 'one-boundary-sample':
        lv[2 * pps] = -3         # end sample of window 1 and (if there is one) first sample of window 2
    return lv


def run_cavdp_long(case):
    """(viii): one (dt, length) pair of the lattice x every record content, on a fresh object and on one object that
    held a record one second longer before (and is handed the contents one after the other: same length)."""
    r = Res()
    dt = case['dt']
    n = case['n']
    h = frac(dt)
    pps = int(1 / h)
    if n == 2 * pps + 1:
        r.cls('cavdp-lattice-shortest-record')
    r.cls('cavdp-lattice-extra-samples' if (n - 1) % pps else 'cavdp-lattice-whole-seconds')
    if n >= 1000:
        r.cls('cavdp-lattice-1000-samples-or-more')
    reused = None
    lv_long = _long_levels('all-windows', n + pps, pps)
    ok, sg = r.call('construct', {'dt': dt, 'n': n + pps, 'content': 'all-windows'}, eqsig.AccSignal,
                    np.array([LV_OF[v] for v in lv_long]), dt)
    if ok:
        try:
            r.evals += 1
            im.calc_cav_dp(sg)          # the longer record is checked in its own pool case (or is beyond the bound)
            reused = sg
        except Exception:   # noqa
            reused = sg
    prev = 'all-windows, n=%d' % (n + pps)
    for content in LONG_CONTENTS:
        lv = _long_levels(content, n, pps)
        rf = im_ref.cav_dp_reference(lv, pps, h)
        r.states += 1
        r.nontrivial += 1
        r.cls('cavdp-lattice-none-qualify' if rf['nq'] == 0 else
              'cavdp-lattice-all-qualify' if rf['nq'] == rf['nwin'] else 'cavdp-lattice-some-qualify')
        acc = np.array([LV_OF[v] for v in lv])
        sub = {'dt': dt, 'n': n, 'content': content}

        def go():
            return im.calc_cav_dp(eqsig.AccSignal(acc.copy(), dt))
        ok, out = r.call('cavdp', sub, go)
        if ok:
            _check_cavdp(r, '', sub, out, n, rf)
        if reused is not None:
            sub = dict(sub, previous_record=prev)
            r.states += 1
            r.transitions += 1
            ok, _ = r.call('reuse.reset_values', sub, reused.reset_values, acc.copy())
            if not ok:
                reused = None
                continue
            prev = '%s, n=%d' % (content, n)
            ok, out = r.call('reuse.cavdp', sub, im.calc_cav_dp, reused)
            if ok:
                _check_cavdp(r, 'reuse.', sub, out, n, rf)
    return r


QUAD_LONG_LENGTHS = (4097, 32769, 65535, 65536, 65537, 80000, 100001, 131073, 140000)


def run_quad_long(case):
    """Dense integer-valued record a[i] = ((7 i) mod 5) - 2 (+ a slow drift sign pattern), dt = 0.01: every panel contributes, so a
    panel dropped anywhere (e.g. between two blocks) shows.  References: the defining sums written with plain numpy reductions over the
    whole record (integer arithmetic where the summands are integers), compared to 1e-9 of the final value at the end of the record
    and at the samples around every power of two."""
    r = Res()
    n = int(case['n'])
    dt = 0.01
    i = np.arange(n)
    ai = ((7 * i) % 5 - 2) * np.where((i // 1000) % 2 == 0, 1, -1)
    a = ai.astype(float)
    r.nontrivial += 1
    r.cls('quad-long-record')
    if n > 65536:
        r.cls('quad-long-record-over-2^16')
    sig = eqsig.AccSignal(a.copy(), dt)
    probes = sorted(set([0, 1, n - 1] + [p + d for e in range(10, 18) for p in (2 ** e,) for d in (-2, -1, 0, 1, 2) if 0 < p + d < n]))
    a2 = ai.astype(np.int64) ** 2
    arias = np.concatenate([[0], np.cumsum(a2[1:] + a2[:-1])]).astype(float) * (dt / 2.0) * (math.pi / (2 * 9.81))
    aa = np.abs(ai).astype(np.int64)
    cav = np.concatenate([[0], np.cumsum(aa[1:] + aa[:-1])]).astype(float) * (dt / 2.0)
    v_int = np.concatenate([[0], np.cumsum(ai[1:] + ai[:-1])]).astype(np.int64)        # velocity = v_int * dt / 2 (exact integers)
    v2 = v_int.astype(object) ** 2 if False else v_int.astype(float) ** 2
    isv = np.concatenate([[0.0], np.cumsum(v2[1:] + v2[:-1])]) * (dt / 2.0) ** 2 * (dt / 2.0)
    for name, fn, want in (('arias', im.calc_arias_intensity, arias), ('cav', im.calc_cav, cav), ('isv', im.calc_isv, isv)):
        sub = {'n': n, 'measure': name, 'record': '((7 i) mod 5 - 2) * (+1 / -1 in blocks of 1000), dt = 0.01'}
        r.states += 1
        ok, out = r.call('long.' + name, sub, fn, sig)
        if not ok:
            continue
        try:
            g = np.asarray(out, dtype=float)
            if g.shape != (n,):
                r.fail('long.' + name, sub, 'series has shape %r, record length %d' % (g.shape, n))
                continue
            r.n_cmp += 2
            scale = float(want[-1]) or 1.0
            err = np.abs(g[probes] - want[probes])
            j = int(np.argmax(err))
            if not err[j] <= 1e-9 * scale:
                r.fail('long.' + name, sub, '%s series differs from the defining running integral at sample %d: %r vs %r (final value %r)'
                       % (name, probes[j], float(g[probes[j]]), float(want[probes[j]]), scale), observed=float(g[probes[j]]),
                       expected=float(want[probes[j]]))
            if not bool(np.all(np.diff(g) >= -1e-12 * scale)):
                r.fail('long.' + name, dict(sub, claim='non-decreasing'), 'series decreases somewhere')
        except Exception as e:
            r.fail('long.' + name, sub, 'malformed result: %s' % e)
    r.expect('long.record-unchanged', {'n': n}, bool(np.array_equal(np.asarray(sig.values, dtype=float), a)), 'the record was modified')
    return r


def run_case(case):
    if case['k'] == 'quad-long':
        return run_quad_long(case)
    if case['k'] == 'quad':
        return run_quad(case['w'])
    if case['k'] == 'cavdp-long':
        return run_cavdp_long(case)
    if case['k'] in ('cavdp-tie', 'cavdp-near'):
        return run_cavdp_tie(case)
    return run_cavdp(case)


def snippet(case, v):
    sub = v.get('sub') or {}
    if case.get('k') == 'quad':
        return ("import numpy as np, eqsig\nfrom eqsig import im\n"
                "sub = %r\n"
                "a = np.array(sub['w'], float) * sub.get('alpha', 1.0)\n"
                "a = np.concatenate([a, np.zeros(sub.get('zeros', 0))])\n"
                "if sub.get('entry') == 'i64': a = np.array(sub['w'], dtype=np.int64)\n"
                "s = eqsig.AccSignal(a, sub['dt'])\n"
                "fs = (im.calc_arias_intensity, im.calc_cav, im.calc_isv, im.calc_integral_of_abs_acceleration,\n"
                "      im.calc_integral_of_abs_velocity, im.calc_unit_kinetic_energy)\n"
                "if sub.get('history', [''])[0] == 'measures':   # measures, then the public velocity option(s), then the measures\n"
                "    [f(s) for f in fs]\n"
                "    for step in sub['history'][1:]: s.generate_displacement_and_velocity_series(**({'trap': False} if step == 'trap=False' else {}))\n"
                "    v = s.velocity; print('velocity reported', v, 'trapezoid(v^2)', np.sum((v[1:] ** 2 + v[:-1] ** 2) / 2) * sub['dt'])\n"
                "elif 'history' in sub:   # one object: other -> parent -> w -> parent (list of ints)\n"
                "    par = sub['w'][:-1]\n"
                "    s = eqsig.AccSignal(np.array([3 * x + 1 for x in reversed(par)], float), sub['dt'])\n"
                "    for rec in [np.array(par, float), np.array(sub['w'], float), list(par)][:len(sub['history']) - 1]:\n"
                "        [f(s) for f in fs]\n"
                "        for g in ('generate_cumulative_stats', 'generate_duration_stats', 'generate_all_motion_stats'):\n"
                "            try: getattr(s, g)()\n"
                "            except Exception: pass\n"
                "        s.velocity, s.displacement, s.pga, s.pgv, s.pgd; s.reset_values(rec)\n"
                "if 'sequence' in sub:   # call, overwrite the result, call on the companion record, call again\n"
                "    b = eqsig.AccSignal(np.array(sub['companion'] or sub['w'], float), sub['dt'])\n"
                "    for f in fs: o = f(s); print(f.__name__, 'first', o.copy()); o[...] = -7.5; f(b)\n"
                "for f in (im.calc_arias_intensity, im.calc_cav, im.calc_isv, im.calc_integral_of_abs_acceleration,\n"
                "          im.calc_integral_of_abs_velocity, im.calc_unit_kinetic_energy):\n"
                "    print(f.__name__, f(s))\n" % (sub,))
    if case.get('k') == 'cavdp-long':
        return ("import numpy as np, eqsig\nfrom eqsig import im\n"
                "sub = %r\n"
                "def levels(content, n, pps):   # units of 0.01 g\n"
                "    if content.startswith('all-windows'): return [(0, 2, -3, 5)[i %% 4] for i in range(n)]\n"
                "    lv = [2 if i %% 2 == 0 else 0 for i in range(n)]\n"
                "    if content == 'no-window' and (n - 1) %% pps: lv[-1] = 5\n"
                "    if content == 'odd-windows':\n"
                "        for i in range(1, (n - 1) // pps, 2): lv[i * pps + pps // 2] = 5\n"
                "    if content == 'one-boundary-sample': lv[2 * pps] = -3\n"
                "    return lv\n"
                "pps = int(round(1 / sub['dt']))\n"
                "a = np.array(levels(sub['content'], sub['n'], pps), float) * 0.01 * 9.81\n"
                "s = eqsig.AccSignal(a, sub['dt'])\n"
                "if 'previous_record' in sub:   # the object held another record before\n"
                "    c, m = sub['previous_record'].split(', n=')\n"
                "    s = eqsig.AccSignal(np.array(levels(c, int(m), pps), float) * 0.01 * 9.81, sub['dt'])\n"
                "    im.calc_cav_dp(s); s.reset_values(a)\n"
                "o = im.calc_cav_dp(s)\n"
                "print('record length', len(a), 'series length', len(o), 'final', o[-1], 'cav/9.81', im.calc_cav(s)[-1] / 9.81)\n"
                % (sub,))
    return ("import numpy as np, eqsig\nfrom eqsig import im\n"
            "sub = %r\n"
            "a = np.array(sub['levels_in_0.01g'], float) * 0.01 * 9.81\n"
            "if 'exact_tie_level_m_s2' in sub:   # 2.5 stands for the double 0.025*9.81 (divided by 9.81: 0.025 exactly)\n"
            "    a = np.array([np.sign(v) * 0.025 * 9.81 if abs(v) == 2.5 else v * 0.01 * 9.81 for v in sub['levels_in_0.01g']])\n"
            "s = eqsig.AccSignal(a, sub['dt'])\n"
            "if sub.get('previous_levels_in_0.01g'):   # history on one object\n"
            "    s = eqsig.AccSignal(np.array(sub['previous_levels_in_0.01g'], float) * 0.01 * 9.81, sub['dt'])\n"
            "    im.calc_cav_dp(s); s.generate_cumulative_stats(); s.reset_values(a)\n"
            "if 'sequence' in sub: o = im.calc_cav_dp(s); print('first', o.copy()); o[...] = -7.5\n"
            "print('cav_dp', im.calc_cav_dp(s))\nprint('cav/9.81', im.calc_cav(s)[-1] / 9.81)\n" % (sub,))
