"""C13 - peak-only series conserve total variation; power-law cycle measures are inverse.

Engine T x G.  Two families of pool cases (one word per case, all configurations inside):

 'd'  every non-constant word over {0..3}, and every non-constant word over the wide-dynamic-range
      alphabet {7, M+7, M+9, M+6} (M = 2^22: steps of 1..3 at a distance of 4e6 from the other
      level, all exact integers): peaks-only delta series and pseudo-cyclic peak series, float /
      int / list input, constant offsets {+5, -2.5}, and the float record scaled by 1e-9 (a
      record whose whole amplitude is tiny in absolute terms).  Oracle: conservation identities
      evaluated in exact rationals on the samples actually passed (total variation,
      end-minus-start, direction of the last movement) and a run-compression turning-point scan.
 'p'  every non-constant word over {-3..3} + {0.2} + {0.02} (0.2 is a non-zero peak below a 10 %
      cut-off when the record peak is 3 and exactly ON the cut-off when it is 2; 0.02 is a
      non-zero peak below 1 % of a record peak of 3, i.e. data on which the smallest allowed
      cut-off, 0, differs from every small positive one): power-law equivalent
      cycles / equivalent amplitude, b x cut_off x a_ref menu, scalar and array b.  Oracle:
      relations between executions (inverse, scaling, 2^b, geometric mean), plus - only where a
      non-zero peak lies below the cut-off, so that the inverse relation cannot hold - the direct
      formula over reference excursion maxima and the relation "counting with a cut-off ==
      counting the record with the sub-cut-off excursions zeroed, without cut-off".
      n_cyc is passed as a python float, as a 0-d and a (1,) ndarray, and as the last row of the
      cycle series exactly as returned (the object a caller hands on); the same n_cyc object is
      used for a sequence of calls (combined, then single component).

Every call goes through pcall(): all ndarray / list arguments are snapshotted around the call
(a query leaves its arguments unchanged).

Third-round generalisations (hidden tolerances, containers, returned arrays, module-level state, corners):
 'd'  (words shorter than the longest) also tuple / float32 records and a NARROW integer record (int16, the
      word x 60); for every record of three or more samples the call sequence A, A, B, A (B: same length, same
      first and last sample, other interior; B checked against its own identities) with every result
      overwritten in place by the caller before the next call: the later results for A equal a private copy
      of the first.
 'p'  words up to the second-longest length additionally run: the amplitude relation for records scaled by
      1e-9 and 1e+6, the joint scaling of record and a_ref by 2^-30, narrow / unsigned integer records with
      large steps (levels 1, 2, 3 -> 1, 40, 120 as int8; 1, 80, 240 as uint8 for non-negative words; expected:
      the float64 record with the same samples), list / tuple records, a_ref as python int /
      np.int64, b as np.float64 / 0-d / (1,) ndarray, n_cyc as python int / integer ndarray, the smallest
      exponent (b = 0.06), and the A, A, B, A sequence with overwritten results for all four functions
      (B checked by the direct sum over its excursion maxima).  Words whose record peak is 2 and that contain
      the level 0.2 (a peak exactly ON a 10 % cut-off) are also run with that level moved to 0.2(1 -+ 1e-6):
      nearly on the cut-off but decidedly below / above it.
"""
from fractions import Fraction

import numpy as np

from ..target import im, peaks_and_crossings as pc
from ..result import Res
from ..compare import words, snapshot

SIG_D = (0, 1, 2, 3)
WIDE_M = 2 ** 22    # distance between the two levels of the wide-dynamic-range alphabet (exact in float64 / int64)
SIG_W = (7, WIDE_M + 7, WIDE_M + 9, WIDE_M + 6)
TINY_SCALE = 1e-9   # the float record scaled to a tiny absolute amplitude
TINY = 0.02         # non-zero level below 1 % of the largest level 3
SIG_P = (-3, -2, -1, 0, TINY, 0.2, 1, 2, 3)
BS = (0.1, 0.34, 1.0)
B_ARR = (0.1, 0.34)
CUTS = (0.0, 0.1)
AREFS = (0.5, 2.0)
NCYC = 7.5
SHIFTS = (5, -2.5)
ALPHA_AMP = 3.0     # amplitude scaling factor
ALPHA_N = 4.0       # joint scaling of record and a_ref (dyadic: every threshold comparison commutes with it)
ALPHA_AMP_EXT = (1e-9, 1e6)     # amplitude relation for a record that is tiny / large in absolute terms
ALPHA_N_EXT = 2.0 ** -30        # joint scaling to a tiny absolute level (dyadic, 9.3e-10)
NEAR = 1e-6         # relative distance of the "nearly on the cut-off" levels from the level 0.2
NEAR_LO = 0.2 * (1 - NEAR)
NEAR_HI = 0.2 * (1 + NEAR)
NARROW_D = 1000     # int16 record = word x 1000: products of successive steps overflow int16 (repaired by fix 092bcbe)
B_MIN = 0.06        # smallest exponent exercised (the property allows b > 0.05)
N_INT = 8           # integer-typed number of cycles
B_MID = 0.34        # exponent of the container / call-sequence sub-family


def build(tier, seed):
    ld = 7 if tier == 'quick' else 8
    lw = ld - 1
    lp = 5 if tier == 'quick' else 6
    # third element: 1 = the word also runs the third-round containers and call sequences (every word shorter than the longest)
    cases = [['d', list(w), 1 if len(w) < ld else 0] for w in words(SIG_D, 2, ld, nonconstant=True)]
    cases += [['d', list(w), 1 if len(w) < lw else 0] for w in words(SIG_W, 2, lw, nonconstant=True)]
    # power-law family: all words over {-3..3} up to lp, all words containing the 0.2 level up to lp-1,
    # all words containing the 0.02 level up to lp-2
    pw = [list(w) for w in words(SIG_P, 2, lp, nonconstant=True)
          if (0.2 not in w or len(w) < lp) and (TINY not in w or len(w) < lp - 1)]
    # third element: 1 = the word also runs the extended sub-family (run_power_ext), i.e. every word shorter than lp
    cases += [['p', w, 1 if len(w) < lp else 0] for w in pw]
    # nearly on the cut-off: every word with record peak 2 that contains the level 0.2 (exactly ON the 10 % cut-off),
    # with that level moved down / up by a relative 1e-6
    near = [w for w in pw if 0.2 in w and max(abs(v) for v in w) == 2]
    for lvl in (NEAR_LO, NEAR_HI):
        cases += [['p', [lvl if v == 0.2 else v for v in w], 0] for w in near]
    # long zigzag records with more than a thousand turning points, several of them one after the other in ONE pool case (what the
    # functions keep between calls must not depend on the sizes seen before)
    cases.append(['L', list(LONG_PEAK_COUNTS), 0])
    cases.append(['L', list(LONG_PEAK_COUNTS[::-1]), 0])
    # the caller's array edited IN PLACE between two calls of the power-law functions (same object, other content)
    cases += [['R', w, 0] for w in pw if len(w) <= 4 and TINY not in w]
    return {
        'rule_more': "'L': zigzag records with 513 .. 5001 turning points, 8 per pool case in two orders x 3 variants; 'R': the four power-law functions on one array object edited in place between calls (4 edits) vs the same call on a private copy",
        'cases': cases,
        'rule': "'L': zigzag records with 513 .. 5001 turning points, several in one pool case in two orders; 'R': power-law functions on one array object before and after it was edited in place (x -= c, x[...] = reversed); 'd': all non-constant words over {0..3} of length 2..%d and over the wide-range alphabet %s of length 2..%d "
                "x {float64, int64, list} x offsets {0,+5,-2.5} + the float record scaled by %g "
                "x {delta series, pseudo-cyclic series}; 'p': all non-constant words over {-3..3} of length 2..%d, over {-3..3}+{0.2} of length 2..%d "
                "and over {-3..3}+{0.2}+{%s} of length 2..%d "
                "x b in %s (+ array b %s) x cut_off in %s x a_ref in %s, n_cyc=%s as float / 0-d ndarray / (1,) ndarray and "
                "n_cyc = last row of the returned cycle series (same object for combined, then single), second component 2*reversed (b=0.1, 1.0) / "
                "-rolled (b=0.34); every ndarray / list argument snapshotted around every call; "
                "'d' words shorter than the longest also: tuple / float32 records, int16 record = word x %d ({0..3} words), and for records of >= 3 samples the sequence "
                "A, A, B, A (B = same length and end samples, other interior, checked against its own identities) with the earlier results "
                "overwritten in place before the later calls; 'p' words shorter than %d also: amplitude relation for the record x %s, "
                "joint scaling of record and a_ref by 2^-30 (all b, cut_off), int8 record (levels 1,2,3 -> 1,40,120) and uint8 record "
                "(non-negative words, levels -> 1,80,240) x {cycles, amplitude, gm, combined} vs the float64 record of the same samples, list / tuple records x {amplitude, gm, combined}, a_ref as int / np.int64, "
                "b as np.float64 / 0-d / (1,) ndarray, n_cyc = %d as int / int64 (1,) ndarray, b = %s (inverse at the end of the record), "
                "A, A, B, A sequences with overwritten earlier results for the four functions; every word with record peak 2 containing the "
                "level 0.2 again with that level at 0.2(1 -+ %g); "
                "non-trivial = word with an interior turning point ('d') / with two or more non-zero "
                "excursions ('p')" % (ld, list(SIG_W), lw, TINY_SCALE, lp, lp - 1, TINY, lp - 2, list(BS), list(B_ARR), list(CUTS),
                                      list(AREFS), NCYC, NARROW_D, lp, list(ALPHA_AMP_EXT), N_INT, B_MIN, NEAR),
        'bounds': {'delta_alphabet': SIG_D, 'delta_max_len': ld, 'delta_wide_alphabet': SIG_W, 'delta_wide_max_len': lw,
                   'delta_tiny_scale': TINY_SCALE, 'power_alphabet': SIG_P, 'power_max_len': lp,
                   'power_max_len_with_0.2': lp - 1, 'power_max_len_with_%s' % TINY: lp - 2,
                   'b': BS, 'b_array': B_ARR, 'cut_off': CUTS, 'a_ref': AREFS, 'n_cyc': NCYC,
                   'n_cyc_containers': ['float', '0-d ndarray', '(1,) ndarray', 'last row of the cycle series'], 'offsets': SHIFTS,
                   'alpha_amp': ALPHA_AMP, 'alpha_n': ALPHA_N,
                   'delta_containers': ['float64', 'int64', 'list', 'tuple', 'float32', 'int16 (word x %d)' % NARROW_D],
                   'delta_ext_max_len': ld - 1, 'delta_wide_ext_max_len': lw - 1, 'power_ext_max_len': lp - 1, 'alpha_amp_ext': ALPHA_AMP_EXT, 'alpha_n_ext': ALPHA_N_EXT,
                   'power_record_containers': ['float64', 'int64', 'int8 (levels 1, 40, 120)', 'uint8 (non-negative words, levels 1, 80, 240)', 'list',
                                               'tuple'],
                   'a_ref_containers': ['float', 'int', 'np.int64'], 'b_containers': ['float', 'np.float64', '0-d ndarray',
                                                                                    '(1,) ndarray', '(2,) ndarray'],
                   'n_cyc_int': N_INT, 'b_min': B_MIN, 'near_cutoff_levels': [NEAR_LO, NEAR_HI],
                   'call_sequences': ['A, A, B, A with the earlier results overwritten in place (all six functions)']},
        'required_classes': ['long-zigzag', 'array-edited-in-place-between-calls', 'delta:float', 'delta:int', 'delta:list', 'delta:offset', 'delta:tiny-scale', 'plateau', 'monotone',
                             'interior-turning', 'last-move-up', 'last-move-down', 'first-move-down',
                             'small-step-far-from-start',
                             'inverse-checked', 'inverse-interior-index', 'sub-cutoff-peak', 'cutoff-exact-tie',
                             'no-cutoff-peak-below-1%', 'n_cyc:0-d', 'n_cyc:(1,)', 'n_cyc:last-row', 'inverse-array-b',
                             'scalar-b', 'array-b', 'int-input', 'gm-different-components',
                             'first-excursion-max-at-0', 'zero-valued-sample',
                             'delta:tuple', 'delta:float32', 'delta:int16', 'delta:int16wide', 'delta:uint8', 'delta:A-B-A', 'delta:two-samples',
                             'delta:single-step', 'near-cutoff-below', 'near-cutoff-above', 'last-sample-is-excursion-max',
                             'power:tiny-amplitude', 'power:large-amplitude', 'power:tiny-joint-scale', 'power:int8', 'power:uint8',
                             'power:list', 'power:tuple', 'a_ref:int', 'b:np.float64', 'b:0-d', 'b:(1,)', 'n_cyc:int',
                             'n_cyc:int-ndarray', 'b:smallest', 'power:A-B-A'],
        'assumptions': ['sample values outside the alphabets and lengths above the bounds are not examined',
                        'b, cut_off, a_ref, n_cyc only on the menu',
                        'turning points of a plateau: any sample of an extremal plateau is accepted as "the peak"',
                        'a peak exactly on the cut-off (0.2 == 0.1*2 in binary floating point) is not below it',
                        'combined-amplitude function is exercised with scalar b only (documented as float)',
                        'dynamic range of a record: steps down to 2.4e-7 of the distance from the first sample '
                        '(wide-range alphabet) and absolute amplitudes down to 1e-9 (scaled record); nothing finer',
                        'n_cyc containers other than float / int / 0-d / (1,) / (len(b),) ndarrays are not examined',
                        'float32 records: delta family only (exact there); the power-law functions return float32-accurate '
                        'results for float32 records on the unchanged tree, not examined',
                        'unsigned records are not given to the delta functions (TypeError on the unchanged tree), narrow integer '
                        'records only with steps whose pairwise products fit the type (the product of successive differences wraps '
                        'on the unchanged tree: reported separately)',
                        'joint scaling by 2^-30 only where no non-zero excursion maximum lies below the cut-off (the library '
                        'replaces such maxima by the absolute level 1e-14: reported separately); 2^+20 not examined',
                        'list / tuple records are not given to calc_n_cyc_array_w_power_law (TypeError on the unchanged tree); '
                        'b as list / tuple is not accepted by any of the functions'],
    }


# ------------------------------------------------------------------------------ references
def compress(w):
    """[(start, stop, value)] of the maximal constant runs."""
    out = []
    for i, v in enumerate(w):
        if out and out[-1][2] == v:
            out[-1][1] = i + 1
        else:
            out.append([i, i + 1, v])
    return out


def turning(w):
    """(first-sample indices of the turning runs, set of all samples of those runs).
    Turning runs: the first run, the last run, every run that is a strict local extremum of
    the run sequence."""
    rs = compress(w)
    firsts, allowed = [], set()
    for k, (a, b, v) in enumerate(rs):
        ext = k == 0 or k == len(rs) - 1 or (v > rs[k - 1][2] and v > rs[k + 1][2]) or \
            (v < rs[k - 1][2] and v < rs[k + 1][2])
        if ext:
            firsts.append(a)
            allowed.update(range(a, b))
    return firsts, allowed


def excursions(w):
    """Maximal runs of one strict sign: [(indices, max |value|)]."""
    out = []
    cur = None
    for i, v in enumerate(w):
        s = (v > 0) - (v < 0)
        if s == 0:
            cur = None
            continue
        if cur is not None and cur[2] == s:
            cur[0].append(i)
            cur[1] = max(cur[1], abs(v))
        else:
            cur = [[i], abs(v), s]
            out.append(cur)
    return [(e[0], e[1]) for e in out]


def as_series(v, n, ncol=None):
    try:
        a = np.asarray(v, dtype=float)
    except Exception:
        return None
    if ncol is None:
        if a.shape == (n,):
            return a
        if a.shape == (n, 1):
            return a[:, 0]
        return None
    return a if a.shape == (n, ncol) else None


def pcall(r, claim, sub, fn, *args, **kw):
    """r.call() + purity: every ndarray / list argument is snapshotted around the call; a query
    must leave its arguments unchanged (records, b arrays, n_cyc arrays - also when the argument
    is a view into an earlier result)."""
    held = [(i, a, snapshot(a)) for i, a in enumerate(args) if isinstance(a, (np.ndarray, list))]
    ok, out = r.call(claim, sub, fn, *args, **kw)
    for i, a, before in held:
        r.n_cmp += 1
        if snapshot(a) != before:
            r.fail(claim.split('.')[0] + '.args-unchanged', dict(sub, call=getattr(fn, '__name__', '?'), arg=i),
                   'positional argument %d was modified by the call' % i, observed=a,
                   expected=before[-1] if before[0] == 'py' else np.frombuffer(before[3], dtype=before[1]))
    return ok, out


# ------------------------------------------------------------------------------ delta family
def exact_identities(vals):
    """(total variation, end minus start, direction of the last movement, first movement) in exact
    rationals of the samples actually passed."""
    q = [Fraction(v) for v in vals]
    tv = sum(abs(q[i + 1] - q[i]) for i in range(len(q) - 1))
    net = q[-1] - q[0]
    moves = [q[i + 1] - q[i] for i in range(len(q) - 1) if q[i + 1] != q[i]]
    return tv, net, (1 if moves[-1] > 0 else -1), (1 if moves[0] > 0 else -1)


def check_delta_result(r, name, sub, out, n, allowed, c_tv, c_net, last):
    """One result of a peak-only function against the exact identities of the samples passed; returns the series or None."""
    s = as_series(out, n)
    if s is None:
        r.fail(name + '.length', sub, 'result is not a series of the record length %d' % n, observed=out)
        return None
    ftv = float(c_tv)
    r.n_cmp += 1
    off = [i for i in range(n) if i not in allowed and s[i] != 0]
    r.expect(name + '.zero-off-peaks', sub, not off, 'non-zero entries away from turning points at %r' % (off,),
             observed=s, expected='zeros outside %r' % (sorted(allowed),))
    if name == 'delta':
        r.expect_close('delta.abs-sum', sub, float(np.sum(np.abs(s))), ftv, rtol=1e-9)
        r.expect_close('delta.signed-sum', sub, abs(float(np.sum(s))), abs(float(c_net)), rtol=1e-9, scale=ftv)
    else:
        r.expect_close('cyclic.sum', sub, float(np.sum(s)), float(c_tv / 2 + c_net / 2 * last), rtol=1e-9, scale=ftv)
    return s


def delta_sequences(r, w, allowed, tv, net, last):
    """Module-level state and returned arrays: the calls A, A, B, A on float records, B of the same length and with the same first
    and last sample as A but another interior (records of two samples: A, A).  The caller overwrites, in place, the array the
    first call returned before it makes the later calls; B is checked against its own identities, the last result must equal a
    private copy of the first."""
    n = len(w)
    alphabet = SIG_D if all(v in SIG_D for v in w) else SIG_W
    wb = None
    if n >= 3:
        for k in (1, 2):
            cand = [w[0]] + [alphabet[(alphabet.index(v) + k) % len(alphabet)] for v in w[1:-1]] + [w[-1]]
            if len(set(cand)) > 1:
                wb = cand
                break
    A = np.array(w, dtype=float)
    if wb is not None:
        r.cls('delta:A-B-A')
        B = np.array(wb, dtype=float)
        b_tv, b_net, b_last, _ = exact_identities(wb)
        b_allowed = turning(wb)[1]
    for name, fn in (('delta', pc.determine_peaks_only_delta_series), ('cyclic', pc.determine_pseudo_cyclic_peak_only_series)):
        sub = {'w': w, 'sequence': 'A,A' if wb is None else 'A,A,B,A', 'fn': name}
        r.states += 1
        ok, out1 = pcall(r, name + '.returns', sub, fn, A)
        s1 = as_series(out1, n) if ok else None
        if s1 is None:
            continue        # reported by the single calls
        keep = np.array(s1)
        if isinstance(out1, np.ndarray) and out1.flags.writeable:
            out1[...] = 77      # the caller re-uses the array it got back
        if wb is not None:
            # A again at once (a result handed out twice would now hold the caller's values), then B
            ok, out2 = pcall(r, name + '.returns', dict(sub, call='second'), fn, A)
            if ok:
                r.transitions += 1
                r.expect_close(name + '.repeatable', dict(sub, call='second'), out2, keep, rtol=1e-12, scale=float(tv),
                               what='the same record gives another result after the first result was overwritten in place by '
                                    'the caller')
                if isinstance(out2, np.ndarray) and out2.flags.writeable:
                    out2[...] = 77
            sb = dict(sub, B=wb)
            ok, outb = pcall(r, name + '.returns', sb, fn, B)
            if ok:
                check_delta_result(r, name, sb, outb, n, b_allowed, b_tv, b_net, b_last)
        ok, out3 = pcall(r, name + '.returns', dict(sub, call='last'), fn, A)
        if ok:
            r.transitions += 1
            r.expect_close(name + '.repeatable', sub, out3, keep, rtol=1e-12, scale=float(tv),
                           what='the same record gives another result after the first result was overwritten in place by the '
                                'caller' + ('' if wb is None else ' and the function was called on another record of the same length '
                                                                  'and end samples'))


def run_delta(r, w, ext=False):
    n = len(w)
    rs = compress(w)
    firsts, allowed = turning(w)
    tv, net, last, first = exact_identities(w)
    interior = len(firsts) > 2
    if interior:
        r.nontrivial += 1
        r.cls('interior-turning')
    else:
        r.cls('monotone')
    if len(rs) < n:
        r.cls('plateau')
    r.cls('last-move-up' if last > 0 else 'last-move-down')
    if first < 0:
        r.cls('first-move-down')
    # a step that is tiny relative to the distance the series has reached from its first sample
    if any(0 < abs(w[i + 1] - w[i]) * 10 ** 5 <= abs(w[i] - w[0]) for i in range(n - 1)):
        r.cls('small-step-far-from-start')
    if n == 2:
        r.cls('delta:two-samples')
    if len(rs) == 2:
        r.cls('delta:single-step')      # exactly two levels, one step
    configs = [('float', 0, 1), ('float', 5, 1), ('float', -2.5, 1), ('int', 0, 1), ('int', 5, 1), ('list', 0, 1),
               ('float', 0, TINY_SCALE)]
    if ext:
        configs += [('tuple', 0, 1), ('float32', 0, 1)]
    if ext and max(w) * NARROW_D < 2 ** 15:
        # narrow integer record with steps whose pairwise products leave the type's range (the peak search once multiplied successive
        # differences in the dtype of the record: repaired by fix #26)
        configs.append(('int16', 0, NARROW_D))
        # narrow / unsigned records whose STEPS leave the type's range (levels -30000 .. 30000 in int16: steps up to 60000; levels
        # 0 .. 240 in uint8: every falling step is negative) - repaired by the widening of fix #34
        configs.append(('int16wide', 0, 10000))
        configs.append(('uint8', 0, 80))
    base = {}
    for kind, sh, sc in configs:
        if kind == 'float':
            arr = np.array(w, dtype=float) * sc + sh
        elif kind == 'int':
            arr = np.array(w, dtype=np.int64) + int(sh)
        elif kind == 'int16':
            arr = (np.array(w, dtype=np.int64) * sc).astype(np.int16)
        elif kind == 'int16wide':
            arr = ((2 * np.array(w, dtype=np.int64) - 3) * sc).astype(np.int16)
        elif kind == 'uint8':
            arr = (np.array(w, dtype=np.int64) * sc).astype(np.uint8)
        elif kind == 'float32':
            arr = np.array(w, dtype=np.float32)
            if arr.astype(float).tolist() != [float(v) for v in w]:
                r.disabled['word not exactly representable in float32'] += 1
                continue
        elif kind == 'tuple':
            arr = tuple(float(v) for v in w)
        else:
            arr = [float(v) for v in w]
        if sc == 1:
            c_tv, c_net = tv, net          # offsets: the identities do not depend on a constant shift
        else:
            # scaled record: exact identities of the (rounded) samples actually passed; positive scaling keeps
            # order, plateaus and turning points of the word
            c_tv, c_net, c_last, _ = exact_identities(arr.tolist())
            if c_last != last or len(set(arr.tolist())) != len(set(w)):
                r.disabled['scaled record does not preserve the order of the word'] += 1
                continue
            if kind == 'float':
                r.cls('delta:tiny-scale')
        ftv = float(c_tv)
        r.states += 1
        r.cls('delta:' + kind)
        if sh:
            r.cls('delta:offset')
        for name, fn in (('delta', pc.determine_peaks_only_delta_series),
                         ('cyclic', pc.determine_pseudo_cyclic_peak_only_series)):
            sub = {'w': w, 'input': kind, 'offset': sh}
            if sc != 1:
                sub['scale'] = sc
            ok, out = pcall(r, name + '.returns', sub, fn, arr)
            if not ok:
                continue
            s = check_delta_result(r, name, sub, out, n, allowed, c_tv, c_net, last)
            if s is None or sc != 1:
                continue
            if sh == 0:
                base[(kind, name)] = s
            elif (kind, name) in base:
                r.transitions += 1
                r.expect_close(name + '.shift', sub, s, base[(kind, name)], rtol=1e-9, scale=ftv)
        if kind != 'float' and ('float', 'delta') in base and sh == 0:
            # integer / list input describe the same series as float input
            for name in ('delta', 'cyclic'):
                if (kind, name) in base and ('float', name) in base:
                    r.transitions += 1
                    r.expect_close(name + '.input-type', {'w': w, 'input': kind}, base[(kind, name)],
                                   base[('float', name)], rtol=1e-9, scale=ftv)
    if ext:
        delta_sequences(r, w, allowed, tv, net, last)


# ------------------------------------------------------------------------------ power-law family
def check_series(r, claim, sub, out, n, ncol=None):
    """length / finite / non-decreasing; returns the normalised array or None."""
    s = as_series(out, n, ncol)
    if s is None:
        r.fail(claim + '.length', sub, 'result does not have the record length %d on its leading axis%s'
               % (n, '' if ncol is None else ' and %d columns' % ncol), observed=np.shape(out))
        return None
    r.n_cmp += 2
    if not np.all(np.isfinite(s)):
        r.fail(claim + '.finite', sub, 'non-finite values', observed=s)
        return None
    pk = float(np.max(np.abs(s))) if s.size else 0.0
    if s.shape[0] > 1 and np.any(np.diff(s, axis=0) < -1e-12 * pk):
        r.fail(claim + '.monotone', sub, 'series decreases', observed=s)
    return s


def last_row_sequence(r, sub, x, n, n_out, ns, a_ref, b):
    """N handed on exactly as the caller gets it: the last row of the returned cycle series (for an ndarray
    result a view into that series).  The SAME object is used first for the two-identical-components amplitude
    and then for the single-component amplitude: 2^b * a_ref and a_ref (inverse relation), and the cycle series
    the row belongs to is still the one that was returned."""
    try:
        row = n_out[-1]
    except Exception:
        return
    r.cls('n_cyc:last-row')
    s2 = dict(sub, n_cyc='last row of the cycle series')
    r.states += 1
    ok, out = pcall(r, 'powerlaw.combined.returns', s2, im.calc_cyc_amp_combined_arrays_w_power_law, x.copy(), x.copy(),
                    row, b)
    if ok:
        c = check_series(r, 'powerlaw.combined', s2, out, n)
        if c is not None:
            r.transitions += 1
            r.expect_close('powerlaw.inverse-combined', s2, float(c[-1]), 2.0 ** b * a_ref, rtol=1e-9,
                           what='combined amplitude of two identical components for N = cycles(a_ref)')
    s3 = dict(s2, after='combined')
    ok, out = pcall(r, 'powerlaw.amp.returns', s3, im.calc_cyc_amp_array_w_power_law, x.copy(), row, b)
    if ok:
        am = check_series(r, 'powerlaw.amp', s3, out, n)
        if am is not None:
            r.transitions += 1
            r.expect_close('powerlaw.inverse-same-n', s3, float(am[-1]), a_ref, rtol=1e-9,
                           what='amplitude for N = cycles(a_ref), same N object as in the preceding combined call')
    after = as_series(n_out, n)
    r.expect('powerlaw.result-stable', s2, after is not None and np.array_equal(after, ns),
             'the cycle series changed while its last row was used as n_cyc', observed=after, expected=ns)


def run_power(r, w, ext=False):
    n = len(w)
    x = np.array(w, dtype=float)
    exc = excursions(w)
    amax = max(abs(v) for v in w)
    if len(exc) >= 2:
        r.nontrivial += 1
    if any(v == 0 for v in w):
        r.cls('zero-valued-sample')
    if exc and exc[0][0][0] == 0 and abs(w[0]) == exc[0][1] and len(exc[0][0]) > 1:
        r.cls('first-excursion-max-at-0')
    if exc and exc[-1][0][-1] == n - 1 and abs(w[-1]) == exc[-1][1]:
        r.cls('last-sample-is-excursion-max')       # the last half cycle peaks on the final sample
    is_int = all(float(v).is_integer() for v in w)
    ys = [('2*reversed', 2.0 * x[::-1].copy()), ('-rolled', -np.roll(x, 1))]
    n_cache = {}
    a_cache = {}

    for b in BS:
        r.cls('scalar-b')
        for cut in CUTS:
            # classification of the excursion maxima against the cut-off, exact arithmetic on the floats given
            thr = Fraction(cut) * Fraction(amax)
            below, rounding = [], False
            for idx, pk in exc:
                p = Fraction(pk)
                if p == thr and cut > 0:
                    r.cls('cutoff-exact-tie')
                elif cut > 0 and abs(p - thr) <= Fraction(1, 10 ** 9) * thr:
                    rounding = True
                elif p < thr:
                    below.append(idx)
                if cut > 0 and pk == NEAR_LO and idx in below:
                    r.cls('near-cutoff-below')
                if cut > 0 and pk == NEAR_HI and idx not in below:
                    r.cls('near-cutoff-above')
            for a_ref in AREFS:
                sub = {'w': w, 'b': b, 'cut_off': cut, 'a_ref': a_ref}
                r.states += 1
                ok, out = pcall(r, 'powerlaw.n.returns', sub, im.calc_n_cyc_array_w_power_law, x.copy(), a_ref, b,
                                 cut_off=cut)
                if not ok:
                    continue
                ns = check_series(r, 'powerlaw.n', sub, out, n)
                if ns is None:
                    continue
                n_out, ns = out, np.array(ns)    # ns: private copy (the normalised series may be a view of the result)
                n_cache[(b, cut, a_ref)] = ns
                nf = float(ns[-1])
                if cut == 0 and any(0 < pk * 100 < amax for idx, pk in exc):
                    # the smallest allowed cut-off on data where it differs from every "small" positive one
                    r.cls('no-cutoff-peak-below-1%')
                if not r.expect('powerlaw.inverse', sub, nf > 0, 'final equivalent number of cycles is not positive',
                                observed=ns):
                    continue
                if rounding:
                    r.disabled['cut-off comparison undecided at rounding level'] += 1
                elif not below:
                    # mutually inverse, at the end of the record and at every index where cycles were counted
                    r.cls('inverse-checked')
                    # counts that consist only of the library's 1e-14 stand-in for zero-valued peaks are not
                    # cycle counts (same 1e-9-of-the-final-value rule as for the scaling relation)
                    vals = sorted(set(float(t) for t in ns if t > 1e-9 * nf), reverse=True)
                    if a_ref != AREFS[-1]:
                        vals = vals[:1]      # interior indices on one a_ref only (cost); end of record always
                    for v in vals:
                        where = [i for i in range(n) if float(ns[i]) == v]
                        s2 = dict(sub, N=v)
                        ok, out = pcall(r, 'powerlaw.amp.returns', s2, im.calc_cyc_amp_array_w_power_law, x.copy(), v, b)
                        if not ok:
                            continue
                        am = check_series(r, 'powerlaw.amp', s2, out, n)
                        if am is None:
                            continue
                        r.transitions += 1
                        if n - 1 in where:
                            r.expect_close('powerlaw.inverse', sub, float(am[-1]), a_ref, rtol=1e-9,
                                           what='amplitude for N = cycles(a_ref) at the end of the record')
                        inner = [i for i in where if i != n - 1]
                        if inner:
                            r.cls('inverse-interior-index')
                            r.expect_close('powerlaw.inverse-series', dict(sub, at=inner), am[inner],
                                           np.full(len(inner), a_ref), rtol=1e-9,
                                           what='amplitude for N = cycles(a_ref)[i] at index i')
                    if a_ref == AREFS[-1] and cut == CUTS[0]:
                        last_row_sequence(r, sub, x, n, n_out, ns, a_ref, b)
                else:
                    r.cls('sub-cutoff-peak')
                    # (i) counting with the cut-off == counting the record with those excursions removed
                    x0 = x.copy()
                    for idx in below:
                        x0[idx] = 0.0
                    ok, out = pcall(r, 'powerlaw.n.returns', dict(sub, zeroed=below), im.calc_n_cyc_array_w_power_law,
                                     x0, a_ref, b, cut_off=0.0)
                    if ok:
                        n0 = check_series(r, 'powerlaw.n', dict(sub, zeroed=below), out, n)
                        if n0 is not None:
                            r.transitions += 1
                            r.expect_close('powerlaw.cutoff', sub, ns, n0, rtol=1e-9, scale=float(n0[-1]),
                                           what='cycles with cut-off vs cycles of the record without the excursions '
                                                'below the cut-off')
                    # (ii) direct formulas over the reference excursion maxima
                    kept = [pk for idx, pk in exc if idx not in below]
                    want_n = sum(0.5 * (pk / a_ref) ** (1.0 / b) for pk in kept)
                    r.expect_close('powerlaw.cutoff-direct-n', sub, nf, want_n, rtol=1e-9,
                                   what='final cycles vs sum over excursion maxima not below the cut-off')
                    ok, out = pcall(r, 'powerlaw.amp.returns', dict(sub, N=nf), im.calc_cyc_amp_array_w_power_law,
                                     x.copy(), nf, b)
                    if ok:
                        am = check_series(r, 'powerlaw.amp', dict(sub, N=nf), out, n)
                        if am is not None:
                            want_a = (sum(pk ** (1.0 / b) for idx, pk in exc) / 2.0 / nf) ** b
                            r.expect_close('powerlaw.cutoff-direct-amp', sub, float(am[-1]), want_a, rtol=1e-9,
                                           what='final amplitude vs power mean over all excursion maxima')
                # cycles are invariant when record and reference amplitude scale together
                if a_ref != AREFS[0]:
                    continue
                ok, out = pcall(r, 'powerlaw.n.returns', dict(sub, alpha=ALPHA_N), im.calc_n_cyc_array_w_power_law,
                                 ALPHA_N * x, ALPHA_N * a_ref, b, cut_off=cut)
                if ok:
                    n2 = check_series(r, 'powerlaw.n', dict(sub, alpha=ALPHA_N), out, n)
                    if n2 is not None:
                        r.transitions += 1
                        r.expect_close('powerlaw.n-scaling', dict(sub, alpha=ALPHA_N), n2, ns, rtol=1e-9, scale=nf)

        # ---- amplitude for a fixed number of cycles
        sub = {'w': w, 'b': b, 'n_cyc': NCYC}
        r.states += 1
        ok, out = pcall(r, 'powerlaw.amp.returns', sub, im.calc_cyc_amp_array_w_power_law, x.copy(), NCYC, b)
        a1 = check_series(r, 'powerlaw.amp', sub, out, n) if ok else None
        if a1 is None:
            continue
        a_cache[b] = a1
        pk1 = float(a1[-1])
        r.expect('powerlaw.amp.positive', sub, pk1 > 0, 'final equivalent amplitude of a non-zero record is not positive',
                 observed=a1)
        for alpha in (ALPHA_AMP,):
            s2 = dict(sub, alpha=alpha)
            ok, out = pcall(r, 'powerlaw.amp.returns', s2, im.calc_cyc_amp_array_w_power_law, alpha * x, NCYC, b)
            if ok:
                a3 = check_series(r, 'powerlaw.amp', s2, out, n)
                if a3 is not None:
                    r.transitions += 1
                    r.expect_close('powerlaw.amp-scaling', s2, a3, alpha * a1, rtol=1e-9)
        ok, out = pcall(r, 'powerlaw.combined.returns', sub, im.calc_cyc_amp_combined_arrays_w_power_law, x.copy(),
                         x.copy(), NCYC, b)
        if ok:
            c = check_series(r, 'powerlaw.combined', sub, out, n)
            if c is not None:
                r.transitions += 1
                r.expect_close('powerlaw.combined-identical', sub, c, 2.0 ** b * a1, rtol=1e-9)
        # the same number of cycles held in an ndarray (0-d, one element)
        for cname, n_arr in (('0-d', np.array(NCYC)), ('(1,)', np.array([NCYC]))):
            s2 = dict(sub, n_cyc_container=cname)
            r.cls('n_cyc:' + cname)
            r.states += 1
            ok, out = pcall(r, 'powerlaw.combined.returns', s2, im.calc_cyc_amp_combined_arrays_w_power_law, x.copy(),
                            x.copy(), n_arr, b)
            if ok:
                cc = check_series(r, 'powerlaw.combined', s2, out, n)
                if cc is not None:
                    r.transitions += 1
                    r.expect_close('powerlaw.combined-identical', s2, cc, 2.0 ** b * a1, rtol=1e-9)
        ok, out = pcall(r, 'powerlaw.gm.returns', sub, im.calc_cyc_amp_gm_arrays_w_power_law, x.copy(), x.copy(), NCYC, b)
        if ok:
            g = check_series(r, 'powerlaw.gm', sub, out, n)
            if g is not None:
                r.transitions += 1
                r.expect_close('powerlaw.gm-identical', sub, g, a1, rtol=1e-9)
        # two different components: definition of a geometric mean, symmetry of both two-component measures
        for yname, y in (ys[1:] if b == BS[1] else ys[:1]):
            s2 = dict(sub, second=yname)
            r.states += 1
            ok, out = pcall(r, 'powerlaw.amp.returns', s2, im.calc_cyc_amp_array_w_power_law, y.copy(), NCYC, b)
            ay = check_series(r, 'powerlaw.amp', s2, out, n) if ok else None
            got = {}
            for fname, fn in (('gm', im.calc_cyc_amp_gm_arrays_w_power_law),
                              ('combined', im.calc_cyc_amp_combined_arrays_w_power_law)):
                for order in ('xy', 'yx'):
                    p, q = (x, y) if order == 'xy' else (y, x)
                    ok, out = pcall(r, 'powerlaw.%s.returns' % fname, dict(s2, order=order), fn, p.copy(), q.copy(), NCYC, b)
                    if ok:
                        got[(fname, order)] = check_series(r, 'powerlaw.' + fname, dict(s2, order=order), out, n)
            if ay is not None and got.get(('gm', 'xy')) is not None:
                r.cls('gm-different-components')
                r.transitions += 1
                r.expect_close('powerlaw.gm-definition', s2, got[('gm', 'xy')], np.sqrt(a1 * ay), rtol=1e-9,
                               scale=max(pk1, float(ay[-1])))
            for fname in ('gm', 'combined'):
                if got.get((fname, 'xy')) is not None and got.get((fname, 'yx')) is not None:
                    r.transitions += 1
                    r.expect_close('powerlaw.%s-symmetric' % fname, s2, got[(fname, 'yx')], got[(fname, 'xy')], rtol=1e-9)

    # ---- array b: leading axis is the record, one column per exponent, columns equal the scalar runs
    barr = np.array(B_ARR)
    sub = {'w': w, 'b': list(B_ARR), 'a_ref': 2.0, 'cut_off': 0.0}
    r.cls('array-b')
    r.states += 1
    ok, out = pcall(r, 'powerlaw.array-b.n', sub, im.calc_n_cyc_array_w_power_law, x.copy(), 2.0, barr, cut_off=0.0)
    if ok:
        nb = check_series(r, 'powerlaw.array-b.n', sub, out, n, ncol=len(B_ARR))
        if nb is not None:
            for j, b in enumerate(B_ARR):
                if (b, 0.0, 2.0) in n_cache:
                    r.transitions += 1
                    r.expect_close('powerlaw.array-b.n', dict(sub, column=j), nb[:, j], n_cache[(b, 0.0, 2.0)], rtol=1e-9)
        # mutually inverse with array b: N = last row of the cycle series (one N per exponent), as returned
        try:
            rowb = out[-1]
        except Exception:
            rowb = None
        if nb is not None and rowb is not None and np.all(nb[-1] > 0):
            r.cls('inverse-array-b')
            s2 = dict(sub, n_cyc='last row of the cycle series')
            nb = np.array(nb)
            ok, out2 = pcall(r, 'powerlaw.array-b.amp', s2, im.calc_cyc_amp_array_w_power_law, x.copy(), rowb, barr)
            if ok:
                ab = check_series(r, 'powerlaw.array-b.amp', s2, out2, n, ncol=len(B_ARR))
                if ab is not None:
                    r.transitions += 1
                    r.expect_close('powerlaw.array-b.inverse', s2, ab[-1], np.full(len(B_ARR), 2.0), rtol=1e-9,
                                   what='amplitude for N = cycles(a_ref) at the end of the record, per exponent')
            after = as_series(out, n, ncol=len(B_ARR))
            r.expect('powerlaw.result-stable', s2, after is not None and np.array_equal(after, nb),
                     'the cycle series changed while its last row was used as n_cyc', observed=after, expected=nb)
    sub = {'w': w, 'b': list(B_ARR), 'n_cyc': NCYC}
    for fname, fn, args in (('amp', im.calc_cyc_amp_array_w_power_law, (x.copy(),)),
                            ('gm', im.calc_cyc_amp_gm_arrays_w_power_law, (x.copy(), x.copy()))):
        ok, out = pcall(r, 'powerlaw.array-b.' + fname, sub, fn, *(args + (NCYC, barr)))
        if ok:
            ab = check_series(r, 'powerlaw.array-b.' + fname, sub, out, n, ncol=len(B_ARR))
            if ab is not None:
                for j, b in enumerate(B_ARR):
                    if b in a_cache:
                        r.transitions += 1
                        r.expect_close('powerlaw.array-b.' + fname, dict(sub, column=j), ab[:, j], a_cache[b], rtol=1e-9)
    # ---- integer records describe the same series
    if is_int:
        r.cls('int-input')
        xi = np.array([int(v) for v in w], dtype=np.int64)
        b = 0.34
        sub = {'w': w, 'b': b, 'cut_off': 0.1, 'a_ref': 2.0, 'input': 'int'}
        r.states += 1
        ok, out = pcall(r, 'powerlaw.n.returns', sub, im.calc_n_cyc_array_w_power_law, xi, 2.0, b, cut_off=0.1)
        if ok and (b, 0.1, 2.0) in n_cache:
            ni = check_series(r, 'powerlaw.n', sub, out, n)
            if ni is not None:
                r.expect_close('powerlaw.int-input', sub, ni, n_cache[(b, 0.1, 2.0)], rtol=1e-9)
        sub = {'w': w, 'b': b, 'n_cyc': NCYC, 'input': 'int'}
        ok, out = pcall(r, 'powerlaw.amp.returns', sub, im.calc_cyc_amp_array_w_power_law, xi, NCYC, b)
        if ok and b in a_cache:
            ai = check_series(r, 'powerlaw.amp', sub, out, n)
            if ai is not None:
                r.expect_close('powerlaw.int-input', sub, ai, a_cache[b], rtol=1e-9)
    if ext:
        run_power_ext(r, w, x, exc, amax, is_int, n_cache, a_cache)


# ------------------------------------------------------------------------------ power-law family: extended sub-family
def _rel(r, claim, sub, fn, args, kw, n, want, scale=None, what=''):
    """call (purity-checked), series checks, comparison with `want` (None: no comparison); returns the series or None.
    The series checks are filed under the function's own claim (powerlaw.n / .amp / .gm / .combined)."""
    base = {im.calc_n_cyc_array_w_power_law: 'powerlaw.n', im.calc_cyc_amp_array_w_power_law: 'powerlaw.amp',
            im.calc_cyc_amp_gm_arrays_w_power_law: 'powerlaw.gm',
            im.calc_cyc_amp_combined_arrays_w_power_law: 'powerlaw.combined'}[fn]
    ok, out = pcall(r, base + '.returns', sub, fn, *args, **kw)
    if not ok:
        return None
    ser = check_series(r, base, sub, out, n)
    if ser is not None and want is not None:
        r.transitions += 1
        r.expect_close(claim, sub, ser, want, rtol=1e-9, scale=scale, what=what)
    return ser


def run_power_ext(r, w, x, exc, amax, is_int, n_cache, a_cache):
    """Hidden tolerances, containers / dtypes, returned arrays and module-level state (see the module docstring).  Every
    expectation is a relation to the float64 runs of run_power (n_cache / a_cache) or, for the interposed record B, the direct
    sum over its excursion maxima."""
    n = len(w)
    N_FN, A_FN = im.calc_n_cyc_array_w_power_law, im.calc_cyc_amp_array_w_power_law
    G_FN, C_FN = im.calc_cyc_amp_gm_arrays_w_power_law, im.calc_cyc_amp_combined_arrays_w_power_law
    # ---- (a) absolute level of the record: amplitude relation for a tiny / large record, joint scaling to a tiny level
    for b in BS:
        if b in a_cache:
            for alpha in ALPHA_AMP_EXT:
                r.cls('power:tiny-amplitude' if alpha < 1 else 'power:large-amplitude')
                r.states += 1
                _rel(r, 'powerlaw.amp-scaling', {'w': w, 'b': b, 'n_cyc': NCYC, 'alpha': alpha}, A_FN, (alpha * x, NCYC, b), {}, n,
                     alpha * a_cache[b])
        for cut in CUTS:
            key = (b, cut, AREFS[0])
            if key not in n_cache:
                continue
            # RESTRICTED: with a positive cut-off only records without a zero sample and without an excursion maximum below the
            # cut-off.  On the unchanged tree such maxima (and zero-valued turning points) are replaced by the ABSOLUTE level
            # 1e-14, which is no longer negligible next to a_ref ~ 5e-10: calc_n_cyc_array_w_power_law([3, -0.2] * 2^-30,
            # 0.5 * 2^-30, b=1, cut_off=0.1)[-1] = 3.0000107 instead of 3.00000000000001 (reported; lift when repaired).
            if cut > 0 and (any(v == 0 for v in w) or any(Fraction(pk) < Fraction(cut) * Fraction(amax) for idx, pk in exc)):
                r.disabled['tiny joint scaling: sub-cut-off or zero-valued peak (library uses the absolute level 1e-14)'] += 1
                continue
            r.cls('power:tiny-joint-scale')
            r.states += 1
            ref = n_cache[key]
            _rel(r, 'powerlaw.n-scaling', {'w': w, 'b': b, 'cut_off': cut, 'a_ref': AREFS[0], 'alpha': ALPHA_N_EXT}, N_FN,
                 (ALPHA_N_EXT * x, ALPHA_N_EXT * AREFS[0], b), {'cut_off': cut}, n, ref, scale=float(ref[-1]))
    b = B_MID
    a1 = a_cache.get(b)
    nref = n_cache.get((b, 0.1, 2.0))       # cut_off 0.1, a_ref 2.0
    nref0 = n_cache.get((b, 0.0, 2.0))
    if a1 is None or nref is None or nref0 is None:
        return      # the float64 runs failed: reported there
    two_b = 2.0 ** b
    # ---- (b) narrow / unsigned integer records with large steps: the levels 1, 2, 3 of the word become 1, k/3, k (int8: k = 120,
    # uint8, non-negative words: k = 240; squares and products of the samples do not fit the type, the level 1 is a peak below a
    # 10 % cut-off).  Expected: the float64 record with the same samples, whose end-of-record values are checked against the direct
    # sums over its excursion maxima.
    if is_int:
        recs = [('int8', np.int8, 120)]
        if min(w) >= 0:
            recs.append(('uint8', np.uint8, 240))
        for kind, dt, k in recs:
            lv = {0: 0, 1: 1, 2: k // 3, 3: k}
            wi = [(1 if v > 0 else -1) * lv[abs(int(v))] for v in w]
            if len(set(wi)) < 2:
                continue
            xi = np.array(wi, dtype=dt)
            xf = np.array(wi, dtype=float)
            r.cls('power:' + kind)
            r.states += 1
            sub = {'w': w, 'b': b, 'input': kind, 'samples': wi}
            a_ref = k // 2
            exi = excursions(wi)
            top = max(pk for idx, pk in exi)
            kept = [pk for idx, pk in exi if Fraction(pk) >= Fraction(0.1) * top]
            nf_ = _rel(r, 'powerlaw.n', dict(sub, input='float64', cut_off=0.1, a_ref=a_ref), N_FN, (xf, float(a_ref), b),
                       {'cut_off': 0.1}, n, None)
            af_ = _rel(r, 'powerlaw.amp', dict(sub, input='float64', n_cyc=NCYC), A_FN, (xf, NCYC, b), {}, n, None)
            if nf_ is None or af_ is None:
                continue
            nf_, af_ = np.array(nf_), np.array(af_)
            r.expect_close('powerlaw.n.direct', dict(sub, input='float64'), float(nf_[-1]),
                           sum(0.5 * (pk / float(a_ref)) ** (1.0 / b) for pk in kept), rtol=1e-9,
                           what='final cycles vs sum over excursion maxima not below the cut-off')
            r.expect_close('powerlaw.amp.direct', dict(sub, input='float64'), float(af_[-1]),
                           (sum(pk ** (1.0 / b) for idx, pk in exi) / 2.0 / NCYC) ** b, rtol=1e-9,
                           what='final amplitude vs power mean over all excursion maxima')
            _rel(r, 'powerlaw.n.int-input', dict(sub, cut_off=0.1, a_ref=a_ref), N_FN, (xi, a_ref, b), {'cut_off': 0.1}, n, nf_,
                 scale=float(nf_[-1]))
            _rel(r, 'powerlaw.amp.int-input', dict(sub, n_cyc=NCYC), A_FN, (xi, NCYC, b), {}, n, af_)
            _rel(r, 'powerlaw.gm.int-input', dict(sub, n_cyc=NCYC), G_FN, (xi, xi.copy(), NCYC, b), {}, n, af_)
            _rel(r, 'powerlaw.combined.int-input', dict(sub, n_cyc=NCYC), C_FN, (xi, xi.copy(), NCYC, b), {}, n, two_b * af_)
        xi = np.array([int(v) for v in w], dtype=np.int64)
        for nm, ar in (('int', 2), ('np.int64', np.int64(2))):
            r.cls('a_ref:int')
            _rel(r, 'powerlaw.n.int-input', {'w': w, 'b': b, 'cut_off': 0.1, 'input': 'int64', 'a_ref': nm}, N_FN, (xi, ar, b),
                 {'cut_off': 0.1}, n, nref, scale=float(nref[-1]))
    for kind, mk in (('list', lambda: [float(v) for v in w]), ('tuple', lambda: tuple(float(v) for v in w))):
        r.cls('power:' + kind)
        r.states += 1
        sub = {'w': w, 'b': b, 'n_cyc': NCYC, 'input': kind}
        _rel(r, 'powerlaw.amp.input-type', sub, A_FN, (mk(), NCYC, b), {}, n, a1)
        _rel(r, 'powerlaw.gm.input-type', sub, G_FN, (mk(), mk(), NCYC, b), {}, n, a1)
        _rel(r, 'powerlaw.combined.input-type', sub, C_FN, (mk(), mk(), NCYC, b), {}, n, two_b * a1)
    # ---- (b) the exponent held in a numpy scalar / a 0-d / a one-element ndarray
    for nm, bb in (('np.float64', np.float64(b)), ('0-d', np.array(b)), ('(1,)', np.array([b]))):
        r.cls('b:' + nm)
        r.states += 1
        sub = {'w': w, 'b': b, 'b_container': nm}
        _rel(r, 'powerlaw.n.b-container', dict(sub, a_ref=2.0, cut_off=0.0), N_FN, (x.copy(), 2.0, bb), {'cut_off': 0.0}, n, nref0,
             scale=float(nref0[-1]))
        _rel(r, 'powerlaw.amp.b-container', dict(sub, n_cyc=NCYC), A_FN, (x.copy(), NCYC, bb), {}, n, a1)
        _rel(r, 'powerlaw.gm.b-container', dict(sub, n_cyc=NCYC), G_FN, (x.copy(), x.copy(), NCYC, bb), {}, n, a1)
        if nm == 'np.float64':      # the combined measure documents b as a float
            _rel(r, 'powerlaw.combined.b-container', dict(sub, n_cyc=NCYC), C_FN, (x.copy(), x.copy(), NCYC, bb), {}, n, two_b * a1)
    # ---- (b) an integer-typed number of cycles
    sub = {'w': w, 'b': b, 'n_cyc': float(N_INT)}
    base_a = _rel(r, 'powerlaw.amp', sub, A_FN, (x.copy(), float(N_INT), b), {}, n, None)
    base_c = _rel(r, 'powerlaw.combined-identical', sub, C_FN, (x.copy(), x.copy(), float(N_INT), b), {}, n,
                  None if base_a is None else two_b * base_a)
    for nm, nn in (('int', N_INT), ('int-ndarray', np.array([N_INT]))):
        r.cls('n_cyc:' + nm)
        r.states += 1
        sub = {'w': w, 'b': b, 'n_cyc': N_INT, 'n_cyc_container': nm}
        if base_a is not None:
            _rel(r, 'powerlaw.amp.n_cyc-container', sub, A_FN, (x.copy(), nn, b), {}, n, np.array(base_a))
        if base_c is not None:
            _rel(r, 'powerlaw.combined.n_cyc-container', sub, C_FN, (x.copy(), x.copy(), nn, b), {}, n, np.array(base_c))
    # ---- (f) the smallest exponent: mutually inverse at the end of the record (no cut-off)
    r.cls('b:smallest')
    r.states += 1
    sub = {'w': w, 'b': B_MIN, 'cut_off': 0.0, 'a_ref': 2.0}
    ns = _rel(r, 'powerlaw.n', sub, N_FN, (x.copy(), 2.0, B_MIN), {'cut_off': 0.0}, n, None)
    if ns is not None and r.expect('powerlaw.inverse', sub, float(ns[-1]) > 0, 'final equivalent number of cycles is not positive',
                                   observed=ns):
        nf = float(ns[-1])
        am = _rel(r, 'powerlaw.amp', dict(sub, N=nf), A_FN, (x.copy(), nf, B_MIN), {}, n, None)
        if am is not None:
            r.transitions += 1
            r.expect_close('powerlaw.inverse', sub, float(am[-1]), 2.0, rtol=1e-9,
                           what='amplitude for N = cycles(a_ref) at the end of the record, smallest exponent')
    # ---- (d), (e) returned arrays and module-level state: A, A, B, A with the earlier results overwritten in place by the caller.
    # B: same length, same first and last sample, every interior sample v replaced by -v -+ 0.5 (never a level of the alphabet,
    # so B is neither constant nor A); B is checked at the end of the record against the direct sums over its excursion maxima.
    A, A2 = x.copy(), x.copy()
    if n >= 3:
        r.cls('power:A-B-A')
        wb = [w[0]] + [(-v - 0.5 if v >= 0 else -v + 0.5) for v in w[1:-1]] + [w[-1]]
        B, B2 = np.array(wb, dtype=float), np.array(wb, dtype=float)
        excb = excursions(wb)
        want_n = sum(0.5 * (pk / 2.0) ** (1.0 / b) for idx, pk in excb)
        want_a = (sum(pk ** (1.0 / b) for idx, pk in excb) / 2.0 / NCYC) ** b
    else:
        wb = None
    seqs = (('n', N_FN, lambda u, v: (u, 2.0, b), {'cut_off': 0.0}, lambda: want_n),
            ('amp', A_FN, lambda u, v: (u, NCYC, b), {}, lambda: want_a),
            ('gm', G_FN, lambda u, v: (u, v, NCYC, b), {}, lambda: want_a),
            ('combined', C_FN, lambda u, v: (u, v, NCYC, b), {}, lambda: two_b * want_a))
    for name, fn, mk, kw, want in seqs:
        sub = {'w': w, 'b': b, 'sequence': 'A,A' if wb is None else 'A,A,B,A', 'fn': name}
        r.states += 1
        ok, out1 = pcall(r, 'powerlaw.%s.returns' % name, sub, fn, *mk(A, A2), **kw)
        s1 = check_series(r, 'powerlaw.' + name, sub, out1, n) if ok else None
        if s1 is None:
            continue
        keep = np.array(s1)
        if isinstance(out1, np.ndarray) and out1.flags.writeable:
            out1[...] = 77.0    # the caller re-uses the array it got back
        if wb is not None:
            # A again at once (a result handed out twice would now hold the caller's values), then B
            ok, out2 = pcall(r, 'powerlaw.%s.returns' % name, dict(sub, call='second'), fn, *mk(A, A2), **kw)
            if ok:
                r.transitions += 1
                r.expect_close('powerlaw.%s.repeatable' % name, dict(sub, call='second'),
                               as_series(out2, n) if as_series(out2, n) is not None else out2, keep, rtol=1e-12,
                               what='the same record gives another result after the first result was overwritten in place by '
                                    'the caller')
                if isinstance(out2, np.ndarray) and out2.flags.writeable:
                    out2[...] = 77.0
            sb = dict(sub, B=wb)
            ok, outb = pcall(r, 'powerlaw.%s.returns' % name, sb, fn, *mk(B, B2), **kw)
            sbs = check_series(r, 'powerlaw.' + name, sb, outb, n) if ok else None
            if sbs is not None:
                r.expect_close('powerlaw.%s.direct' % name, sb, float(sbs[-1]), want(), rtol=1e-9,
                               what='end-of-record value of the interposed record B vs the direct sum over its excursion maxima')
        ok, out3 = pcall(r, 'powerlaw.%s.returns' % name, dict(sub, call='last'), fn, *mk(A, A2), **kw)
        if ok:
            r.transitions += 1
            r.expect_close('powerlaw.%s.repeatable' % name, sub, as_series(out3, n) if as_series(out3, n) is not None else out3,
                           keep, rtol=1e-12,
                           what='the same record gives another result after the first result was overwritten in place by the '
                                'caller' + ('' if wb is None else ' and the function was called on another record of the same '
                                                                  'length and end samples'))


LONG_PEAK_COUNTS = (1025, 2100, 513, 5001, 4096, 2601, 1023, 3333)


def zigzag(p, variant):
    """p+1 samples, every interior sample a turning point; amplitudes vary (small integers: all sums exact in floating point)"""
    out = [0.0]
    for i in range(1, p + 1):
        amp = 1 + (i * 7 + variant) % 5
        out.append(float(amp if i % 2 else -amp + (variant % 2)))
    if variant >= 2:
        out.append(out[-1])          # ends on a plateau
    return out


def run_long(r, counts):
    for variant in (0, 1, 2):
        for p in counts:
            w = zigzag(p, variant)
            n = len(w)
            tv, net, last, first = exact_identities(w)
            allowed = set(range(n))
            r.states += 1
            r.nontrivial += 1
            r.cls('long-zigzag')
            x = np.array(w, dtype=float)
            snap = x.tobytes()
            for name, fn in (('delta', pc.determine_peaks_only_delta_series), ('cyclic', pc.determine_pseudo_cyclic_peak_only_series)):
                sub = {'zigzag_turning_points': p, 'variant': variant, 'sequence': list(counts)}
                ok, out = r.call(name, sub, fn, x)
                if ok:
                    check_delta_result(r, name, sub, out, n, allowed, tv, net, last)
                if x.tobytes() != snap:
                    r.fail(name + '.input-unchanged', sub, 'the record was modified')
                    x = np.array(w, dtype=float)


def run_refill(r, w):
    """One float64 array object handed to the four power-law functions, edited in place by the caller, handed over again: the answer
    is the one for the content (compared with the same call on a private copy made after the edit)."""
    x = np.array(w, dtype=float)
    r.nontrivial += 1
    edits = (('x -= 1.5', lambda a: a.__isub__(1.5)), ('x[...] = x[::-1]', lambda a: a.__setitem__(Ellipsis, a[::-1].copy())),
             ('x *= -0.5', lambda a: a.__imul__(-0.5)), ('x += 2.25', lambda a: a.__iadd__(2.25)))
    fns = (('cycles', lambda a: im.calc_n_cyc_array_w_power_law(a, 2.0, 0.34, cut_off=0.0)),
           ('amplitude', lambda a: im.calc_cyc_amp_array_w_power_law(a, NCYC, 0.34)),
           ('gm', lambda a: im.calc_cyc_amp_gm_arrays_w_power_law(a, a, NCYC, 0.34)),
           ('combined', lambda a: im.calc_cyc_amp_combined_arrays_w_power_law(a, a, NCYC, 0.34)))
    for fname, fn in fns:
        x[...] = np.array(w, dtype=float)
        try:
            fn(x)
        except Exception:
            pass
        for ename, ed in edits:
            ed(x)
            if len(set(x.tolist())) < 2:
                continue
            sub = {'w': w, 'fn': fname, 'edited_in_place': ename, 'content_now': x.tolist()}
            r.states += 1
            ok, got = r.call('refill.' + fname, sub, fn, x)
            ok2, want = r.call('refill.' + fname, dict(sub, on='private copy'), fn, x.copy())
            if ok and ok2:
                r.cls('array-edited-in-place-between-calls')
                try:
                    g = np.asarray(got, dtype=float)
                    wv = np.asarray(want, dtype=float)
                    same = g.shape == wv.shape and bool(np.all((g == wv) | (np.isnan(g) & np.isnan(wv))))
                except Exception:
                    same = False
                r.n_cmp += 1
                if not same:
                    r.fail('refill.' + fname, sub, 'after the caller edited its array in place the result is not the one for the new content '
                           '(the same call on a copy of the array gives another answer)', observed=got, expected=want)


def run_case(case):
    r = Res()
    kind, w = case[0], list(case[1])
    ext = bool(len(case) > 2 and case[2])
    if kind == 'L':
        run_long(r, w)
        return r
    if kind == 'R':
        run_refill(r, w)
        return r
    if kind == 'd':
        run_delta(r, w, ext=ext)
    else:
        run_power(r, w, ext=ext)
    return r


def snippet(case, v):
    kind, w = case[0], case[1]
    if kind in ('L', 'R'):
        return "# see run_long / run_refill in mcheck/props/c13.py; sub = %r\n" % (v.get('sub'),)
    if kind == 'd':
        return ("import numpy as np\nfrom eqsig.fns import peaks_and_crossings as pc\n"
                "w = %r\nsub = %r\nx = np.array(w, float) * sub.get('scale', 1) + sub.get('offset', 0)\n"
                "print(pc.determine_peaks_only_delta_series(x))\nprint(pc.determine_pseudo_cyclic_peak_only_series(x))\n"
                "print('total variation', np.sum(np.abs(np.diff(x))), 'end-start', x[-1] - x[0])\n" % (w, v.get('sub')))
    return ("import numpy as np\nfrom eqsig import im\nfrom eqsig.fns import peaks_and_crossings as pc\n"
            "w = %r\nsub = %r\nx = np.array(w, float)\n"
            "print('switched peaks', pc.get_switched_peak_array_indices(x))\n"
            "b = sub['b'] if not isinstance(sub['b'], list) else np.array(sub['b'])\n"
            "n = im.calc_n_cyc_array_w_power_law(x, sub.get('a_ref', 2.0), b, cut_off=sub.get('cut_off', 0.0)); print('n', n)\n"
            "print('amp(N=n[-1])', im.calc_cyc_amp_array_w_power_law(x, n[-1], b))\n"
            "print('amp(N=7.5)', im.calc_cyc_amp_array_w_power_law(x, 7.5, b))\n"
            "if not isinstance(sub['b'], list):\n"
            "    row = n[-1]; print('N object', repr(row))\n"
            "    print('combined(x, x, N)[-1]', im.calc_cyc_amp_combined_arrays_w_power_law(x, x.copy(), row, b)[-1], 'N object now', repr(row))\n"
            "    print('amp(N)[-1] afterwards', im.calc_cyc_amp_array_w_power_law(x, row, b)[-1])\n" % (w, v.get('sub')))
