"""C13 - peak-only series conserve total variation; power-law cycle measures are inverse.

Engine T x G.  Two families of pool cases (one word per case, all configurations inside):

 'd'  every non-constant word over {0..3}, and every non-constant word over the wide-dynamic-range
      alphabet {7, M+7, M+9, M+6} (M = 2^22: steps of 1..3 at a distance of 4e6 from the other
      level, all exact integers): peaks-only delta series and pseudo-cyclic peak series, float /
      int / list input, constant offsets {+5, -2.5}, and the float record scaled by 1e-9 (a
      record whose whole amplitude is tiny in absolute terms).  Oracle: conservation identities
      evaluated in exact rationals on the samples actually passed (total variation,
      end-minus-start, direction of the last movement) and a run-compression turning-point scan.
 'p'  every non-constant word over {-3..3} + {0.2} + {0.02} (0.2 is a non-zero peak below a 10 %
      cut-off when the record peak is 3 and exactly ON the cut-off when it is 2; 0.02 is a
      non-zero peak below 1 % of a record peak of 3, i.e. data on which the smallest allowed
      cut-off, 0, differs from every small positive one): power-law equivalent
      cycles / equivalent amplitude, b x cut_off x a_ref menu, scalar and array b.  Oracle:
      relations between executions (inverse, scaling, 2^b, geometric mean), plus - only where a
      non-zero peak lies below the cut-off, so that the inverse relation cannot hold - the direct
      formula over reference excursion maxima and the relation "counting with a cut-off ==
      counting the record with the sub-cut-off excursions zeroed, without cut-off".
      n_cyc is passed as a python float, as a 0-d and a (1,) ndarray, and as the last row of the
      cycle series exactly as returned (the object a caller hands on); the same n_cyc object is
      used for a sequence of calls (combined, then single component).

Every call goes through pcall(): all ndarray / list arguments are snapshotted around the call
(a query leaves its arguments unchanged).
"""
from fractions import Fraction

import numpy as np

from ..target import im, peaks_and_crossings as pc
from ..result import Res
from ..compare import words, snapshot

SIG_D = (0, 1, 2, 3)
WIDE_M = 2 ** 22    # distance between the two levels of the wide-dynamic-range alphabet (exact in float64 / int64)
SIG_W = (7, WIDE_M + 7, WIDE_M + 9, WIDE_M + 6)
TINY_SCALE = 1e-9   # the float record scaled to a tiny absolute amplitude
TINY = 0.02         # non-zero level below 1 % of the largest level 3
SIG_P = (-3, -2, -1, 0, TINY, 0.2, 1, 2, 3)
BS = (0.1, 0.34, 1.0)
B_ARR = (0.1, 0.34)
CUTS = (0.0, 0.1)
AREFS = (0.5, 2.0)
NCYC = 7.5
SHIFTS = (5, -2.5)
ALPHA_AMP = 3.0     # amplitude scaling factor
ALPHA_N = 4.0       # joint scaling of record and a_ref (dyadic: every threshold comparison commutes with it)


def build(tier, seed):
    ld = 7 if tier == 'quick' else 8
    lw = ld - 1
    lp = 5 if tier == 'quick' else 6
    cases = [['d', list(w)] for w in words(SIG_D, 2, ld, nonconstant=True)]
    cases += [['d', list(w)] for w in words(SIG_W, 2, lw, nonconstant=True)]
    # power-law family: all words over {-3..3} up to lp, all words containing the 0.2 level up to lp-1,
    # all words containing the 0.02 level up to lp-2
    cases += [['p', list(w)] for w in words(SIG_P, 2, lp, nonconstant=True)
              if (0.2 not in w or len(w) < lp) and (TINY not in w or len(w) < lp - 1)]
    return {
        'cases': cases,
        'rule': "'d': all non-constant words over {0..3} of length 2..%d and over the wide-range alphabet %s of length 2..%d "
                "x {float64, int64, list} x offsets {0,+5,-2.5} + the float record scaled by %g "
                "x {delta series, pseudo-cyclic series}; 'p': all non-constant words over {-3..3} of length 2..%d, over {-3..3}+{0.2} of length 2..%d "
                "and over {-3..3}+{0.2}+{%s} of length 2..%d "
                "x b in %s (+ array b %s) x cut_off in %s x a_ref in %s, n_cyc=%s as float / 0-d ndarray / (1,) ndarray and "
                "n_cyc = last row of the returned cycle series (same object for combined, then single), second component 2*reversed (b=0.1, 1.0) / "
                "-rolled (b=0.34); every ndarray / list argument snapshotted around every call; "
                "non-trivial = word with an interior turning point ('d') / with two or more non-zero "
                "excursions ('p')" % (ld, list(SIG_W), lw, TINY_SCALE, lp, lp - 1, TINY, lp - 2, list(BS), list(B_ARR), list(CUTS),
                                      list(AREFS), NCYC),
        'bounds': {'delta_alphabet': SIG_D, 'delta_max_len': ld, 'delta_wide_alphabet': SIG_W, 'delta_wide_max_len': lw,
                   'delta_tiny_scale': TINY_SCALE, 'power_alphabet': SIG_P, 'power_max_len': lp,
                   'power_max_len_with_0.2': lp - 1, 'power_max_len_with_%s' % TINY: lp - 2,
                   'b': BS, 'b_array': B_ARR, 'cut_off': CUTS, 'a_ref': AREFS, 'n_cyc': NCYC,
                   'n_cyc_containers': ['float', '0-d ndarray', '(1,) ndarray', 'last row of the cycle series'], 'offsets': SHIFTS,
                   'alpha_amp': ALPHA_AMP, 'alpha_n': ALPHA_N},
        'required_classes': ['delta:float', 'delta:int', 'delta:list', 'delta:offset', 'delta:tiny-scale', 'plateau', 'monotone',
                             'interior-turning', 'last-move-up', 'last-move-down', 'first-move-down',
                             'small-step-far-from-start',
                             'inverse-checked', 'inverse-interior-index', 'sub-cutoff-peak', 'cutoff-exact-tie',
                             'no-cutoff-peak-below-1%', 'n_cyc:0-d', 'n_cyc:(1,)', 'n_cyc:last-row', 'inverse-array-b',
                             'scalar-b', 'array-b', 'int-input', 'gm-different-components',
                             'first-excursion-max-at-0', 'zero-valued-sample'],
        'assumptions': ['sample values outside the alphabets and lengths above the bounds are not examined',
                        'b, cut_off, a_ref, n_cyc only on the menu',
                        'turning points of a plateau: any sample of an extremal plateau is accepted as "the peak"',
                        'a peak exactly on the cut-off (0.2 == 0.1*2 in binary floating point) is not below it',
                        'combined-amplitude function is exercised with scalar b only (documented as float)',
                        'dynamic range of a record: steps down to 2.4e-7 of the distance from the first sample '
                        '(wide-range alphabet) and absolute amplitudes down to 1e-9 (scaled record); nothing finer',
                        'n_cyc containers other than float / 0-d / (1,) / (len(b),) float64 ndarrays are not examined'],
    }


# ------------------------------------------------------------------------------ references
def compress(w):
    """[(start, stop, value)] of the maximal constant runs."""
    out = []
    for i, v in enumerate(w):
        if out and out[-1][2] == v:
            out[-1][1] = i + 1
        else:
            out.append([i, i + 1, v])
    return out


def turning(w):
    """(first-sample indices of the turning runs, set of all samples of those runs).
    Turning runs: the first run, the last run, every run that is a strict local extremum of
    the run sequence."""
    rs = compress(w)
    firsts, allowed = [], set()
    for k, (a, b, v) in enumerate(rs):
        ext = k == 0 or k == len(rs) - 1 or (v > rs[k - 1][2] and v > rs[k + 1][2]) or \
            (v < rs[k - 1][2] and v < rs[k + 1][2])
        if ext:
            firsts.append(a)
            allowed.update(range(a, b))
    return firsts, allowed


def excursions(w):
    """Maximal runs of one strict sign: [(indices, max |value|)]."""
    out = []
    cur = None
    for i, v in enumerate(w):
        s = (v > 0) - (v < 0)
        if s == 0:
            cur = None
            continue
        if cur is not None and cur[2] == s:
            cur[0].append(i)
            cur[1] = max(cur[1], abs(v))
        else:
            cur = [[i], abs(v), s]
            out.append(cur)
    return [(e[0], e[1]) for e in out]


def as_series(v, n, ncol=None):
    try:
        a = np.asarray(v, dtype=float)
    except Exception:
        return None
    if ncol is None:
        if a.shape == (n,):
            return a
        if a.shape == (n, 1):
            return a[:, 0]
        return None
    return a if a.shape == (n, ncol) else None


def pcall(r, claim, sub, fn, *args, **kw):
    """r.call() + purity: every ndarray / list argument is snapshotted around the call; a query
    must leave its arguments unchanged (records, b arrays, n_cyc arrays - also when the argument
    is a view into an earlier result)."""
    held = [(i, a, snapshot(a)) for i, a in enumerate(args) if isinstance(a, (np.ndarray, list))]
    ok, out = r.call(claim, sub, fn, *args, **kw)
    for i, a, before in held:
        r.n_cmp += 1
        if snapshot(a) != before:
            r.fail(claim.split('.')[0] + '.args-unchanged', dict(sub, call=getattr(fn, '__name__', '?'), arg=i),
                   'positional argument %d was modified by the call' % i, observed=a,
                   expected=before[-1] if before[0] == 'py' else np.frombuffer(before[3], dtype=before[1]))
    return ok, out


# ------------------------------------------------------------------------------ delta family
def exact_identities(vals):
    """(total variation, end minus start, direction of the last movement, first movement) in exact
    rationals of the samples actually passed."""
    q = [Fraction(v) for v in vals]
    tv = sum(abs(q[i + 1] - q[i]) for i in range(len(q) - 1))
    net = q[-1] - q[0]
    moves = [q[i + 1] - q[i] for i in range(len(q) - 1) if q[i + 1] != q[i]]
    return tv, net, (1 if moves[-1] > 0 else -1), (1 if moves[0] > 0 else -1)


def run_delta(r, w):
    n = len(w)
    rs = compress(w)
    firsts, allowed = turning(w)
    tv, net, last, first = exact_identities(w)
    interior = len(firsts) > 2
    if interior:
        r.nontrivial += 1
        r.cls('interior-turning')
    else:
        r.cls('monotone')
    if len(rs) < n:
        r.cls('plateau')
    r.cls('last-move-up' if last > 0 else 'last-move-down')
    if first < 0:
        r.cls('first-move-down')
    # a step that is tiny relative to the distance the series has reached from its first sample
    if any(0 < abs(w[i + 1] - w[i]) * 10 ** 5 <= abs(w[i] - w[0]) for i in range(n - 1)):
        r.cls('small-step-far-from-start')
    configs = [('float', 0, 1), ('float', 5, 1), ('float', -2.5, 1), ('int', 0, 1), ('int', 5, 1), ('list', 0, 1),
               ('float', 0, TINY_SCALE)]
    base = {}
    for kind, sh, sc in configs:
        if kind == 'float':
            arr = np.array(w, dtype=float) * sc + sh
        elif kind == 'int':
            arr = np.array(w, dtype=np.int64) + int(sh)
        else:
            arr = [float(v) for v in w]
        if sc == 1:
            c_tv, c_net = tv, net          # offsets: the identities do not depend on a constant shift
        else:
            # scaled record: exact identities of the (rounded) samples actually passed; positive scaling keeps
            # order, plateaus and turning points of the word
            c_tv, c_net, c_last, _ = exact_identities(arr.tolist())
            if c_last != last or len(set(arr.tolist())) != len(set(w)):
                r.disabled['scaled record does not preserve the order of the word'] += 1
                continue
            r.cls('delta:tiny-scale')
        want_cyc = c_tv / 2 + c_net / 2 * last
        ftv = float(c_tv)
        r.states += 1
        r.cls('delta:' + kind)
        if sh:
            r.cls('delta:offset')
        for name, fn in (('delta', pc.determine_peaks_only_delta_series),
                         ('cyclic', pc.determine_pseudo_cyclic_peak_only_series)):
            sub = {'w': w, 'input': kind, 'offset': sh}
            if sc != 1:
                sub['scale'] = sc
            ok, out = pcall(r, name + '.returns', sub, fn, arr)
            if not ok:
                continue
            s = as_series(out, n)
            if s is None:
                r.fail(name + '.length', sub, 'result is not a series of the record length %d' % n, observed=out)
                continue
            r.n_cmp += 1
            off = [i for i in range(n) if i not in allowed and s[i] != 0]
            r.expect(name + '.zero-off-peaks', sub, not off, 'non-zero entries away from turning points at %r' % (off,),
                     observed=s, expected='zeros outside %r' % (sorted(allowed),))
            if name == 'delta':
                r.expect_close('delta.abs-sum', sub, float(np.sum(np.abs(s))), ftv, rtol=1e-9)
                r.expect_close('delta.signed-sum', sub, abs(float(np.sum(s))), abs(float(c_net)), rtol=1e-9, scale=ftv)
            else:
                r.expect_close('cyclic.sum', sub, float(np.sum(s)), float(want_cyc), rtol=1e-9, scale=ftv)
            if sc != 1:
                continue
            if sh == 0:
                base[(kind, name)] = s
            elif (kind, name) in base:
                r.transitions += 1
                r.expect_close(name + '.shift', sub, s, base[(kind, name)], rtol=1e-9, scale=ftv)
        if kind != 'float' and ('float', 'delta') in base and sh == 0:
            # integer / list input describe the same series as float input
            for name in ('delta', 'cyclic'):
                if (kind, name) in base and ('float', name) in base:
                    r.transitions += 1
                    r.expect_close(name + '.input-type', {'w': w, 'input': kind}, base[(kind, name)],
                                   base[('float', name)], rtol=1e-9, scale=ftv)


# ------------------------------------------------------------------------------ power-law family
def check_series(r, claim, sub, out, n, ncol=None):
    """length / finite / non-decreasing; returns the normalised array or None."""
    s = as_series(out, n, ncol)
    if s is None:
        r.fail(claim + '.length', sub, 'result does not have the record length %d on its leading axis%s'
               % (n, '' if ncol is None else ' and %d columns' % ncol), observed=np.shape(out))
        return None
    r.n_cmp += 2
    if not np.all(np.isfinite(s)):
        r.fail(claim + '.finite', sub, 'non-finite values', observed=s)
        return None
    pk = float(np.max(np.abs(s))) if s.size else 0.0
    if s.shape[0] > 1 and np.any(np.diff(s, axis=0) < -1e-12 * pk):
        r.fail(claim + '.monotone', sub, 'series decreases', observed=s)
    return s


def last_row_sequence(r, sub, x, n, n_out, ns, a_ref, b):
    """N handed on exactly as the caller gets it: the last row of the returned cycle series (for an ndarray
    result a view into that series).  The SAME object is used first for the two-identical-components amplitude
    and then for the single-component amplitude: 2^b * a_ref and a_ref (inverse relation), and the cycle series
    the row belongs to is still the one that was returned."""
    try:
        row = n_out[-1]
    except Exception:
        return
    r.cls('n_cyc:last-row')
    s2 = dict(sub, n_cyc='last row of the cycle series')
    r.states += 1
    ok, out = pcall(r, 'powerlaw.combined.returns', s2, im.calc_cyc_amp_combined_arrays_w_power_law, x.copy(), x.copy(),
                    row, b)
    if ok:
        c = check_series(r, 'powerlaw.combined', s2, out, n)
        if c is not None:
            r.transitions += 1
            r.expect_close('powerlaw.inverse-combined', s2, float(c[-1]), 2.0 ** b * a_ref, rtol=1e-9,
                           what='combined amplitude of two identical components for N = cycles(a_ref)')
    s3 = dict(s2, after='combined')
    ok, out = pcall(r, 'powerlaw.amp.returns', s3, im.calc_cyc_amp_array_w_power_law, x.copy(), row, b)
    if ok:
        am = check_series(r, 'powerlaw.amp', s3, out, n)
        if am is not None:
            r.transitions += 1
            r.expect_close('powerlaw.inverse-same-n', s3, float(am[-1]), a_ref, rtol=1e-9,
                           what='amplitude for N = cycles(a_ref), same N object as in the preceding combined call')
    after = as_series(n_out, n)
    r.expect('powerlaw.result-stable', s2, after is not None and np.array_equal(after, ns),
             'the cycle series changed while its last row was used as n_cyc', observed=after, expected=ns)


def run_power(r, w):
    n = len(w)
    x = np.array(w, dtype=float)
    exc = excursions(w)
    amax = max(abs(v) for v in w)
    if len(exc) >= 2:
        r.nontrivial += 1
    if any(v == 0 for v in w):
        r.cls('zero-valued-sample')
    if exc and exc[0][0][0] == 0 and abs(w[0]) == exc[0][1] and len(exc[0][0]) > 1:
        r.cls('first-excursion-max-at-0')
    is_int = all(float(v).is_integer() for v in w)
    ys = [('2*reversed', 2.0 * x[::-1].copy()), ('-rolled', -np.roll(x, 1))]
    n_cache = {}
    a_cache = {}

    for b in BS:
        r.cls('scalar-b')
        for cut in CUTS:
            # classification of the excursion maxima against the cut-off, exact arithmetic on the floats given
            thr = Fraction(cut) * Fraction(amax)
            below, rounding = [], False
            for idx, pk in exc:
                p = Fraction(pk)
                if p == thr and cut > 0:
                    r.cls('cutoff-exact-tie')
                elif cut > 0 and abs(p - thr) <= Fraction(1, 10 ** 9) * thr:
                    rounding = True
                elif p < thr:
                    below.append(idx)
            for a_ref in AREFS:
                sub = {'w': w, 'b': b, 'cut_off': cut, 'a_ref': a_ref}
                r.states += 1
                ok, out = pcall(r, 'powerlaw.n.returns', sub, im.calc_n_cyc_array_w_power_law, x.copy(), a_ref, b,
                                 cut_off=cut)
                if not ok:
                    continue
                ns = check_series(r, 'powerlaw.n', sub, out, n)
                if ns is None:
                    continue
                n_out, ns = out, np.array(ns)    # ns: private copy (the normalised series may be a view of the result)
                n_cache[(b, cut, a_ref)] = ns
                nf = float(ns[-1])
                if cut == 0 and any(0 < pk * 100 < amax for idx, pk in exc):
                    # the smallest allowed cut-off on data where it differs from every "small" positive one
                    r.cls('no-cutoff-peak-below-1%')
                if not r.expect('powerlaw.inverse', sub, nf > 0, 'final equivalent number of cycles is not positive',
                                observed=ns):
                    continue
                if rounding:
                    r.disabled['cut-off comparison undecided at rounding level'] += 1
                elif not below:
                    # mutually inverse, at the end of the record and at every index where cycles were counted
                    r.cls('inverse-checked')
                    # counts that consist only of the library's 1e-14 stand-in for zero-valued peaks are not
                    # cycle counts (same 1e-9-of-the-final-value rule as for the scaling relation)
                    vals = sorted(set(float(t) for t in ns if t > 1e-9 * nf), reverse=True)
                    if a_ref != AREFS[-1]:
                        vals = vals[:1]      # interior indices on one a_ref only (cost); end of record always
                    for v in vals:
                        where = [i for i in range(n) if float(ns[i]) == v]
                        s2 = dict(sub, N=v)
                        ok, out = pcall(r, 'powerlaw.amp.returns', s2, im.calc_cyc_amp_array_w_power_law, x.copy(), v, b)
                        if not ok:
                            continue
                        am = check_series(r, 'powerlaw.amp', s2, out, n)
                        if am is None:
                            continue
                        r.transitions += 1
                        if n - 1 in where:
                            r.expect_close('powerlaw.inverse', sub, float(am[-1]), a_ref, rtol=1e-9,
                                           what='amplitude for N = cycles(a_ref) at the end of the record')
                        inner = [i for i in where if i != n - 1]
                        if inner:
                            r.cls('inverse-interior-index')
                            r.expect_close('powerlaw.inverse-series', dict(sub, at=inner), am[inner],
                                           np.full(len(inner), a_ref), rtol=1e-9,
                                           what='amplitude for N = cycles(a_ref)[i] at index i')
                    if a_ref == AREFS[-1] and cut == CUTS[0]:
                        last_row_sequence(r, sub, x, n, n_out, ns, a_ref, b)
                else:
                    r.cls('sub-cutoff-peak')
                    # (i) counting with the cut-off == counting the record with those excursions removed
                    x0 = x.copy()
                    for idx in below:
                        x0[idx] = 0.0
                    ok, out = pcall(r, 'powerlaw.n.returns', dict(sub, zeroed=below), im.calc_n_cyc_array_w_power_law,
                                     x0, a_ref, b, cut_off=0.0)
                    if ok:
                        n0 = check_series(r, 'powerlaw.n', dict(sub, zeroed=below), out, n)
                        if n0 is not None:
                            r.transitions += 1
                            r.expect_close('powerlaw.cutoff', sub, ns, n0, rtol=1e-9, scale=float(n0[-1]),
                                           what='cycles with cut-off vs cycles of the record without the excursions '
                                                'below the cut-off')
                    # (ii) direct formulas over the reference excursion maxima
                    kept = [pk for idx, pk in exc if idx not in below]
                    want_n = sum(0.5 * (pk / a_ref) ** (1.0 / b) for pk in kept)
                    r.expect_close('powerlaw.cutoff-direct-n', sub, nf, want_n, rtol=1e-9,
                                   what='final cycles vs sum over excursion maxima not below the cut-off')
                    ok, out = pcall(r, 'powerlaw.amp.returns', dict(sub, N=nf), im.calc_cyc_amp_array_w_power_law,
                                     x.copy(), nf, b)
                    if ok:
                        am = check_series(r, 'powerlaw.amp', dict(sub, N=nf), out, n)
                        if am is not None:
                            want_a = (sum(pk ** (1.0 / b) for idx, pk in exc) / 2.0 / nf) ** b
                            r.expect_close('powerlaw.cutoff-direct-amp', sub, float(am[-1]), want_a, rtol=1e-9,
                                           what='final amplitude vs power mean over all excursion maxima')
                # cycles are invariant when record and reference amplitude scale together
                if a_ref != AREFS[0]:
                    continue
                ok, out = pcall(r, 'powerlaw.n.returns', dict(sub, alpha=ALPHA_N), im.calc_n_cyc_array_w_power_law,
                                 ALPHA_N * x, ALPHA_N * a_ref, b, cut_off=cut)
                if ok:
                    n2 = check_series(r, 'powerlaw.n', dict(sub, alpha=ALPHA_N), out, n)
                    if n2 is not None:
                        r.transitions += 1
                        r.expect_close('powerlaw.n-scaling', dict(sub, alpha=ALPHA_N), n2, ns, rtol=1e-9, scale=nf)

        # ---- amplitude for a fixed number of cycles
        sub = {'w': w, 'b': b, 'n_cyc': NCYC}
        r.states += 1
        ok, out = pcall(r, 'powerlaw.amp.returns', sub, im.calc_cyc_amp_array_w_power_law, x.copy(), NCYC, b)
        a1 = check_series(r, 'powerlaw.amp', sub, out, n) if ok else None
        if a1 is None:
            continue
        a_cache[b] = a1
        pk1 = float(a1[-1])
        r.expect('powerlaw.amp.positive', sub, pk1 > 0, 'final equivalent amplitude of a non-zero record is not positive',
                 observed=a1)
        for alpha in (ALPHA_AMP,):
            s2 = dict(sub, alpha=alpha)
            ok, out = pcall(r, 'powerlaw.amp.returns', s2, im.calc_cyc_amp_array_w_power_law, alpha * x, NCYC, b)
            if ok:
                a3 = check_series(r, 'powerlaw.amp', s2, out, n)
                if a3 is not None:
                    r.transitions += 1
                    r.expect_close('powerlaw.amp-scaling', s2, a3, alpha * a1, rtol=1e-9)
        ok, out = pcall(r, 'powerlaw.combined.returns', sub, im.calc_cyc_amp_combined_arrays_w_power_law, x.copy(),
                         x.copy(), NCYC, b)
        if ok:
            c = check_series(r, 'powerlaw.combined', sub, out, n)
            if c is not None:
                r.transitions += 1
                r.expect_close('powerlaw.combined-identical', sub, c, 2.0 ** b * a1, rtol=1e-9)
        # the same number of cycles held in an ndarray (0-d, one element)
        for cname, n_arr in (('0-d', np.array(NCYC)), ('(1,)', np.array([NCYC]))):
            s2 = dict(sub, n_cyc_container=cname)
            r.cls('n_cyc:' + cname)
            r.states += 1
            ok, out = pcall(r, 'powerlaw.combined.returns', s2, im.calc_cyc_amp_combined_arrays_w_power_law, x.copy(),
                            x.copy(), n_arr, b)
            if ok:
                cc = check_series(r, 'powerlaw.combined', s2, out, n)
                if cc is not None:
                    r.transitions += 1
                    r.expect_close('powerlaw.combined-identical', s2, cc, 2.0 ** b * a1, rtol=1e-9)
        ok, out = pcall(r, 'powerlaw.gm.returns', sub, im.calc_cyc_amp_gm_arrays_w_power_law, x.copy(), x.copy(), NCYC, b)
        if ok:
            g = check_series(r, 'powerlaw.gm', sub, out, n)
            if g is not None:
                r.transitions += 1
                r.expect_close('powerlaw.gm-identical', sub, g, a1, rtol=1e-9)
        # two different components: definition of a geometric mean, symmetry of both two-component measures
        for yname, y in (ys[1:] if b == BS[1] else ys[:1]):
            s2 = dict(sub, second=yname)
            r.states += 1
            ok, out = pcall(r, 'powerlaw.amp.returns', s2, im.calc_cyc_amp_array_w_power_law, y.copy(), NCYC, b)
            ay = check_series(r, 'powerlaw.amp', s2, out, n) if ok else None
            got = {}
            for fname, fn in (('gm', im.calc_cyc_amp_gm_arrays_w_power_law),
                              ('combined', im.calc_cyc_amp_combined_arrays_w_power_law)):
                for order in ('xy', 'yx'):
                    p, q = (x, y) if order == 'xy' else (y, x)
                    ok, out = pcall(r, 'powerlaw.%s.returns' % fname, dict(s2, order=order), fn, p.copy(), q.copy(), NCYC, b)
                    if ok:
                        got[(fname, order)] = check_series(r, 'powerlaw.' + fname, dict(s2, order=order), out, n)
            if ay is not None and got.get(('gm', 'xy')) is not None:
                r.cls('gm-different-components')
                r.transitions += 1
                r.expect_close('powerlaw.gm-definition', s2, got[('gm', 'xy')], np.sqrt(a1 * ay), rtol=1e-9,
                               scale=max(pk1, float(ay[-1])))
            for fname in ('gm', 'combined'):
                if got.get((fname, 'xy')) is not None and got.get((fname, 'yx')) is not None:
                    r.transitions += 1
                    r.expect_close('powerlaw.%s-symmetric' % fname, s2, got[(fname, 'yx')], got[(fname, 'xy')], rtol=1e-9)

    # ---- array b: leading axis is the record, one column per exponent, columns equal the scalar runs
    barr = np.array(B_ARR)
    sub = {'w': w, 'b': list(B_ARR), 'a_ref': 2.0, 'cut_off': 0.0}
    r.cls('array-b')
    r.states += 1
    ok, out = pcall(r, 'powerlaw.array-b.n', sub, im.calc_n_cyc_array_w_power_law, x.copy(), 2.0, barr, cut_off=0.0)
    if ok:
        nb = check_series(r, 'powerlaw.array-b.n', sub, out, n, ncol=len(B_ARR))
        if nb is not None:
            for j, b in enumerate(B_ARR):
                if (b, 0.0, 2.0) in n_cache:
                    r.transitions += 1
                    r.expect_close('powerlaw.array-b.n', dict(sub, column=j), nb[:, j], n_cache[(b, 0.0, 2.0)], rtol=1e-9)
        # mutually inverse with array b: N = last row of the cycle series (one N per exponent), as returned
        try:
            rowb = out[-1]
        except Exception:
            rowb = None
        if nb is not None and rowb is not None and np.all(nb[-1] > 0):
            r.cls('inverse-array-b')
            s2 = dict(sub, n_cyc='last row of the cycle series')
            nb = np.array(nb)
            ok, out2 = pcall(r, 'powerlaw.array-b.amp', s2, im.calc_cyc_amp_array_w_power_law, x.copy(), rowb, barr)
            if ok:
                ab = check_series(r, 'powerlaw.array-b.amp', s2, out2, n, ncol=len(B_ARR))
                if ab is not None:
                    r.transitions += 1
                    r.expect_close('powerlaw.array-b.inverse', s2, ab[-1], np.full(len(B_ARR), 2.0), rtol=1e-9,
                                   what='amplitude for N = cycles(a_ref) at the end of the record, per exponent')
            after = as_series(out, n, ncol=len(B_ARR))
            r.expect('powerlaw.result-stable', s2, after is not None and np.array_equal(after, nb),
                     'the cycle series changed while its last row was used as n_cyc', observed=after, expected=nb)
    sub = {'w': w, 'b': list(B_ARR), 'n_cyc': NCYC}
    for fname, fn, args in (('amp', im.calc_cyc_amp_array_w_power_law, (x.copy(),)),
                            ('gm', im.calc_cyc_amp_gm_arrays_w_power_law, (x.copy(), x.copy()))):
        ok, out = pcall(r, 'powerlaw.array-b.' + fname, sub, fn, *(args + (NCYC, barr)))
        if ok:
            ab = check_series(r, 'powerlaw.array-b.' + fname, sub, out, n, ncol=len(B_ARR))
            if ab is not None:
                for j, b in enumerate(B_ARR):
                    if b in a_cache:
                        r.transitions += 1
                        r.expect_close('powerlaw.array-b.' + fname, dict(sub, column=j), ab[:, j], a_cache[b], rtol=1e-9)
    # ---- integer records describe the same series
    if is_int:
        r.cls('int-input')
        xi = np.array([int(v) for v in w], dtype=np.int64)
        b = 0.34
        sub = {'w': w, 'b': b, 'cut_off': 0.1, 'a_ref': 2.0, 'input': 'int'}
        r.states += 1
        ok, out = pcall(r, 'powerlaw.n.returns', sub, im.calc_n_cyc_array_w_power_law, xi, 2.0, b, cut_off=0.1)
        if ok and (b, 0.1, 2.0) in n_cache:
            ni = check_series(r, 'powerlaw.n', sub, out, n)
            if ni is not None:
                r.expect_close('powerlaw.int-input', sub, ni, n_cache[(b, 0.1, 2.0)], rtol=1e-9)
        sub = {'w': w, 'b': b, 'n_cyc': NCYC, 'input': 'int'}
        ok, out = pcall(r, 'powerlaw.amp.returns', sub, im.calc_cyc_amp_array_w_power_law, xi, NCYC, b)
        if ok and b in a_cache:
            ai = check_series(r, 'powerlaw.amp', sub, out, n)
            if ai is not None:
                r.expect_close('powerlaw.int-input', sub, ai, a_cache[b], rtol=1e-9)


def run_case(case):
    r = Res()
    kind, w = case[0], list(case[1])
    if kind == 'd':
        run_delta(r, w)
    else:
        run_power(r, w)
    return r


def snippet(case, v):
    kind, w = case[0], case[1]
    if kind == 'd':
        return ("import numpy as np\nfrom eqsig.fns import peaks_and_crossings as pc\n"
                "w = %r\nsub = %r\nx = np.array(w, float) * sub.get('scale', 1) + sub.get('offset', 0)\n"
                "print(pc.determine_peaks_only_delta_series(x))\nprint(pc.determine_pseudo_cyclic_peak_only_series(x))\n"
                "print('total variation', np.sum(np.abs(np.diff(x))), 'end-start', x[-1] - x[0])\n" % (w, v.get('sub')))
    return ("import numpy as np\nfrom eqsig import im\nfrom eqsig.fns import peaks_and_crossings as pc\n"
            "w = %r\nsub = %r\nx = np.array(w, float)\n"
            "print('switched peaks', pc.get_switched_peak_array_indices(x))\n"
            "b = sub['b'] if not isinstance(sub['b'], list) else np.array(sub['b'])\n"
            "n = im.calc_n_cyc_array_w_power_law(x, sub.get('a_ref', 2.0), b, cut_off=sub.get('cut_off', 0.0)); print('n', n)\n"
            "print('amp(N=n[-1])', im.calc_cyc_amp_array_w_power_law(x, n[-1], b))\n"
            "print('amp(N=7.5)', im.calc_cyc_amp_array_w_power_law(x, 7.5, b))\n"
            "if not isinstance(sub['b'], list):\n"
            "    row = n[-1]; print('N object', repr(row))\n"
            "    print('combined(x, x, N)[-1]', im.calc_cyc_amp_combined_arrays_w_power_law(x, x.copy(), row, b)[-1], 'N object now', repr(row))\n"
            "    print('amp(N)[-1] afterwards', im.calc_cyc_amp_array_w_power_law(x, row, b)[-1])\n" % (w, v.get('sub')))
