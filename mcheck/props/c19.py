"""C19 - surface energy / time-shift utilities match the shifted-wave definition.

Engine T x G.  'energy' cases: every non-zero word over {-1,0,2} of length 2..L is a record
(dt = 0.5); one pool case per (word, nodal, reduction family); inside it every travel-time
set (each travel time singly + two batches) x (trim, start) in {T,F}^2 x stt in {0, 0.5, 1.2}
is run through calc_surface_energy, calc_cum_abs_surface_energy and get_time_shift_motions.

Reference (exact rationals, written from the statement, sample by sample): pad the record
with floor(max delay) zeros; delayed wave = record read at j - 2*tt/dt by explicit linear
interpolation between the two bracketing samples, 0 outside the record; up wave x up_red
-/+ delayed wave x down_red (nodal / anti-nodal); cumulative trapezoid; 0.5 v |v|.
It decides (trim, start) = (F, F) (full series) and (T, F) (first npts samples).  For every
option combination the stated relations are checked: length npts when trimmed, batch row =
single-travel-time result on the common prefix, cumulative absolute change non-decreasing
with increments |energy increments|, identically zero for zero travel time at a nodal
surface with equal reductions, alpha^2 scaling.  The cumulative series is also compared with the
energy series returned for the same options INCLUDING its first element (change from rest, or 0).
The travel-time and reduction arrays are built once per travel-time set and the SAME objects are
passed to every call of the set (all options, all three functions, the alpha runs) and
snapshot-checked after every call: a query leaves its arguments alone.  The functions are also
run on AccSignal objects with a history (velocity read before; displacement/velocity series
regenerated with the rectangle rule before): the result is a function of the record, not of
what the object has cached.

'shift' cases: every non-zero word over {-1,0,2} of length 2..4(5) x every shift vector over
{-2..2}^{1..3} x clip in {default, none, start, end, both} for put_array_in_2d_array; every
non-negative shift vector over {0..2}^{1..3} x {add, sub} for join_values_w_shifts and
join_sig_w_time_shift (dyadic dt, exact multiples).
"""
import itertools
from fractions import Fraction

import numpy as np

from ..target import eqsig, surface, time_shift
from ..result import Res
from ..compare import words, snapshot

SIGMA = (-1, 0, 2)
DT = '0.5'
TTS = ('0', '0.125', '0.25', '0.3', '0.5', '0.75', '1.1')       # shifts 0, .5, 1, 1.2, 2, 3, 4.4 samples
BATCHES = {'A': ('0', '0.125', '0.25', '0.3', '0.5', '0.75', '1.1'), 'B': ('1.1', '0.3', '0')}
# per-row reduction factors of the 'array' family (keyed by travel time, so a batch row and the
# corresponding single call use the same pair); up != down in every row
ARR_UP = {'0': '1', '0.125': '0.9', '0.25': '0.8', '0.3': '0.7', '0.5': '0.6', '0.75': '0.5', '1.1': '0.4'}
ARR_DOWN = {'0': '0.3', '0.125': '1', '0.25': '0.5', '0.3': '0.9', '0.5': '0.2', '0.75': '0.8', '1.1': '0.6'}
REDS = ('unit', 'scalar', 'array')
SCALAR_RED = {'unit': ('1', '1'), 'scalar': ('0.8', '0.5')}
STTS = (0.0, 0.5, 1.2)
OPTS = [(trim, start) for trim in (False, True) for start in (False, True)]
ALPHAS = (-1, 2, 3)
SHIFT_VALS = (-2, -1, 0, 1, 2)
CLIPS = ('default', 'none', 'start', 'end', 'both')
JOIN_DTS = (0.5, 0.25)
# object histories: public AccSignal operations performed on the object BEFORE it is handed to the surface functions
HISTORIES = ('velocity-read', 'rect-series')
FNS = (('energy', 'calc_surface_energy'), ('cum', 'calc_cum_abs_surface_energy'), ('motions', 'get_time_shift_motions'))


def build(tier, seed):
    quick = tier == 'quick'
    L = 5 if quick else 7
    Ls = 4 if quick else 5
    cases = []
    for w in words(SIGMA, 2, Ls, nonzero=True):
        cases.append({'kind': 'shift', 'w': list(w)})
    for w in words(SIGMA, 2, L, nonzero=True):
        for nodal in (True, False):
            for red in REDS:
                cases.append({'kind': 'energy', 'w': list(w), 'nodal': nodal, 'red': red})
    return {
        'cases': cases,
        'rule': 'energy: all non-zero words over {-1,0,2} of length 2..%d, dt = 0.5, x nodal in {T,F} x reductions '
                '{(1,1), (0.8,0.5), per-row arrays with up != down} (one pool case each) x travel-time sets {each of '
                '%s singly, batch A = all ascending, batch B = (1.1, 0.3, 0)} x (trim,start) in {T,F}^2 x stt in %s x '
                '{calc_surface_energy, calc_cum_abs_surface_energy, get_time_shift_motions} (+ alpha in %s); the travel-time / '
                'reduction arrays of a set are the same objects in all its calls (snapshot after every call); + every set x the '
                'three functions (full series) on AccSignal objects with history in %s; '
                'shift helpers: all non-zero words of length 2..%d x all shift vectors over {-2..2}^{1..3} x clip in %s; '
                'joins: all shift vectors over {0..2}^{1..3} x {add,sub} x {values, signal with dt in %s}; '
                'non-trivial = word not identically zero (every enumerated word)'
                % (L, list(TTS), list(STTS), list(ALPHAS), list(HISTORIES), Ls, list(CLIPS), list(JOIN_DTS)),
        'bounds': {'alphabet': SIGMA, 'max_len_energy': L, 'max_len_shift': Ls, 'dt': DT, 'travel_times': TTS,
                   'batches': BATCHES, 'reductions': {'unit': [1, 1], 'scalar': [0.8, 0.5],
                                                      'array_up': ARR_UP, 'array_down': ARR_DOWN},
                   'stt': STTS, 'trim_start': OPTS, 'alphas': ALPHAS, 'object_histories': HISTORIES,
                   'argument_arrays': 'one object per travel-time set, reused by all calls', 'shift_values': SHIFT_VALS,
                   'shift_vector_len': [1, 3], 'clip': CLIPS, 'tol': 1e-12},
        'required_classes': ['nodal', 'anti-nodal', 'red-unit', 'red-scalar', 'red-array', 'tt-zero', 'tt-subsample',
                             'tt-fractional', 'tt-integer', 'single', 'batch', 'trim', 'start', 'stt>0',
                             'reference-compared', 'energy-has-negative-values', 'cum-increases', 'cum-identically-zero',
                             'row-vs-single', 'row-shorter-than-batch', 'alpha-scaling',
                             'argument-array-reused', 'cum-first-sample-nonzero-energy',
                             'history-velocity-read', 'history-rect-series',
                             'clip-default', 'clip-none', 'clip-start', 'clip-end', 'clip-both',
                             'shift-negative', 'shift-positive', 'shift-mixed-sign', 'join-add', 'join-sub',
                             'join-signal'],
        'assumptions': ['sample values in {-1,0,2}; lengths above the bound not examined; dt = 0.5 only for the energy '
                        'functions (dyadic, so int() of the delays is decided)',
                        'travel times, reductions and stt only on the menus; reductions given as floats or numpy arrays',
                        'reference decides (trim,start) = (F,F) and (T,F); for start=True only the stated relations '
                        '(length when trimmed, row = single, monotonicity, zero, alpha^2) are checked - the property '
                        'does not define the start alignment itself',
                        'first element of the cumulative absolute change: |first energy of the series returned for the same '
                        'options| (change from rest) or 0 (no change inside the series yet) are both accepted',
                        'a query leaves its argument arrays unchanged (bit-for-bit); object histories: velocity property read, '
                        'generate_displacement_and_velocity_series(trap=False) called - both leave the record itself unchanged',
                        'join helpers: non-negative integer shifts; signal variant with time shifts that are exact '
                        'multiples of a dyadic dt'],
    }


# ------------------------------------------------------------------------------------------
# reference model (exact rationals)
# ------------------------------------------------------------------------------------------
def ffloor(q):
    return q.numerator // q.denominator


def ref_series(a, dt, tt, nodal, up, down, total_len):
    """Acceleration and energy series of one travel time, `total_len` samples. All Fractions."""
    n = len(a)
    delay = 2 * tt / dt                      # in samples
    acc = []
    for j in range(total_len):
        upw = (a[j] if j < n else Fraction(0)) * up
        q = j - delay                        # position in the record at which the delayed wave is read
        if q < 0 or q > n - 1:
            d = Fraction(0)
        else:
            i = ffloor(q)
            fr = q - i
            d = a[i] if fr == 0 else a[i] * (1 - fr) + a[i + 1] * fr
        d = d * down
        acc.append(upw - d if nodal else upw + d)
    v = [Fraction(0)]
    for j in range(1, total_len):
        v.append(v[-1] + dt * (acc[j] + acc[j - 1]) / 2)
    e = [x * abs(x) / 2 for x in v]
    return acc, e


def fl(xs):
    return np.array([float(x) for x in xs], dtype=float)


def ref_put(values, shifts, clip):
    n = len(values)
    se = max(0, -min(shifts))
    ee = max(0, max(shifts))
    p_lo = 0 if clip in ('start', 'both') else -se
    p_hi = n if clip in ('end', 'both') else n + ee
    return [[values[p - s] if 0 <= p - s < n else 0 for p in range(p_lo, p_hi)] for s in shifts]


def ref_join(values, shifts, jtype):
    n = len(values)
    width = n + max(shifts)
    rows = []
    for s in shifts:
        row = []
        for c in range(width):
            orig = values[c] if c < n else 0
            sh = values[c - s] if 0 <= c - s < n else 0
            row.append(orig + sh if jtype == 'add' else orig - sh)
        rows.append(row)
    return rows


# ------------------------------------------------------------------------------------------
def red_for(red, tts):
    """(exact up list, exact down list, up argument, down argument).  The arguments are built ONCE here; the caller
    passes the same objects to every call of the travel-time set."""
    if red == 'array':
        ups = [Fraction(ARR_UP[t]) for t in tts]
        downs = [Fraction(ARR_DOWN[t]) for t in tts]
        return ups, downs, np.array([float(ARR_UP[t]) for t in tts]), np.array([float(ARR_DOWN[t]) for t in tts])
    u, d = SCALAR_RED[red]
    return [Fraction(u)] * len(tts), [Fraction(d)] * len(tts), float(u), float(d)


def row_of(out, i, batch):
    a = np.asarray(out)
    if batch:
        if a.ndim != 2:
            raise ValueError('batch result has %d dimensions' % a.ndim)
        return a[i]
    if a.ndim != 1:
        raise ValueError('single-travel-time result has %d dimensions' % a.ndim)
    return a


def run_energy(case):
    r = Res()
    w = [int(v) for v in case['w']]
    nodal = bool(case['nodal'])
    red = case['red']
    n = len(w)
    r.nontrivial += 1
    r.cls('nodal' if nodal else 'anti-nodal')
    r.cls('red-' + red)
    dt = Fraction(DT)
    dtf = float(DT)
    a = [Fraction(v) for v in w]
    amax = float(max(abs(v) for v in w))
    at_acc = 1e-12 * amax
    at_e = 1e-12 * (amax * dtf) ** 2
    singles = {}        # (fn, tt, trim, start, stt) -> 1-d array
    ttsets = [('single', (t,)) for t in TTS] + [('batch-' + k, v) for k, v in sorted(BATCHES.items())]

    sigs = {}
    hsigs = {}          # history name -> the AccSignal of this case that carries the history

    def sig_for(warr):
        # one AccSignal per distinct record of the case (the functions only read values, dt, npts;
        # that they leave the record alone is verified at the end of the case)
        k = tuple(warr)
        if k not in sigs:
            sigs[k] = eqsig.AccSignal(np.array(warr, dtype=float), dtf)
        return sigs[k]

    def make_sig(warr, hist):
        sg = eqsig.AccSignal(np.array(warr, dtype=float), dtf)
        if hist == 'velocity-read':
            sg.velocity                                                   # fills the object's velocity cache
        elif hist == 'rect-series':
            sg.generate_displacement_and_velocity_series(trap=False)      # cache now holds the rectangle-rule series
        return sg

    def run(fn_attr, claim, sub, asig, args, trim, start, stt):
        """One call with the shared argument objects `args` = (travel times, up_red, down_red); afterwards the
        arguments must be bit-for-bit what they were (they are restored if not, so that the remaining
        comparisons of the case keep their meaning)."""
        fn = getattr(surface, fn_attr, None)
        if fn is None:
            r.fail(claim, sub, 'surface.%s does not exist' % fn_attr)
            return False, None
        before = [(name, x, snapshot(x), x.copy()) for name, x in zip(('travel_times', 'up_red', 'down_red'), args)
                  if isinstance(x, np.ndarray)]
        res = r.call(claim, sub, fn, asig, args[0], nodal=nodal, up_red=args[1], down_red=args[2], stt=stt, trim=trim,
                     start=start)
        for name, x, snap, saved in before:
            r.cls('argument-array-reused')
            r.n_cmp += 1
            if snapshot(x) != snap:
                r.fail('arguments-unchanged', dict(sub, fn=fn_attr, argument=name),
                       'the caller\'s %s array was modified by the call' % name, observed=x, expected=saved)
                x[...] = saved
        return res

    for setname, tts in ttsets:
        batch = setname != 'single'
        r.cls('batch' if batch else 'single')
        ups, downs, up_arg, down_arg = red_for(red, tts)
        # the argument objects of this travel-time set: built once, the same objects go into every call below
        tt_arg = np.array([float(t) for t in tts]) if (batch or red == 'array') else float(tts[0])
        args = (tt_arg, up_arg, down_arg)
        delays = [2 * Fraction(t) / dt for t in tts]
        total_len = n + ffloor(max(delays))                  # pad = whole samples of the largest delay
        for t, dl in zip(tts, delays):
            if not batch:
                if dl == 0:
                    r.cls('tt-zero')
                elif dl < 1:
                    r.cls('tt-subsample')
                elif dl.denominator != 1:
                    r.cls('tt-fractional')
                else:
                    r.cls('tt-integer')
        refs = [ref_series(a, dt, Fraction(t), nodal, u, d, total_len) for t, u, d in zip(tts, ups, downs)]
        # objects with a history: the full series (trim = start = False, where stt plays no role) against the same reference
        for hist in HISTORIES:
            r.states += 1
            r.cls('history-' + hist)
            if hist not in hsigs:
                hsigs[hist] = make_sig(w, hist)
            for key, attr in FNS:
                sub = {'w': w, 'nodal': nodal, 'red': red, 'tt': [float(t) for t in tts] if batch else float(tts[0]),
                       'trim': False, 'start': False, 'stt': 0.0, 'fn': key, 'history': hist}
                ok, out = run(attr, key, sub, hsigs[hist], args, False, False, 0.0)
                if not ok:
                    continue
                try:
                    rows = [np.array(row_of(out, i, batch), dtype=float) for i in range(len(tts))]
                    if batch and np.asarray(out).shape[0] != len(tts):
                        raise ValueError('batch result has %d rows for %d travel times' % (np.asarray(out).shape[0], len(tts)))
                except Exception as e:
                    r.fail(key + '.shape', sub, 'malformed result: %s' % e, observed=out)
                    continue
                for i, t in enumerate(tts):
                    s2 = dict(sub, row=i) if batch else sub
                    acc_ref, e_ref = refs[i]
                    r.transitions += 1
                    if key == 'energy':
                        r.expect_close('energy.definition', s2, rows[i], fl(e_ref), rtol=1e-12, atol=at_e)
                    elif key == 'motions':
                        r.expect_close('motions.definition', s2, rows[i], fl(acc_ref), rtol=1e-12, atol=at_acc)
                    else:
                        cref = [Fraction(0)]                     # the full reference series starts at rest: e_ref[0] = 0
                        for j in range(1, total_len):
                            cref.append(cref[-1] + abs(e_ref[j] - e_ref[j - 1]))
                        r.expect_close('cum.definition', s2, rows[i], fl(cref), rtol=1e-12, atol=at_e)
        for (trim, start) in OPTS:
            for stt in STTS:
                r.states += 1
                if trim:
                    r.cls('trim')
                if start:
                    r.cls('start')
                if stt > 0:
                    r.cls('stt>0')
                sub0 = {'w': w, 'nodal': nodal, 'red': red, 'tt': [float(t) for t in tts] if batch else float(tts[0]),
                        'trim': trim, 'start': start, 'stt': stt}
                outs = {}
                for key, attr in FNS:
                    sub = dict(sub0, fn=key)
                    ok, out = run(attr, key, sub, sig_for(w), args, trim, start, stt)
                    if not ok:
                        continue
                    try:
                        rows = [np.array(row_of(out, i, batch), dtype=float) for i in range(len(tts))]
                        if batch and np.asarray(out).shape[0] != len(tts):
                            raise ValueError('batch result has %d rows for %d travel times'
                                             % (np.asarray(out).shape[0], len(tts)))
                    except Exception as e:
                        r.fail(key + '.shape', sub, 'malformed result: %s' % e, observed=out)
                        continue
                    outs[key] = rows
                    # length when trimmed
                    if trim:
                        r.expect(key + '.length', sub, all(len(x) == n for x in rows),
                                 'trimmed output does not have npts samples', observed=[len(x) for x in rows], expected=n)
                    # reference
                    if not start:
                        r.cls('reference-compared')
                        m = n if trim else total_len
                        for i, t in enumerate(tts):
                            s2 = dict(sub, row=i) if batch else sub
                            acc_ref, e_ref = refs[i]
                            if key == 'energy':
                                want = fl(e_ref[:m])
                                r.expect_close('energy.definition', s2, rows[i], want, rtol=1e-12, atol=at_e)
                                if np.any(want < 0):
                                    r.cls('energy-has-negative-values')
                            elif key == 'motions':
                                r.expect_close('motions.definition', s2, rows[i], fl(acc_ref[:m]), rtol=1e-12, atol=at_acc)
                            else:
                                # cumulative absolute change of the reference energy (increments only)
                                de = [abs(e_ref[j] - e_ref[j - 1]) for j in range(1, m)]
                                try:
                                    got = np.diff(rows[i])
                                except Exception:
                                    got = None
                                r.expect_close('cum.definition', s2, got, fl(de), rtol=1e-12,
                                               atol=at_e, scale=float(sum(de)))
                    # cumulative absolute change: non-decreasing, zero case
                    if key == 'cum':
                        for i, t in enumerate(tts):
                            s2 = dict(sub, row=i) if batch else sub
                            x = rows[i]
                            r.expect('cum.monotone', s2, bool(np.all(np.isfinite(x)) and np.all(np.diff(x) >= 0)
                                                             and (len(x) == 0 or x[0] >= 0)),
                                     'cumulative absolute surface energy decreases or is negative', observed=x)
                            if len(x) and x[-1] > x[0]:
                                r.cls('cum-increases')
                            if Fraction(t) == 0 and nodal and ups[i] == downs[i]:
                                r.cls('cum-identically-zero')
                                r.expect_close('cum.zero', s2, x, np.zeros(len(x)), rtol=0.0, atol=at_e * n * n)
                    # batch row = single-travel-time result on the common prefix
                    for i, t in enumerate(tts):
                        if not batch:
                            singles[(key, t, trim, start, stt)] = rows[i]
                        else:
                            sg = singles.get((key, t, trim, start, stt))
                            if sg is None:
                                r.disabled['row-vs-single: single call failed'] += 1
                                continue
                            r.transitions += 1
                            r.cls('row-vs-single')
                            m = min(len(sg), len(rows[i]))
                            if len(sg) < len(rows[i]):
                                r.cls('row-shorter-than-batch')
                            s2 = dict(sub, row=i)
                            r.expect(key + '.row', s2, m > 0, 'batch row and single result have no common prefix',
                                     observed=len(rows[i]), expected=len(sg))
                            r.expect_close(key + '.row', s2, rows[i][:m], sg[:m], rtol=1e-12,
                                           atol=at_acc if key == 'motions' else at_e)
                # cumulative absolute change versus the energy series of the same call
                if 'cum' in outs and 'energy' in outs:
                    for i in range(len(tts)):
                        s2 = dict(sub0, row=i) if batch else sub0
                        r.transitions += 1
                        try:
                            got = np.diff(outs['cum'][i])
                            want = np.abs(np.diff(outs['energy'][i]))
                            sc = float(np.max(np.abs(outs['cum'][i]))) if len(outs['cum'][i]) else 0.0
                        except Exception as e:
                            r.fail('cum.increments', s2, 'malformed: %s' % e)
                            continue
                        r.expect_close('cum.increments', s2, got, want, rtol=1e-12, atol=at_e, scale=sc)
                        # ... including the first element: the change accumulated at the first returned sample is that
                        # sample's energy measured from rest (the series starts from zero energy), or nothing at all
                        # (no change inside the returned series yet) - both conventions are accepted
                        try:
                            c0 = float(outs['cum'][i][0])
                            e0 = abs(float(outs['energy'][i][0]))
                        except Exception:
                            continue            # empty or malformed rows are reported by the shape / length claims
                        if e0 > at_e:
                            r.cls('cum-first-sample-nonzero-energy')
                        tol0 = at_e + 1e-12 * sc
                        r.expect('cum.first', s2, abs(c0 - e0) <= tol0 or abs(c0) <= tol0,
                                 'first element of the cumulative absolute change is neither |first energy| nor 0',
                                 observed=c0, expected=e0)
                # alpha^2 scaling of the cumulative absolute change
                if 'cum' in outs:
                    for alpha in ALPHAS:
                        sub = dict(sub0, alpha=alpha)
                        ok, out = run('calc_cum_abs_surface_energy', 'cum.scaling', sub, sig_for([alpha * v for v in w]), args,
                                      trim, start, stt)
                        if not ok:
                            continue
                        r.transitions += 1
                        r.cls('alpha-scaling')
                        try:
                            got = np.array([row_of(out, i, batch) for i in range(len(tts))], dtype=float)
                            want = float(alpha * alpha) * np.array(outs['cum'], dtype=float)
                        except Exception as e:
                            r.fail('cum.scaling', sub, 'malformed result: %s' % e, observed=out)
                            continue
                        r.expect_close('cum.scaling', sub, got, want, rtol=1e-12, atol=at_e * alpha * alpha)
    for k, sg in sorted(sigs.items()) + [(tuple(w), hsigs[h]) for h in HISTORIES if h in hsigs]:
        try:
            same = bool(np.array_equal(np.asarray(sg.values), np.array(k, dtype=float))) and sg.dt == dtf
        except Exception:
            same = False
        r.expect('record-unchanged', {'w': w, 'nodal': nodal, 'red': red, 'record': list(k)}, same,
                 'the signal object was modified by the surface functions (later comparisons of this case are unreliable)',
                 observed=getattr(sg, 'values', None), expected=list(k))
    return r


def shift_vectors(vals):
    for k in (1, 2, 3):
        for v in itertools.product(vals, repeat=k):
            yield list(v)


def run_shift(case):
    r = Res()
    w = [int(v) for v in case['w']]
    r.nontrivial += 1
    for sh in shift_vectors(SHIFT_VALS):
        if min(sh) < 0:
            r.cls('shift-negative')
        if max(sh) > 0:
            r.cls('shift-positive')
        if min(sh) < 0 < max(sh):
            r.cls('shift-mixed-sign')
        for clip in CLIPS:
            r.states += 1
            r.cls('clip-' + clip)
            want = np.array(ref_put(w, sh, 'none' if clip == 'default' else clip), dtype=float)
            for cont in ('f64', 'i64'):
                sub = {'w': w, 'shifts': sh, 'clip': clip, 'input': cont}
                vals = np.array(w, dtype=float if cont == 'f64' else np.int64)
                kw = {} if clip == 'default' else {'clip': clip}
                ok, out = r.call('put', sub, time_shift.put_array_in_2d_array, vals, np.array(sh, dtype=int), **kw)
                if ok:
                    r.expect_close('put', sub, out, want.reshape(len(sh), -1), rtol=1e-12)
    for sh in shift_vectors((0, 1, 2)):
        for jtype in ('add', 'sub'):
            r.states += 1
            r.cls('join-' + jtype)
            want = np.array(ref_join(w, sh, jtype), dtype=float)
            sub = {'w': w, 'shifts': sh, 'jtype': jtype}
            ok, out = r.call('join', sub, time_shift.join_values_w_shifts, np.array(w, dtype=float),
                             np.array(sh, dtype=int), jtype=jtype)
            if ok:
                r.expect_close('join', sub, out, want, rtol=1e-12)
            for jdt in JOIN_DTS:
                s2 = dict(sub, dt=jdt)
                r.cls('join-signal')

                def via_sig():
                    sig = eqsig.Signal(np.array(w, dtype=float), jdt)
                    return time_shift.join_sig_w_time_shift(sig, np.array(sh, dtype=float) * jdt, jtype=jtype)
                ok, out = r.call('join.signal', s2, via_sig)
                if ok:
                    r.expect_close('join.signal', s2, out, want, rtol=1e-12)
        # default jtype is 'add'
        sub = {'w': w, 'shifts': sh, 'jtype': 'default'}
        ok, out = r.call('join', sub, time_shift.join_values_w_shifts, np.array(w, dtype=float), np.array(sh, dtype=int))
        if ok:
            r.expect_close('join', sub, out, np.array(ref_join(w, sh, 'add'), dtype=float), rtol=1e-12)
    return r


def run_case(case):
    if case['kind'] == 'shift':
        return run_shift(case)
    return run_energy(case)


def snippet(case, v):
    sub = v.get('sub') or {}
    if case['kind'] == 'shift':
        return ("import numpy as np, eqsig\nfrom eqsig.fns import time_shift as ts\n"
                "sub = %r\nw = np.array(sub['w'], float); sh = np.array(sub['shifts'])\n"
                "if 'clip' in sub: print(ts.put_array_in_2d_array(w, sh, clip='none' if sub['clip'] == 'default' else sub['clip']))\n"
                "else:\n    jt = 'add' if sub['jtype'] == 'default' else sub['jtype']\n"
                "    print(ts.join_values_w_shifts(w, sh, jtype=jt))\n"
                "    print(ts.join_sig_w_time_shift(eqsig.Signal(w, sub.get('dt', 0.5)), sh * sub.get('dt', 0.5), jtype=jt))\n"
                % (sub,))
    return ("import numpy as np, eqsig\nfrom eqsig import surface as sf\n"
            "sub = %r\nARR_UP = %r\nARR_DOWN = %r\n"
            "w = np.array(sub['w'], float) * sub.get('alpha', 1); tt = sub['tt']\n"
            "tts = tt if isinstance(tt, list) else [tt]\n"
            "up, down = {'unit': (1.0, 1.0), 'scalar': (0.8, 0.5)}.get(sub['red'], (None, None))\n"
            "if up is None:\n    up = np.array([float(ARR_UP[repr(t) if t else '0']) for t in tts]); "
            "down = np.array([float(ARR_DOWN[repr(t) if t else '0']) for t in tts]); tt = np.array(tts)\n"
            "elif isinstance(tt, list): tt = np.array(tt)\n"
            "kw = dict(nodal=sub['nodal'], up_red=up, down_red=down, stt=sub['stt'], trim=sub['trim'], start=sub['start'])\n"
            "a = eqsig.AccSignal(w, %s)\n"
            "if sub.get('history') == 'velocity-read': a.velocity\n"
            "if sub.get('history') == 'rect-series': a.generate_displacement_and_velocity_series(trap=False)\n"
            "print('energy ', sf.calc_surface_energy(a, tt, **kw))\nprint('cum    ', sf.calc_cum_abs_surface_energy(a, tt, **kw))\n"
            "print('motions', sf.get_time_shift_motions(a, tt, **kw))\n"
            "print('arguments after the calls (same objects in all three):', tt, up, down)\n" % (sub, ARR_UP, ARR_DOWN, DT))
