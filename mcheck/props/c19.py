"""C19 - surface energy / time-shift utilities match the shifted-wave definition.

Engine T x G.  'energy' cases: every non-zero word over {-1,0,2} of length 2..L is a record
(dt = 0.5); one pool case per (word, nodal, reduction family); inside it every travel-time
set (each travel time singly + two batches) x (trim, start) in {T,F}^2 x stt in {0, 0.5, 1.2}
is run through calc_surface_energy, calc_cum_abs_surface_energy and get_time_shift_motions.

Reference (exact rationals, written from the statement, sample by sample): pad the record
with floor(max delay) zeros; delayed wave = record read at j - 2*tt/dt by explicit linear
interpolation between the two bracketing samples, 0 outside the record; up wave x up_red
-/+ delayed wave x down_red (nodal / anti-nodal); cumulative trapezoid; 0.5 v |v|.
It decides (trim, start) = (F, F) (full series) and (T, F) (first npts samples).  For every
option combination the stated relations are checked: length npts when trimmed, batch row =
single-travel-time result on the common prefix, cumulative absolute change non-decreasing
with increments |energy increments|, identically zero for zero travel time at a nodal
surface with equal reductions, alpha^2 scaling.  The cumulative series is also compared with the
energy series returned for the same options INCLUDING its first element (change from rest, or 0).
The travel-time and reduction arrays are built once per travel-time set and the SAME objects are
passed to every call of the set (all options, all three functions, the alpha runs) and
snapshot-checked after every call: a query leaves its arguments alone.  The functions are also
run on AccSignal objects with a history (velocity read before; displacement/velocity series
regenerated with the rectangle rule before): the result is a function of the record, not of
what the object has cached.

'shift' cases: every non-zero word over {-1,0,2} of length 2..4(5) x every shift vector over
{-2..2}^{1..3} x clip in {default, none, start, end, both} for put_array_in_2d_array; every
non-negative shift vector over {0..2}^{1..3} x {add, sub} for join_values_w_shifts and
join_sig_w_time_shift (dyadic dt, exact multiples).

Round 3 (general lessons): the shift helpers and joins also get the values of short words as int64 / list / tuple / int16 /
int8 / uint8 / uint16 (steps so large that sums and differences leave the type's range) / float32 (multiples of float32(0.1))
/ scaled by 2^-30 and 2^20, also through a Signal holding such an array; expected values are the exact sums of the samples
actually passed.  Values, shifts and time-shift arrays are one object per sequence of calls (snapshot after every call) and
every returned array is overwritten in place after a private copy was taken.  Energy functions: batches also on records held
as int64 / int16 / uint8 (vs the float64 twin), alpha^2 scaling also for alpha = 2^-30 and 2^20, a third object history
(the object held another, longer record before).
"""
import itertools
from fractions import Fraction

import numpy as np

from ..target import eqsig, surface, time_shift
from ..result import Res
from ..compare import words, snapshot

SIGMA = (-1, 0, 2)
DT = '0.5'
TTS = ('0', '0.125', '0.25', '0.3', '0.5', '0.75', '1.1')       # shifts 0, .5, 1, 1.2, 2, 3, 4.4 samples
BATCHES = {'A': ('0', '0.125', '0.25', '0.3', '0.5', '0.75', '1.1'), 'B': ('1.1', '0.3', '0')}
# per-row reduction factors of the 'array' family (keyed by travel time, so a batch row and the
# corresponding single call use the same pair); up != down in every row
ARR_UP = {'0': '1', '0.125': '0.9', '0.25': '0.8', '0.3': '0.7', '0.5': '0.6', '0.75': '0.5', '1.1': '0.4'}
ARR_DOWN = {'0': '0.3', '0.125': '1', '0.25': '0.5', '0.3': '0.9', '0.5': '0.2', '0.75': '0.8', '1.1': '0.6'}
REDS = ('unit', 'scalar', 'array')
SCALAR_RED = {'unit': ('1', '1'), 'scalar': ('0.8', '0.5')}
STTS = (0.0, 0.5, 1.2)
OPTS = [(trim, start) for trim in (False, True) for start in (False, True)]
ALPHAS = (-1, 2, 3)
SHIFT_VALS = (-2, -1, 0, 1, 2)
CLIPS = ('default', 'none', 'start', 'end', 'both')
JOIN_DTS = (0.5, 0.25)
DEC_DTS = ('0.1', '0.01', '0.02', '0.005')
# object histories: public AccSignal operations performed on the object BEFORE it is handed to the surface functions
HISTORIES = ('velocity-read', 'rect-series', 'other-record')
FNS = (('energy', 'calc_surface_energy'), ('cum', 'calc_cum_abs_surface_energy'), ('motions', 'get_time_shift_motions'))
# ---- containers / dtypes / scalings of the values handed to the array-shifting helpers (words of length <= SHIFT_VARIANT_MAX_LEN;
#      actual samples w*mult+offset, exactly representable in the type; narrow / unsigned types carry steps so large that
#      original + shifted copy (or original - shifted copy) leaves the type's range; the float32 samples are multiples of
#      float32(0.1), whose sums are not float32 numbers; 2^-30 ~ 1e-9 and 2^20 ~ 1e6 are the scale-free sub-families).
#      The property fixes the VALUES of the result ("adds or subtracts the shifted copies from the zero-padded original"),
#      so they are compared with the exact sums whatever the input type.
F32_TENTH = Fraction(float(np.float32(0.1)))
SHIFT_VARIANTS = (
    ('i64', 1, 0, np.int64), ('list', 1, 0, list), ('tuple', 1, 0, tuple),
    ('i16 (w*12500)', 12500, 0, np.int16), ('i8 (w*60)', 60, 0, np.int8),
    ('u8 (w*50+50)', 50, 50, np.uint8), ('u16 (w*20000+20000)', 20000, 20000, np.uint16),
    ('f32 (w*float32(0.1))', F32_TENTH, 0, np.float32),
    ('f64 (w*2^-30)', Fraction(1, 2 ** 30), 0, float), ('f64 (w*2^20)', 2 ** 20, 0, float),
)
SHIFT_VARIANT_MAX_LEN = 3
# ---- records of the energy functions in other integer types (same samples; float32 records are answered to ~1e-8 only
#      on the unchanged tree and are not examined) and at other scales (alpha^2 scaling of the cumulative series)
ENERGY_DTYPES = (('i64', 1, 0, np.int64), ('i16 (w*10000)', 10000, 0, np.int16), ('u8 (w*80+80)', 80, 80, np.uint8))
EXTRA_ALPHAS = (('2^-30', Fraction(1, 2 ** 30)), ('2^20', Fraction(2 ** 20)))        # full series only


def build(tier, seed):
    quick = tier == 'quick'
    L = 5 if quick else 7
    Ls = 4 if quick else 5
    cases = []
    for w in words(SIGMA, 2, Ls, nonzero=True):
        cases.append({'kind': 'shift', 'w': list(w)})
    for w in words(SIGMA, 2, L, nonzero=True):
        for nodal in (True, False):
            for red in REDS:
                cases.append({'kind': 'energy', 'w': list(w), 'nodal': nodal, 'red': red})
    # decimal time steps: travel times that are whole multiples of dt/2 as a user writes them (k*dt/2 evaluated in floats, and
    # the rounded decimal), whose float quotient 2*tt/dt lands on, just below or just above the whole number
    for dts in DEC_DTS:
        for w in words(SIGMA, 2, 3, nonzero=True):
            cases.append({'kind': 'decimal', 'w': list(w), 'dt': dts, 'kmax': 12 if quick else 45})
    return {
        'rule_more': "start=True: the series is the reference moved by some whole number of samples (whole-step stt and travel time); 'decimal' cases: dt in %s x words of length <= 3 x travel times k*dt/2 (float product and rounded decimal), set-valued oracle at the jump" % (list(DEC_DTS),),
        'cases': cases,
        'rule': 'energy: all non-zero words over {-1,0,2} of length 2..%d, dt = 0.5, x nodal in {T,F} x reductions '
                '{(1,1), (0.8,0.5), per-row arrays with up != down} (one pool case each) x travel-time sets {each of '
                '%s singly, batch A = all ascending, batch B = (1.1, 0.3, 0)} x (trim,start) in {T,F}^2 x stt in %s x '
                '{calc_surface_energy, calc_cum_abs_surface_energy, get_time_shift_motions} (+ alpha in %s); the travel-time / '
                'reduction arrays of a set are the same objects in all its calls (snapshot after every call); + every set x the '
                'three functions (full series) on AccSignal objects with history in %s; '
                'shift helpers: all non-zero words of length 2..%d x all shift vectors over {-2..2}^{1..3} x clip in %s; '
                'joins: all shift vectors over {0..2}^{1..3} x {add,sub} x {values, signal with dt in %s}; '
                'added: every result array is overwritten in place after a private copy was taken; batches also on records held as '
                '%s (vs the float64 twin); alpha also in %s on the full series; shift helpers and joins on words of length <= %d also '
                'with the values as %s (put: shift vectors of length 1-2; joins: all), values / shifts / time-shift arrays being '
                'one object per sequence of calls (snapshot after every call); '
                'non-trivial = word not identically zero (every enumerated word)'
                % (L, list(TTS), list(STTS), list(ALPHAS), list(HISTORIES), Ls, list(CLIPS), list(JOIN_DTS),
                   [d[0] for d in ENERGY_DTYPES], [a[0] for a in EXTRA_ALPHAS], SHIFT_VARIANT_MAX_LEN,
                   [v[0] for v in SHIFT_VARIANTS]),
        'bounds': {'alphabet': SIGMA, 'max_len_energy': L, 'max_len_shift': Ls, 'dt': DT, 'travel_times': TTS,
                   'batches': BATCHES, 'reductions': {'unit': [1, 1], 'scalar': [0.8, 0.5],
                                                      'array_up': ARR_UP, 'array_down': ARR_DOWN},
                   'stt': STTS, 'trim_start': OPTS, 'alphas': ALPHAS, 'object_histories': HISTORIES,
                   'argument_arrays': 'one object per travel-time set, reused by all calls', 'shift_values': SHIFT_VALS,
                   'shift_vector_len': [1, 3], 'clip': CLIPS, 'tol': 1e-12,
                   'shift_value_variants': [v[0] for v in SHIFT_VARIANTS], 'shift_variant_max_len': SHIFT_VARIANT_MAX_LEN,
                   'energy_record_dtypes': [d[0] for d in ENERGY_DTYPES], 'extra_alphas_full_series': [a[0] for a in EXTRA_ALPHAS]},
        'required_classes': ['nodal', 'anti-nodal', 'red-unit', 'red-scalar', 'red-array', 'tt-zero', 'tt-subsample',
                             'tt-fractional', 'tt-integer', 'single', 'batch', 'trim', 'start', 'stt>0',
                             'quotient-exact', 'quotient-below', 'quotient-above', 'record-starts-nonzero',
                             'reference-compared', 'start-shift-compared', 'start-shift-nonzero-possible',
                             'energy-has-negative-values', 'cum-increases', 'cum-identically-zero',
                             'row-vs-single', 'row-shorter-than-batch', 'alpha-scaling',
                             'argument-array-reused', 'cum-first-sample-nonzero-energy',
                             'history-velocity-read', 'history-rect-series', 'history-other-record',
                             'record-dtype-i64', 'record-dtype-i16', 'record-dtype-u8', 'alpha-tiny-or-huge',
                             'shift-variant-i64', 'shift-variant-list', 'shift-variant-tuple', 'shift-variant-i16',
                             'shift-variant-i8', 'shift-variant-u8', 'shift-variant-u16', 'shift-variant-f32',
                             'shift-variant-f64',
                             'clip-default', 'clip-none', 'clip-start', 'clip-end', 'clip-both',
                             'shift-negative', 'shift-positive', 'shift-mixed-sign', 'join-add', 'join-sub',
                             'join-signal'],
        'assumptions': ['sample values in {-1,0,2}; lengths above the bound not examined; dt = 0.5 only for the energy '
                        'functions (dyadic, so int() of the delays is decided)',
                        'travel times, reductions and stt only on the menus; reductions given as floats or numpy arrays',
                        'reference decides (trim,start) = (F,F) and (T,F); for start=True the stated relations '
                        '(length when trimmed, row = single, monotonicity, zero, alpha^2) are checked and, where stt and the travel '
                        'time are whole steps, that the returned energy / motion series is the reference series moved by SOME whole '
                        'number of samples not larger than the travel times involved (zero before its start) - the property '
                        'does not define the start alignment itself',
                        'first element of the cumulative absolute change: |first energy of the series returned for the same '
                        'options| (change from rest) or 0 (no change inside the series yet) are both accepted',
                        'a query leaves its argument arrays unchanged (bit-for-bit); object histories: velocity property read, '
                        'generate_displacement_and_velocity_series(trap=False) called - both leave the record itself unchanged',
                        'history other-record: the object held a longer record on which the three functions were called, lazy '
                        'properties read and auxiliary statistics generated, then reset_values(this record)',
                        'value variants of the shift helpers: samples w*mult+offset exactly representable in the stated type; the '
                        'expected values are the exact sums / differences of the samples actually passed (the result values are '
                        'fixed by the property whatever the input type); float32 RECORDS of the energy functions are not examined '
                        '(answered to ~1e-8 on the unchanged tree); time shifts of join_sig_w_time_shift only as ndarray (a python '
                        'list is not accepted by the unchanged tree)',
                        'start=True: the statement does not define by how many samples a row is moved; stt and travel times with '
                        'different fractional parts of a step are in the menus, but only the stated relations are checked for them',
                        'decimal time steps %s (words of length <= 3, unit reductions, travel times k*dt/2 as float product and as '
                        'rounded decimal, k up to the bound): accepted is the defined series for the exact quotient of the floats passed '
                        'or for the whole number within 1e-9 of it' % (list(DEC_DTS),),
                        'join helpers: non-negative integer shifts; signal variant with time shifts that are exact '
                        'multiples of a dyadic dt'],
    }


# ------------------------------------------------------------------------------------------
# reference model (exact rationals)
# ------------------------------------------------------------------------------------------
def ffloor(q):
    return q.numerator // q.denominator


def ref_series(a, dt, tt, nodal, up, down, total_len, delay=None):
    """Acceleration and energy series of one travel time, `total_len` samples. All Fractions."""
    n = len(a)
    if delay is None:
        delay = 2 * tt / dt                  # in samples
    acc = []
    for j in range(total_len):
        upw = (a[j] if j < n else Fraction(0)) * up
        q = j - delay                        # position in the record at which the delayed wave is read
        if q < 0 or q > n - 1:
            d = Fraction(0)
        else:
            i = ffloor(q)
            fr = q - i
            d = a[i] if fr == 0 else a[i] * (1 - fr) + a[i + 1] * fr
        d = d * down
        acc.append(upw - d if nodal else upw + d)
    v = [Fraction(0)]
    for j in range(1, total_len):
        v.append(v[-1] + dt * (acc[j] + acc[j - 1]) / 2)
    e = [x * abs(x) / 2 for x in v]
    return acc, e


def fl(xs):
    return np.array([float(x) for x in xs], dtype=float)


def ref_put(values, shifts, clip):
    n = len(values)
    se = max(0, -min(shifts))
    ee = max(0, max(shifts))
    p_lo = 0 if clip in ('start', 'both') else -se
    p_hi = n if clip in ('end', 'both') else n + ee
    return [[values[p - s] if 0 <= p - s < n else 0 for p in range(p_lo, p_hi)] for s in shifts]


def ref_join(values, shifts, jtype):
    n = len(values)
    width = n + max(shifts)
    rows = []
    for s in shifts:
        row = []
        for c in range(width):
            orig = values[c] if c < n else 0
            sh = values[c - s] if 0 <= c - s < n else 0
            row.append(orig + sh if jtype == 'add' else orig - sh)
        rows.append(row)
    return rows


# ------------------------------------------------------------------------------------------
def red_for(red, tts):
    """(exact up list, exact down list, up argument, down argument).  The arguments are built ONCE here; the caller
    passes the same objects to every call of the travel-time set."""
    if red == 'array':
        ups = [Fraction(ARR_UP[t]) for t in tts]
        downs = [Fraction(ARR_DOWN[t]) for t in tts]
        return ups, downs, np.array([float(ARR_UP[t]) for t in tts]), np.array([float(ARR_DOWN[t]) for t in tts])
    u, d = SCALAR_RED[red]
    return [Fraction(u)] * len(tts), [Fraction(d)] * len(tts), float(u), float(d)


def row_of(out, i, batch):
    a = np.asarray(out)
    if batch:
        if a.ndim != 2:
            raise ValueError('batch result has %d dimensions' % a.ndim)
        return a[i]
    if a.ndim != 1:
        raise ValueError('single-travel-time result has %d dimensions' % a.ndim)
    return a


def run_energy(case):
    r = Res()
    w = [int(v) for v in case['w']]
    nodal = bool(case['nodal'])
    red = case['red']
    n = len(w)
    r.nontrivial += 1
    r.cls('nodal' if nodal else 'anti-nodal')
    r.cls('red-' + red)
    dt = Fraction(DT)
    dtf = float(DT)
    a = [Fraction(v) for v in w]
    amax = float(max(abs(v) for v in w))
    at_acc = 1e-12 * amax
    at_e = 1e-12 * (amax * dtf) ** 2
    singles = {}        # (fn, tt, trim, start, stt) -> 1-d array
    ttsets = [('single', (t,)) for t in TTS] + [('batch-' + k, v) for k, v in sorted(BATCHES.items())]

    sigs = {}
    hsigs = {}          # history name -> the AccSignal of this case that carries the history

    def sig_for(warr):
        # one AccSignal per distinct record of the case (the functions only read values, dt, npts;
        # that they leave the record alone is verified at the end of the case)
        k = tuple(warr)
        if k not in sigs:
            sigs[k] = eqsig.AccSignal(np.array(warr, dtype=float), dtf)
        return sigs[k]

    def make_sig(warr, hist):
        sg = eqsig.AccSignal(np.array(warr, dtype=float), dtf)
        if hist == 'velocity-read':
            sg.velocity                                                   # fills the object's velocity cache
        elif hist == 'rect-series':
            sg.generate_displacement_and_velocity_series(trap=False)      # cache now holds the rectangle-rule series
        elif hist == 'other-record':
            # the object held ANOTHER, longer record: the three functions were called on it, its lazy properties read and its
            # auxiliary statistics generated; then it was given this record (failures while building the history are ignored)
            sg = eqsig.AccSignal(np.array(list(warr) + [2, -1, 1], dtype=float), dtf)
            with np.errstate(all='ignore'):
                for step in (lambda: surface.calc_surface_energy(sg, np.array([0.3, 0.5]), stt=0.5, trim=True, start=True),
                             lambda: surface.calc_cum_abs_surface_energy(sg, 0.25, nodal=False),
                             lambda: surface.get_time_shift_motions(sg, np.array([1.1, 0.0])),
                             lambda: sg.velocity, lambda: sg.displacement, lambda: sg.pga, lambda: sg.fa_spectrum,
                             lambda: sg.generate_cumulative_stats(), lambda: sg.generate_duration_stats()):
                    try:
                        step()
                    except Exception:
                        pass
            sg.reset_values(np.array(warr, dtype=float))
        return sg

    def run(fn_attr, claim, sub, asig, args, trim, start, stt):
        """One call with the shared argument objects `args` = (travel times, up_red, down_red); afterwards the
        arguments must be bit-for-bit what they were (they are restored if not, so that the remaining
        comparisons of the case keep their meaning)."""
        fn = getattr(surface, fn_attr, None)
        if fn is None:
            r.fail(claim, sub, 'surface.%s does not exist' % fn_attr)
            return False, None
        before = [(name, x, snapshot(x), x.copy()) for name, x in zip(('travel_times', 'up_red', 'down_red'), args)
                  if isinstance(x, np.ndarray)]
        res = r.call(claim, sub, fn, asig, args[0], nodal=nodal, up_red=args[1], down_red=args[2], stt=stt, trim=trim,
                     start=start)
        if res[0] and isinstance(res[1], np.ndarray) and res[1].size:
            # the caller owns what is returned: it is overwritten in place after a private copy was taken (a result that
            # is a view of the record, of an argument or of something the function keeps shows later in the case)
            keep = res[1].copy()
            try:
                res[1][...] = 77.0
            except Exception:
                pass
            res = (True, keep)
        for name, x, snap, saved in before:
            r.cls('argument-array-reused')
            r.n_cmp += 1
            if snapshot(x) != snap:
                r.fail('arguments-unchanged', dict(sub, fn=fn_attr, argument=name),
                       'the caller\'s %s array was modified by the call' % name, observed=x, expected=saved)
                x[...] = saved
        return res

    for setname, tts in ttsets:
        batch = setname != 'single'
        r.cls('batch' if batch else 'single')
        ups, downs, up_arg, down_arg = red_for(red, tts)
        # the argument objects of this travel-time set: built once, the same objects go into every call below
        tt_arg = np.array([float(t) for t in tts]) if (batch or red == 'array') else float(tts[0])
        args = (tt_arg, up_arg, down_arg)
        delays = [2 * Fraction(t) / dt for t in tts]
        total_len = n + ffloor(max(delays))                  # pad = whole samples of the largest delay
        for t, dl in zip(tts, delays):
            if not batch:
                if dl == 0:
                    r.cls('tt-zero')
                elif dl < 1:
                    r.cls('tt-subsample')
                elif dl.denominator != 1:
                    r.cls('tt-fractional')
                else:
                    r.cls('tt-integer')
        refs = [ref_series(a, dt, Fraction(t), nodal, u, d, total_len) for t, u, d in zip(tts, ups, downs)]
        # objects with a history: the full series (trim = start = False, where stt plays no role) against the same reference
        for hist in HISTORIES:
            r.states += 1
            r.cls('history-' + hist)
            if hist not in hsigs:
                hsigs[hist] = make_sig(w, hist)
            for key, attr in FNS:
                sub = {'w': w, 'nodal': nodal, 'red': red, 'tt': [float(t) for t in tts] if batch else float(tts[0]),
                       'trim': False, 'start': False, 'stt': 0.0, 'fn': key, 'history': hist}
                ok, out = run(attr, key, sub, hsigs[hist], args, False, False, 0.0)
                if not ok:
                    continue
                try:
                    rows = [np.array(row_of(out, i, batch), dtype=float) for i in range(len(tts))]
                    if batch and np.asarray(out).shape[0] != len(tts):
                        raise ValueError('batch result has %d rows for %d travel times' % (np.asarray(out).shape[0], len(tts)))
                except Exception as e:
                    r.fail(key + '.shape', sub, 'malformed result: %s' % e, observed=out)
                    continue
                for i, t in enumerate(tts):
                    s2 = dict(sub, row=i) if batch else sub
                    acc_ref, e_ref = refs[i]
                    r.transitions += 1
                    if key == 'energy':
                        r.expect_close('energy.definition', s2, rows[i], fl(e_ref), rtol=1e-12, atol=at_e)
                    elif key == 'motions':
                        r.expect_close('motions.definition', s2, rows[i], fl(acc_ref), rtol=1e-12, atol=at_acc)
                    else:
                        cref = [Fraction(0)]                     # the full reference series starts at rest: e_ref[0] = 0
                        for j in range(1, total_len):
                            cref.append(cref[-1] + abs(e_ref[j] - e_ref[j - 1]))
                        r.expect_close('cum.definition', s2, rows[i], fl(cref), rtol=1e-12, atol=at_e)
        # records held in integer types (same samples as float64 twin): full series of the batches, all three functions
        if batch:
            for dname, mult, off, typ in ENERGY_DTYPES:
                r.states += 1
                r.cls('record-dtype-' + dname.split(' ')[0])
                vals = [int(affine(v, mult, off)) for v in w]
                sg_t = eqsig.AccSignal(np.array(vals, dtype=typ), dtf)
                held_dtype = sg_t.values.dtype     # the constructor may store narrow integer records in a wider integer type
                sg_f = sig_for(vals)
                for key, attr in FNS:
                    sub = {'w': w, 'nodal': nodal, 'red': red, 'tt': [float(t) for t in tts], 'trim': False, 'start': False,
                           'stt': 0.0, 'fn': key, 'record': dname}
                    ok1, o1 = run(attr, key, sub, sg_t, args, False, False, 0.0)
                    ok2, o2 = run(attr, key, dict(sub, record=dname + ' as float64'), sg_f, args, False, False, 0.0)
                    if ok1 and ok2:
                        r.transitions += 1
                        r.expect_close(key + '.record-dtype', sub, o1, o2, rtol=1e-12, atol=0.0,
                                       what='record held as %s vs the same samples held as float64' % dname)
                try:
                    same = sg_t.values.dtype == held_dtype and [float(v) for v in sg_t.values] == [float(v) for v in vals]
                except Exception:
                    same = False
                r.expect('record-unchanged', {'w': w, 'nodal': nodal, 'red': red, 'record': dname}, same,
                         'the signal object was modified by the surface functions', observed=getattr(sg_t, 'values', None),
                         expected=vals)
        for (trim, start) in OPTS:
            for stt in STTS:
                r.states += 1
                if trim:
                    r.cls('trim')
                if start:
                    r.cls('start')
                if stt > 0:
                    r.cls('stt>0')
                sub0 = {'w': w, 'nodal': nodal, 'red': red, 'tt': [float(t) for t in tts] if batch else float(tts[0]),
                        'trim': trim, 'start': start, 'stt': stt}
                outs = {}
                for key, attr in FNS:
                    sub = dict(sub0, fn=key)
                    ok, out = run(attr, key, sub, sig_for(w), args, trim, start, stt)
                    if not ok:
                        continue
                    try:
                        rows = [np.array(row_of(out, i, batch), dtype=float) for i in range(len(tts))]
                        if batch and np.asarray(out).shape[0] != len(tts):
                            raise ValueError('batch result has %d rows for %d travel times'
                                             % (np.asarray(out).shape[0], len(tts)))
                    except Exception as e:
                        r.fail(key + '.shape', sub, 'malformed result: %s' % e, observed=out)
                        continue
                    outs[key] = rows
                    # length when trimmed
                    if trim:
                        r.expect(key + '.length', sub, all(len(x) == n for x in rows),
                                 'trimmed output does not have npts samples', observed=[len(x) for x in rows], expected=n)
                    # reference
                    if not start:
                        r.cls('reference-compared')
                        m = n if trim else total_len
                        for i, t in enumerate(tts):
                            s2 = dict(sub, row=i) if batch else sub
                            acc_ref, e_ref = refs[i]
                            if key == 'energy':
                                want = fl(e_ref[:m])
                                r.expect_close('energy.definition', s2, rows[i], want, rtol=1e-12, atol=at_e)
                                if np.any(want < 0):
                                    r.cls('energy-has-negative-values')
                            elif key == 'motions':
                                r.expect_close('motions.definition', s2, rows[i], fl(acc_ref[:m]), rtol=1e-12, atol=at_acc)
                            else:
                                # cumulative absolute change of the reference energy (increments only)
                                de = [abs(e_ref[j] - e_ref[j - 1]) for j in range(1, m)]
                                try:
                                    got = np.diff(rows[i])
                                except Exception:
                                    got = None
                                r.expect_close('cum.definition', s2, got, fl(de), rtol=1e-12,
                                               atol=at_e, scale=float(sum(de)))
                    elif key in ('energy', 'motions'):
                        # start=True: the series is still the defined one, looked at in another time frame.  Where stt and the
                        # travel time are whole steps the move is a whole number of samples, of at most the travel times involved;
                        # WHICH number the statement does not say - so: some admissible integer move must reproduce the
                        # reference on the overlap, with rest (zero) before the series starts (anything is accepted behind the end
                        # of the computed series, where the library pads).
                        qs = Fraction(str(stt)) / dt
                        for i, t in enumerate(tts):
                            qt = Fraction(t) / dt
                            if qs.denominator != 1 or qt.denominator != 1:
                                r.disabled['start-shift: stt or travel time not a whole number of steps'] += 1
                                continue
                            acc_ref, e_ref = refs[i]
                            full = fl(e_ref if key == 'energy' else acc_ref)
                            at = at_e if key == 'energy' else at_acc
                            if not np.any(np.abs(full) > at):
                                r.disabled['start-shift: reference series identically zero'] += 1
                                continue
                            s2 = dict(sub, row=i) if batch else sub
                            smax = int(max(qs, qt)) + 1
                            x = rows[i]
                            good = []
                            for sh in range(-smax, smax + 1):
                                okk = len(x) > 0
                                nover = 0
                                for j in range(len(x)):
                                    q = j - sh
                                    if q < 0:
                                        if abs(x[j]) > at:
                                            okk = False
                                            break
                                    elif q < len(full):
                                        nover += 1
                                        if not abs(x[j] - full[q]) <= at + 1e-12 * abs(full[q]):
                                            okk = False
                                            break
                                if okk and nover >= min(len(full), n) - smax:
                                    good.append(sh)
                            r.cls('start-shift-compared')
                            if len(good) > 1:
                                r.cls('start-shift-ambiguous')
                            if good and good[0] != 0 or len(good) > 1:
                                r.cls('start-shift-nonzero-possible')
                            r.n_cmp += 1
                            r.expect(key + '.start-is-a-shift', s2, bool(good),
                                     'with start=True the returned series is not the defined series moved by a whole number of '
                                     'samples (|move| <= %d examined)' % smax, observed=x, expected=full)
                    # cumulative absolute change: non-decreasing, zero case
                    if key == 'cum':
                        for i, t in enumerate(tts):
                            s2 = dict(sub, row=i) if batch else sub
                            x = rows[i]
                            r.expect('cum.monotone', s2, bool(np.all(np.isfinite(x)) and np.all(np.diff(x) >= 0)
                                                             and (len(x) == 0 or x[0] >= 0)),
                                     'cumulative absolute surface energy decreases or is negative', observed=x)
                            if len(x) and x[-1] > x[0]:
                                r.cls('cum-increases')
                            if Fraction(t) == 0 and nodal and ups[i] == downs[i]:
                                r.cls('cum-identically-zero')
                                r.expect_close('cum.zero', s2, x, np.zeros(len(x)), rtol=0.0, atol=at_e * n * n)
                    # batch row = single-travel-time result on the common prefix
                    for i, t in enumerate(tts):
                        if not batch:
                            singles[(key, t, trim, start, stt)] = rows[i]
                        else:
                            sg = singles.get((key, t, trim, start, stt))
                            if sg is None:
                                r.disabled['row-vs-single: single call failed'] += 1
                                continue
                            r.transitions += 1
                            r.cls('row-vs-single')
                            m = min(len(sg), len(rows[i]))
                            if len(sg) < len(rows[i]):
                                r.cls('row-shorter-than-batch')
                            s2 = dict(sub, row=i)
                            r.expect(key + '.row', s2, m > 0, 'batch row and single result have no common prefix',
                                     observed=len(rows[i]), expected=len(sg))
                            r.expect_close(key + '.row', s2, rows[i][:m], sg[:m], rtol=1e-12,
                                           atol=at_acc if key == 'motions' else at_e)
                # cumulative absolute change versus the energy series of the same call
                if 'cum' in outs and 'energy' in outs:
                    for i in range(len(tts)):
                        s2 = dict(sub0, row=i) if batch else sub0
                        r.transitions += 1
                        try:
                            got = np.diff(outs['cum'][i])
                            want = np.abs(np.diff(outs['energy'][i]))
                            sc = float(np.max(np.abs(outs['cum'][i]))) if len(outs['cum'][i]) else 0.0
                        except Exception as e:
                            r.fail('cum.increments', s2, 'malformed: %s' % e)
                            continue
                        r.expect_close('cum.increments', s2, got, want, rtol=1e-12, atol=at_e, scale=sc)
                        # ... including the first element: the change accumulated at the first returned sample is that
                        # sample's energy measured from rest (the series starts from zero energy), or nothing at all
                        # (no change inside the returned series yet) - both conventions are accepted
                        try:
                            c0 = float(outs['cum'][i][0])
                            e0 = abs(float(outs['energy'][i][0]))
                        except Exception:
                            continue            # empty or malformed rows are reported by the shape / length claims
                        if e0 > at_e:
                            r.cls('cum-first-sample-nonzero-energy')
                        tol0 = at_e + 1e-12 * sc
                        r.expect('cum.first', s2, abs(c0 - e0) <= tol0 or abs(c0) <= tol0,
                                 'first element of the cumulative absolute change is neither |first energy| nor 0',
                                 observed=c0, expected=e0)
                # alpha^2 scaling of the cumulative absolute change
                if 'cum' in outs:
                    full = not trim and not start and stt == 0.0
                    for aname, alpha in [(al, al) for al in ALPHAS] + (list(EXTRA_ALPHAS) if full else []):
                        sub = dict(sub0, alpha=aname)
                        alpha = float(alpha)
                        if aname != alpha:
                            r.cls('alpha-tiny-or-huge')
                        ok, out = run('calc_cum_abs_surface_energy', 'cum.scaling', sub, sig_for([alpha * v for v in w]), args,
                                      trim, start, stt)
                        if not ok:
                            continue
                        r.transitions += 1
                        r.cls('alpha-scaling')
                        try:
                            got = np.array([row_of(out, i, batch) for i in range(len(tts))], dtype=float)
                            want = float(alpha * alpha) * np.array(outs['cum'], dtype=float)
                        except Exception as e:
                            r.fail('cum.scaling', sub, 'malformed result: %s' % e, observed=out)
                            continue
                        r.expect_close('cum.scaling', sub, got, want, rtol=1e-12, atol=at_e * alpha * alpha)
    for k, sg in sorted(sigs.items()) + [(tuple(w), hsigs[h]) for h in HISTORIES if h in hsigs]:
        try:
            same = bool(np.array_equal(np.asarray(sg.values), np.array(k, dtype=float))) and sg.dt == dtf
        except Exception:
            same = False
        r.expect('record-unchanged', {'w': w, 'nodal': nodal, 'red': red, 'record': list(k)}, same,
                 'the signal object was modified by the surface functions (later comparisons of this case are unreliable)',
                 observed=getattr(sg, 'values', None), expected=list(k))
    return r


def shift_vectors(vals):
    for k in (1, 2, 3):
        for v in itertools.product(vals, repeat=k):
            yield list(v)


def affine(v, mult, off):
    return Fraction(v) * Fraction(mult) + Fraction(off)


def build_arr(vals_fr, typ):
    """container of the exact rationals vals_fr (all exactly representable in the requested type)"""
    if typ in (list, tuple):
        return typ(int(v) for v in vals_fr)
    if typ in (float, np.float32):
        a = np.array([float(v) for v in vals_fr], dtype=typ)
    else:
        a = np.array([int(v) for v in vals_fr], dtype=typ)
    assert all(Fraction(float(x)) == v for x, v in zip(a.tolist(), vals_fr)), 'sample not representable'
    return a


class Shared(object):
    """An argument container handed, as the same object, to a sequence of calls; snapshot-checked after each."""

    def __init__(self, name, obj):
        self.name, self.obj, self.snap = name, obj, snapshot(obj)
        self.saved = obj.copy() if isinstance(obj, np.ndarray) else obj

    def verify(self, r, sub):
        r.n_cmp += 1
        if snapshot(self.obj) != self.snap:
            r.fail('arguments-unchanged', dict(sub, argument=self.name), "the caller's %s was modified by the call" % self.name,
                   observed=self.obj, expected=self.saved)
            if isinstance(self.obj, np.ndarray):
                self.obj[...] = self.saved
            elif isinstance(self.obj, list):
                self.obj[:] = list(self.saved)


def call_shared(r, claim, sub, shared, fn, *args, **kw):
    """r.call; the returned array is overwritten in place after a private copy was taken (a result that is a view of an
    argument or of something the function keeps shows in the snapshots / in the next call); snapshot check of the arguments."""
    ok, out = r.call(claim, sub, fn, *args, **kw)
    if ok and isinstance(out, np.ndarray) and out.size:
        keep = out.copy()
        try:
            out[...] = 77
        except Exception:
            pass
        out = keep
    for sh in shared:
        sh.verify(r, sub)
    return ok, out


def run_shift(case):
    r = Res()
    w = [int(v) for v in case['w']]
    r.nontrivial += 1
    _shift_body(r, w, None, 1, 0, float)
    if len(w) <= SHIFT_VARIANT_MAX_LEN:
        for tag, mult, off, typ in SHIFT_VARIANTS:
            r.cls('shift-variant-' + tag.split(' ')[0])
            _shift_body(r, w, tag, mult, off, typ)
    return r


def _shift_body(r, w, tag, mult, off, typ):
    """tag None: the historical float64 (+ int64 for put) containers; otherwise one container / dtype / scaling variant."""
    plain = tag is None
    wx = [affine(v, mult, off) for v in w]              # the samples actually passed (exact)
    wxf = [float(v) for v in wx]
    conts = (('f64', float), ('i64', np.int64)) if plain else ((tag, typ),)
    vals_sh = {cont: Shared('values', build_arr(wx, t)) for cont, t in conts}      # ONE object per container for all calls
    as_list = typ is list                              # the python-list variant also hands the shifts over as a list
    for sh in shift_vectors(SHIFT_VALS):
        if not plain and len(sh) > 2:
            break               # variants: shift vectors of length 1 and 2 (the placement logic is per row)
        if plain:
            if min(sh) < 0:
                r.cls('shift-negative')
            if max(sh) > 0:
                r.cls('shift-positive')
            if min(sh) < 0 < max(sh):
                r.cls('shift-mixed-sign')
        sh_arg = Shared('shifts', list(sh) if as_list else np.array(sh, dtype=int))
        for clip in CLIPS:
            r.states += 1
            if plain:
                r.cls('clip-' + clip)
            want = np.array(ref_put(wxf, sh, 'none' if clip == 'default' else clip), dtype=float)
            for cont, _ in conts:
                sub = {'w': w, 'shifts': sh, 'clip': clip, 'input': cont}
                kw = {} if clip == 'default' else {'clip': clip}
                ok, out = call_shared(r, 'put', sub, (vals_sh[cont], sh_arg), time_shift.put_array_in_2d_array,
                                      vals_sh[cont].obj, sh_arg.obj, **kw)
                if ok:
                    r.expect_close('put', sub, out, want.reshape(len(sh), -1), rtol=1e-12)
    jcont = conts[0][0]
    vsh = vals_sh[jcont]
    for sh in shift_vectors((0, 1, 2)):
        sh_arg = Shared('shifts', list(sh) if as_list else np.array(sh, dtype=int))
        for jtype in ('add', 'sub'):
            r.states += 1
            if plain:
                r.cls('join-' + jtype)
            # exact sums of the exact samples (Fractions), then rounded once
            want = np.array([[float(x) for x in row] for row in ref_join(wx, sh, jtype)], dtype=float)
            sub = {'w': w, 'shifts': sh, 'jtype': jtype}
            if not plain:
                sub['input'] = tag
            ok, out = call_shared(r, 'join', sub, (vsh, sh_arg), time_shift.join_values_w_shifts, vsh.obj, sh_arg.obj, jtype=jtype)
            if ok:
                r.expect_close('join', sub, out, want, rtol=1e-12)
            for jdt in JOIN_DTS:
                s2 = dict(sub, dt=jdt)
                if plain:
                    r.cls('join-signal')
                ts_arg = Shared('time_shifts', np.array(sh, dtype=float) * jdt)

                def via_sig():
                    sig = eqsig.Signal(vsh.obj, jdt)          # the Signal keeps the dtype it is given
                    return time_shift.join_sig_w_time_shift(sig, ts_arg.obj, jtype=jtype)
                ok, out = call_shared(r, 'join.signal', s2, (vsh, ts_arg), via_sig)
                if ok:
                    r.expect_close('join.signal', s2, out, want, rtol=1e-12)
        # default jtype is 'add'
        sub = {'w': w, 'shifts': sh, 'jtype': 'default'}
        if not plain:
            sub['input'] = tag
        ok, out = call_shared(r, 'join', sub, (vsh, sh_arg), time_shift.join_values_w_shifts, vsh.obj, sh_arg.obj)
        if ok:
            r.expect_close('join', sub, out, np.array([[float(x) for x in row] for row in ref_join(wx, sh, 'add')], dtype=float),
                           rtol=1e-12)


def run_decimal(case):
    """Decimal time steps.  The delay of the wave is 2*tt/dt samples; for the float numbers actually passed this quotient is a
    rational next to the whole number k the caller meant.  Accepted: the defined series for the exact quotient of the floats
    passed, or for the whole number next to it (within 1e-9 samples) - a record that starts with a non-zero sample jumps at t = 0,
    so the two differ there by a whole sample value and the statement does not say which is meant (rounding-level tie);
    anything else (e.g. a delay of k-1 samples) is a violation."""
    r = Res()
    w = [int(v) for v in case['w']]
    n = len(w)
    dtf = float(case['dt'])
    dt = Fraction(dtf)
    a = [Fraction(v) for v in w]
    amax = float(max(abs(v) for v in w))
    r.nontrivial += 1
    tts = []
    for k in range(1, case['kmax'] + 1):
        for t in (k * dtf / 2, float(repr(round(k * dtf / 2, 10)))):
            if t not in tts:
                tts.append(t)
    sig = eqsig.AccSignal(np.array(w, dtype=float), dtf)
    for t in tts:
        q = 2 * Fraction(t) / dt
        k = round(q)
        fq = 2 * t / dtf
        r.cls('quotient-exact' if fq == k else ('quotient-below' if fq < k else 'quotient-above'))
        if a[0] != 0:
            r.cls('record-starts-nonzero')
        total = n + int(k) + 1
        cands = [ref_series(a, dt, Fraction(t), nodal, Fraction(1), Fraction(1), total, delay=d)
                 for nodal in (True, False) for d in ([q] if q == k else [q, Fraction(k)])]
        per = len(cands) // 2
        for ni, nodal in enumerate((True, False)):
            for trim in (False, True):
                for key, attr in FNS:
                    sub = {'w': w, 'dt': dtf, 'tt': t, 'k': int(k), 'nodal': nodal, 'trim': trim, 'fn': key}
                    r.states += 1
                    ok, out = r.call(key + '.decimal-dt', sub, getattr(surface, attr), sig, t, nodal=nodal, trim=trim)
                    if not ok:
                        continue
                    try:
                        x = np.array(out, dtype=float)
                        if x.ndim != 1 or len(x) < n or (trim and len(x) != n):
                            raise ValueError('shape %r for a record of %d samples (trim=%s)' % (x.shape, n, trim))
                    except Exception as e:
                        r.fail(key + '.decimal-dt', sub, 'malformed result: %s' % e, observed=out)
                        continue
                    good = False
                    wants = []
                    for acc_ref, e_ref in cands[ni * per:(ni + 1) * per]:
                        if key == 'motions':
                            want, at = fl(acc_ref), 1e-10 * amax
                        elif key == 'energy':
                            want, at = fl(e_ref), 1e-10 * (amax * dtf * (n + k)) ** 2
                        else:
                            want = np.concatenate([[0.0], np.cumsum(np.abs(np.diff(fl(e_ref))))])
                            at = 1e-10 * (amax * dtf * (n + k)) ** 2 * (n + k)
                        m = min(len(x), len(want))
                        wants.append(want[:m])
                        if np.all(np.abs(x[:m] - want[:m]) <= at + 1e-10 * np.abs(want[:m])):
                            good = True
                    r.n_cmp += 1
                    r.transitions += 1
                    r.expect(key + '.decimal-dt', sub, good,
                             'series is not the defined one for a delay of 2*tt/dt = %.17g samples (nor for %d samples)'
                             % (float(q), int(k)), observed=x, expected=wants[0])
    same = bool(np.array_equal(np.asarray(sig.values), np.array(w, dtype=float)))
    r.expect('record-unchanged', {'w': w, 'dt': dtf}, same, 'the signal object was modified by the surface functions')
    return r


def run_case(case):
    if case['kind'] == 'shift':
        return run_shift(case)
    if case['kind'] == 'decimal':
        return run_decimal(case)
    return run_energy(case)


def snippet(case, v):
    sub = v.get('sub') or {}
    if case['kind'] == 'shift':
        return ("import numpy as np, eqsig\nfrom eqsig.fns import time_shift as ts\n"
                "sub = %r\nw = np.array(sub['w'], float); sh = np.array(sub['shifts'])\n"
                "if 'clip' in sub: print(ts.put_array_in_2d_array(w, sh, clip='none' if sub['clip'] == 'default' else sub['clip']))\n"
                "else:\n    jt = 'add' if sub['jtype'] == 'default' else sub['jtype']\n"
                "    print(ts.join_values_w_shifts(w, sh, jtype=jt))\n"
                "    print(ts.join_sig_w_time_shift(eqsig.Signal(w, sub.get('dt', 0.5)), sh * sub.get('dt', 0.5), jtype=jt))\n"
                % (sub,))
    if case['kind'] == 'decimal':
        return ("import numpy as np, eqsig\nfrom eqsig import surface as sf\nsub = %r\n"
                "a = eqsig.AccSignal(np.array(sub['w'], float), sub['dt'])\nprint(2 * sub['tt'] / sub['dt'])\n"
                "print(sf.get_time_shift_motions(a, sub['tt'], nodal=sub['nodal'], trim=sub['trim']))\n"
                "print(sf.calc_surface_energy(a, sub['tt'], nodal=sub['nodal'], trim=sub['trim']))\n" % (sub,))
    return ("import numpy as np, eqsig\nfrom eqsig import surface as sf\n"
            "sub = %r\nARR_UP = %r\nARR_DOWN = %r\n"
            "w = np.array(sub['w'], float) * sub.get('alpha', 1); tt = sub['tt']\n"
            "tts = tt if isinstance(tt, list) else [tt]\n"
            "up, down = {'unit': (1.0, 1.0), 'scalar': (0.8, 0.5)}.get(sub['red'], (None, None))\n"
            "if up is None:\n    up = np.array([float(ARR_UP[repr(t) if t else '0']) for t in tts]); "
            "down = np.array([float(ARR_DOWN[repr(t) if t else '0']) for t in tts]); tt = np.array(tts)\n"
            "elif isinstance(tt, list): tt = np.array(tt)\n"
            "kw = dict(nodal=sub['nodal'], up_red=up, down_red=down, stt=sub['stt'], trim=sub['trim'], start=sub['start'])\n"
            "a = eqsig.AccSignal(w, %s)\n"
            "if sub.get('history') == 'velocity-read': a.velocity\n"
            "if sub.get('history') == 'rect-series': a.generate_displacement_and_velocity_series(trap=False)\n"
            "print('energy ', sf.calc_surface_energy(a, tt, **kw))\nprint('cum    ', sf.calc_cum_abs_surface_energy(a, tt, **kw))\n"
            "print('motions', sf.get_time_shift_motions(a, tt, **kw))\n"
            "print('arguments after the calls (same objects in all three):', tt, up, down)\n" % (sub, ARR_UP, ARR_DOWN, DT))
