"""C12 - zero crossings and per-half-cycle (switched) peaks are exact.

Engine T: prefix tree of all words over {-2..2} and {-3..3} up to the length bounds; every
non-constant node x keep_adj_zeros x tol, crossings compared exactly with a scanning
reference, switched peaks checked against the excursion structure (set-valued where an
excursion attains its largest |value| twice).
"""
import itertools

import numpy as np

from ..target import eqsig, peaks_and_crossings as pc
from ..result import Res
from ..refs import peaks_ref as ref
from .c11 import lcg_word

ROOT = 3
TOLS = (0.5, 1.0, 1.5, 2.0, 2.5)   # between the levels of the alphabets and exactly on them


def _roots(alpha, lmax, tag):
    cs = []
    for n in range(1, min(ROOT, lmax) + 1):
        for w in itertools.product(alpha, repeat=n):
            cs.append({'fam': tag, 'alpha': list(alpha), 'root': list(w), 'lmax': lmax if n == ROOT else n})
    return cs


def _stretch(alpha, lmax, ks):
    return [{'fam': 'stretch', 'alpha': list(alpha), 'root': list(w), 'lmax': lmax, 'ks': list(ks)} for w in itertools.product(alpha, repeat=2)]


def build(tier, seed):
    if tier == 'quick':
        cases = _roots((-2, -1, 0, 1, 2), 7, 'S5') + _roots((-3, -2, -1, 0, 1, 2, 3), 5, 'S7') + _stretch((-2, -1, 0, 1, 2), 5, (3, 9, 41))
        bounds = {'S5 {-2..2}': 7, 'S7 {-3..3}': 5, 'S5 words of length 2..5 with every sample held for k steps, k in': [3, 9, 41]}
    else:
        cases = _roots((-2, -1, 0, 1, 2), 8, 'S5') + _roots((-3, -2, -1, 0, 1, 2, 3), 6, 'S7') + _stretch((-2, -1, 0, 1, 2), 6, (3, 9, 41, 700))
        bounds = {'S5 {-2..2}': 8, 'S7 {-3..3}': 6, 'S5 words of length 2..6 with every sample held for k steps, k in': [3, 9, 41, 700]}
        for j in range(64):
            sd = 64 * seed + j
            cases.append({'fam': 'long', 'seed': sd, 'n': [50, 200, 1000, 5000][j % 4], 'levels': [7, 9, 13][j % 3],
                          'stick': [0, 30, 60][(j // 4) % 3]})
        bounds['long seeded words (>=3 levels per excursion)'] = 'lengths 50..5000, seeds 64*VERIF_SEED..+63 (reported separately)'
    return {
        'rule_more': 'flag as numpy bool / int; index arrays edited in place by the caller before an equal query; constant series and series of length 1',
        'cases': cases,
        'rule': 'prefix tree of all words over the alphabet up to the length bound (pool case = sub-tree); crossings on every '
                'word (also constant / all-zero), switched peaks on every word (constant words and words of length 1: the clauses that do not need turning points); x keep_adj_zeros {T,F} x tol '
                '{0} + %s x input {float64,int64,list} (+ int16 x100, amplitudes 1e-9 / 1e-170 / 1e300, signal objects reused after an '
                'edit for short words); stretched family: every word of the stated length with each sample held for k steps, float64, '
                'tol {0,0.5,1.5}; non-trivial = non-constant word' % (list(TOLS),),
        'bounds': bounds,
        'required_classes': ['adjacent-zeros', 'leading-zero', 'sign-change-without-zero', 'first-excursion-starts-at-0',
                             'first-excursion-max-at-0', 'excursion-3-levels', 'tie-in-excursion', 'zero-valued-reported',
                             'tol-removes-something', 'same-array-sequence', 'stretched-long-record', 'constant-word-switched',
                             'length-1-word', 'flag-as-numpy.bool_', 'flag-as-int', 'result-edited-by-caller'],
        'assumptions': ['index-valued outputs are compared exactly', 'reference: scanning loops in mcheck/refs/peaks_ref.py',
                        'switched peaks of constant series: turning points are not defined for them (C11), so only ascending order, range, one index per excursion, non-emptiness and the tolerance subsequence are demanded'],
    }


def as_ints(x):
    return [int(v) for v in np.asarray(x).ravel().tolist()]


def check_word(r, w, fam, containers=('f', 'i', 'l'), tols=None, label=None):
    tols = TOLS if tols is None else tols
    n = len(w)
    r.states += 1
    sub0 = {'fam': fam, 'w': w if n <= 16 else (label or 'long')}
    # ---- zero crossings: defined for every series
    zs = [i for i in range(n) if w[i] == 0]
    if any(b - a == 1 for a, b in zip(zs, zs[1:])):
        r.cls('adjacent-zeros')
    if w[0] == 0:
        r.cls('leading-zero')
    if any(w[i] * w[i - 1] < 0 for i in range(1, n)):
        r.cls('sign-change-without-zero')
    z0 = {}
    for keep in (False, True):
        want = ref.zero_crossings(w, keep)
        for c in containers:
            arr = np.array(w, dtype=float) if c == 'f' else (np.array(w, dtype=np.int64) if c == 'i' else list(w))
            sub = dict(sub0, keep=keep, input=c)
            ok, got = r.call('crossings', sub, pc.get_zero_crossings_array_indices, arr, keep_adj_zeros=keep)
            if ok:
                r.expect_ints('crossings.exact', sub, got, want)
                if c == 'f':
                    try:
                        z0[keep] = as_ints(got)
                    except Exception:
                        pass
        # the flag as other booleans a caller may hold: a numpy bool (an element of a bool array, the result of a comparison) and 0 / 1
        if n <= 6:
            for fname, flag in (('numpy.bool_', np.bool_(keep)), ('int', int(keep))):
                sub = dict(sub0, keep=keep, flag_type=fname)
                ok, got = r.call('crossings', sub, pc.get_zero_crossings_array_indices, np.array(w, dtype=float), keep_adj_zeros=flag)
                if ok:
                    r.cls('flag-as-' + fname)
                    r.expect_ints('crossings.exact', sub, got, want)
        for tol in tols:
            sub = dict(sub0, keep=keep, tol=tol)
            ok, got = r.call('crossings.tol', sub, pc.get_zero_crossings_array_indices, np.array(w, dtype=float),
                             keep_adj_zeros=keep, tol=tol)
            if ok and keep in z0:
                try:
                    g = as_ints(got)
                    it = iter(z0[keep])
                    r.expect('crossings.tol-subsequence', sub, all(any(a == b for b in it) for a in g),
                             'not a subsequence of the tol=0 result', observed=g, expected=z0[keep])
                    if len(g) < len(z0[keep]):
                        r.cls('tol-removes-something')
                except Exception as e:
                    r.fail('crossings.tol-subsequence', sub, 'malformed result: %s' % e, observed=got)
    # the caller post-processes the index array it was given IN PLACE (e.g. to 1-based sample numbers); the next query for an equal record
    # still answers for the record (a result handed out from something the library keeps would come back edited)
    if n <= 6:
        for qname, fn_, kw_, want_ in (('crossings', pc.get_zero_crossings_array_indices, {}, ref.zero_crossings(w, False)),
                                       ('crossings tol=0.5', pc.get_zero_crossings_array_indices, {'tol': 0.5}, None),
                                       ('switched', pc.get_switched_peak_array_indices, {}, None),
                                       ('switched tol=0.5', pc.get_switched_peak_array_indices, {'tol': 0.5}, None)):
            if qname.startswith('switched') and len(set(w)) == 1:
                continue
            sub = dict(sub0, query=qname, sequence='query, result edited in place by the caller, same query on an equal record')
            ok, first = r.call('result-owned-by-caller', sub, fn_, np.array(w, dtype=float), **kw_)
            if not ok or not isinstance(first, np.ndarray) or not first.size:
                continue
            try:
                keep_first = as_ints(first)
                first += 1
                first[...] = first[::-1].copy()
            except Exception:
                continue
            ok, again = r.call('result-owned-by-caller', sub, fn_, np.array(w, dtype=float), **kw_)
            if ok:
                r.cls('result-edited-by-caller')
                r.expect_ints('result-owned-by-caller', sub, again, keep_first if want_ is None else want_)
    if n <= 5:
        ok, got = r.call('crossings', dict(sub0, input='signal-object'), pc.get_zero_crossings_indices, eqsig.AccSignal(np.array(w, dtype=float), 0.01))
        if ok:
            r.expect_ints('crossings.exact', dict(sub0, input='signal-object'), got, ref.zero_crossings(w, False))
    # ---- switched peaks: non-constant series
    if len(set(w)) == 1:
        # constant series ("for every series"): no turning points are defined for it (C11 speaks of non-constant series), so
        # only what the statement says without them: strictly ascending indices inside the series, exactly one of them in the
        # single excursion of a non-zero constant, never an empty result (the global absolute maximum is included), and the
        # tolerance results are subsequences of it
        r.cls('constant-word-switched')
        base = None
        for c in containers:
            arr = np.array(w, dtype=float) if c == 'f' else (np.array(w, dtype=np.int64) if c == 'i' else list(w))
            sub = dict(sub0, input=c)
            ok, got = r.call('switched', sub, pc.get_switched_peak_array_indices, arr)
            if not ok:
                continue
            try:
                g = as_ints(got)
            except Exception as e:
                r.fail('switched', sub, 'malformed result: %s' % e, observed=got)
                continue
            r.n_cmp += 1
            if c == 'f':
                base = g
            if any(b <= a for a, b in zip(g, g[1:])):
                r.fail('switched.ascending', sub, 'indices of a constant series are not strictly ascending', observed=g)
            elif any(i < 0 or i >= n for i in g):
                r.fail('switched.range', sub, 'index outside the series', observed=g)
            elif not g:
                r.fail('switched.global-max', sub, 'no index reported for a constant series (the global absolute maximum is not included)',
                       observed=g)
            elif w[0] != 0 and len(g) != 1:
                r.fail('switched.one-per-excursion', sub, 'the single excursion of a non-zero constant series contains %d reported '
                       'indices' % len(g), observed=g)
        if base is not None:
            for tol in tols:
                sub = dict(sub0, tol=tol)
                ok, got = r.call('switched.tol', sub, pc.get_switched_peak_array_indices, np.array(w, dtype=float), tol=tol)
                if ok:
                    try:
                        g = as_ints(got)
                        it = iter(base)
                        r.expect('switched.tol-subsequence', sub, all(any(a == b for b in it) for a in g),
                                 'not a subsequence of the tol=0 result', observed=g, expected=base)
                    except Exception as e:
                        r.fail('switched.tol-subsequence', sub, 'malformed result: %s' % e, observed=got)
        return
    r.nontrivial += 1
    exs = ref.excursions(w)
    if exs and exs[0][1][0] == 0:
        r.cls('first-excursion-starts-at-0')
        if abs(w[0]) == max(abs(w[i]) for i in exs[0][1]) and len(exs[0][1]) > 1:
            r.cls('first-excursion-max-at-0')
    for s, idxs in exs:
        vals = [abs(w[i]) for i in idxs]
        if len(set(vals)) >= 3:
            r.cls('excursion-3-levels')
        if vals.count(max(vals)) > 1:
            r.cls('tie-in-excursion')
    s0 = None
    for c in containers:
        arr = np.array(w, dtype=float) if c == 'f' else (np.array(w, dtype=np.int64) if c == 'i' else list(w))
        sub = dict(sub0, input=c)
        ok, got = r.call('switched', sub, pc.get_switched_peak_array_indices, arr)
        if not ok:
            continue
        try:
            g = as_ints(got)
        except Exception as e:
            r.fail('switched', sub, 'malformed result: %s' % e, observed=got)
            continue
        errs = ref.check_switched(w, g)
        r.n_cmp += 1
        seen = set()
        for tag, msg in errs:
            if tag in seen:
                continue
            seen.add(tag)
            r.fail('switched.' + tag, sub, msg, observed=g)
        if c == 'f':
            s0 = g
            if any(0 <= i < n and w[i] == 0 for i in g):
                r.cls('zero-valued-reported')
    if n <= 5 and s0 is not None:
        for inp, arg in (('signal-object', eqsig.AccSignal(np.array(w, dtype=float), 0.01)), ('array-via-wrapper', np.array(w, dtype=float))):
            ok, got = r.call('switched', dict(sub0, input=inp), pc.get_switched_peak_indices, arg)
            if ok:
                r.expect_ints('switched.wrapper', dict(sub0, input=inp), got, s0)
    if s0 is not None:
        for tol in tols:
            sub = dict(sub0, tol=tol)
            ok, got = r.call('switched.tol', sub, pc.get_switched_peak_array_indices, np.array(w, dtype=float), tol=tol)
            if ok:
                try:
                    g = as_ints(got)
                    it = iter(s0)
                    r.expect('switched.tol-subsequence', sub, all(any(a == b for b in it) for a in g),
                             'not a subsequence of the tol=0 result', observed=g, expected=s0)
                    if len(g) < len(s0):
                        r.cls('tol-removes-something')
                except Exception as e:
                    r.fail('switched.tol-subsequence', sub, 'malformed result: %s' % e, observed=got)


def check_sequence(r, w, fam):
    """One float64 array object handed to a sequence of queries (tolerance queries first), the way a caller analyses one
    record: every answer must be the answer for the record, and the array must come back unchanged.  Also narrow integer
    dtypes with large steps (products of differences overflow int16)."""
    n = len(w)
    sub0 = {'fam': fam, 'w': w}
    xf = np.array(w, dtype=float)
    snap = xf.tobytes()
    seq = [('crossings tol=0.5', lambda: pc.get_zero_crossings_array_indices(xf, tol=0.5), None),
           ('switched tol=0.5', lambda: pc.get_switched_peak_array_indices(xf, tol=0.5), None),
           ('crossings', lambda: pc.get_zero_crossings_array_indices(xf), ref.zero_crossings(w, False)),
           ('crossings keep', lambda: pc.get_zero_crossings_array_indices(xf, keep_adj_zeros=True), ref.zero_crossings(w, True))]
    nonconst = len(set(w)) > 1
    if not nonconst:
        seq = [q for q in seq if not q[0].startswith('switched')]
    for qname, fn, want in seq:
        sub = dict(sub0, after_queries_on_same_array=qname)
        ok, got = r.call('sequence', sub, fn)
        r.n_cmp += 1
        if xf.tobytes() != snap:
            r.fail('sequence.array-unchanged', sub, 'the query modified the array it was given', observed=xf, expected=w)
            xf[...] = np.array(w, dtype=float)
        if ok and want is not None:
            r.expect_ints('sequence.crossings', sub, got, want)
    if nonconst:
        ok, got = r.call('sequence', dict(sub0, after_queries_on_same_array='switched'), pc.get_switched_peak_array_indices, xf)
        if ok:
            try:
                errs = ref.check_switched(w, as_ints(got))
                r.n_cmp += 1
                if errs:
                    r.fail('sequence.switched', sub0, 'after tolerance queries on the same array: ' + errs[0][1], observed=got)
            except Exception as e:
                r.fail('sequence.switched', sub0, 'malformed: %s' % e)
        # narrow integer dtype, large steps: same structure as the word itself (scaling by 100 changes no sign and no order)
        xi16 = (np.array(w) * 100).astype(np.int16)
        ok, got = r.call('switched', dict(sub0, input='int16 x100'), pc.get_switched_peak_array_indices, xi16)
        if ok:
            try:
                errs = ref.check_switched([100 * v for v in w], as_ints(got))
                r.n_cmp += 1
                if errs:
                    r.fail('switched.' + errs[0][0], dict(sub0, input='int16 x100'), errs[0][1], observed=got)
            except Exception as e:
                r.fail('switched', dict(sub0, input='int16 x100'), 'malformed: %s' % e)
        ok, got = r.call('crossings', dict(sub0, input='int16 x100'), pc.get_zero_crossings_array_indices, xi16)
        if ok:
            r.expect_ints('crossings.exact', dict(sub0, input='int16 x100'), got, ref.zero_crossings(w, False))
    # the statement is exact and scale-free: the same pattern at 1e-9 of the amplitude, and at amplitudes where the product of two
    # values under- / overflows (1e-170, 1e300)
    for stag, sc in (('x1e-9', 1e-9), ('x1e-170', 1e-170), ('x1e300', 1e300)):
      if stag != 'x1e-9' and n > 5:
          continue
      xs = np.array(w, dtype=float) * sc
      for keep in (False, True):
        ok, got = r.call('crossings', dict(sub0, input=stag, keep=keep), pc.get_zero_crossings_array_indices, xs, keep_adj_zeros=keep)
        if ok:
            r.expect_ints('crossings.exact', dict(sub0, input=stag, keep=keep), got, ref.zero_crossings(w, keep))
      if nonconst:
        ok, got = r.call('switched', dict(sub0, input=stag), pc.get_switched_peak_array_indices, xs)
        if ok:
            try:
                errs = ref.check_switched(w, as_ints(got))
                r.n_cmp += 1
                if errs:
                    r.fail('switched.' + errs[0][0], dict(sub0, input=stag), errs[0][1], observed=got)
            except Exception as e:
                r.fail('switched', dict(sub0, input=stag), 'malformed: %s' % e)
    # object-level wrappers on an object whose record is replaced / edited between two queries
    if n <= 5:
        w2 = list(w[::-1])
        for cls_ in (eqsig.Signal, eqsig.AccSignal):
            for ename, edit, wn in (('reset_values', lambda sg: sg.reset_values(np.array(w2, dtype=float)), w2),
                                    ('add_constant', lambda sg: sg.add_constant(3.0), [v + 3.0 for v in w])):
                sub = dict(sub0, input=cls_.__name__ + '-reused', edit=ename)

                def reused():
                    sg = cls_(np.array(w, dtype=float), 0.01)
                    pc.get_zero_crossings_indices(sg)
                    if nonconst:
                        pc.get_switched_peak_indices(sg)
                    edit(sg)
                    return pc.get_zero_crossings_indices(sg), (pc.get_switched_peak_indices(sg) if len(set(wn)) > 1 else None)
                ok, got = r.call('crossings', sub, reused)
                if ok:
                    r.expect_ints('crossings.object-after-edit', sub, got[0], ref.zero_crossings(wn, False))
                    if got[1] is not None:
                        try:
                            errs = ref.check_switched(wn, as_ints(got[1]))
                            r.n_cmp += 1
                            if errs:
                                r.fail('switched.object-after-edit', sub, errs[0][1], observed=got[1])
                        except Exception as e:
                            r.fail('switched.object-after-edit', sub, 'malformed: %s' % e)
    r.cls('same-array-sequence')


def run_case(case):
    r = Res()
    fam = case['fam']
    if fam == 'long':
        w = lcg_word(case['seed'], case['n'], case['levels'], case['stick'])
        check_word(r, w, 'long:%d:%d:%d:%d' % (case['seed'], case['n'], case['levels'], case['stick']), containers=('f',), tols=(0.5, 1.0, 1.5))   # the open finding of tol=2.5 is keyed by enumerated words only
        return r
    root = tuple(case['root'])
    alpha = case['alpha']
    lmax = case['lmax']
    if fam == 'stretch':
        # every word of the sub-tree with each sample held for k steps: long records with few crossings / few excursions
        # (results that depend on the record being short, e.g. on the iteration order of a hash set of small indices)
        for n in range(max(len(root), 2), lmax + 1):
            for ext in itertools.product(alpha, repeat=n - len(root)):
                base_w = list(root + ext)
                for k in case['ks']:
                    w = [v for v in base_w for _ in range(k)]
                    r.transitions += 1
                    r.cls('stretched-long-record')
                    check_word(r, w, 'stretch', containers=('f',), tols=(0.5, 1.5), label='%r held x%d' % (base_w, k))
        return r
    if len(root) >= 2:
        check_word(r, list(root), fam)
        check_sequence(r, list(root), fam)
    elif len(root) == 1:
        r.cls('length-1-word')
        check_word(r, list(root), fam)
    for n in range(len(root) + 1, lmax + 1):
        for ext in itertools.product(alpha, repeat=n - len(root)):
            w = list(root + ext)
            r.transitions += 1
            check_word(r, w, fam, containers=('f', 'i') if n >= 6 else ('f', 'i', 'l'))
            if n <= 6:
                check_sequence(r, w, fam)
    return r


def snippet(case, v):
    return ("import numpy as np\nfrom eqsig.fns import peaks_and_crossings as pc\nw = %r\n"
            "print(pc.get_zero_crossings_array_indices(np.array(w, float)), pc.get_switched_peak_array_indices(np.array(w, float)))\n"
            % ((v.get('sub') or {}).get('w'),))
